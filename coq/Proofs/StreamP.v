(* StreamP.v — lemmas and proofs about Stream.v: the scanning spec on marker-joined pieces, locality of one
   entry (C08), prefixes of the stream (C13), field extraction on well-formed entries, the clean run (C03). *)
From Coq Require Import List Arith Bool Lia NArith ZArith.
From Coq Require Import Strings.Byte.
From PFF Require Import Bytes Stream.
Import ListNotations.

(* ================= prefixb / find ================= *)
Lemma prefixb_app m r : prefixb m (m ++ r) = true.
Proof.
  induction m as [|x m IH]; simpl; [reflexivity|].
  rewrite IH. destruct (byte_eqb_spec x x); [reflexivity|congruence].
Qed.

Lemma prefixb_true m s : prefixb m s = true -> exists r, s = m ++ r.
Proof.
  revert s; induction m as [|x m IH]; intros s H; simpl in *.
  - exists s; reflexivity.
  - destruct s as [|y s]; [discriminate|].
    apply andb_true_iff in H as [H1 H2].
    destruct (byte_eqb_spec x y); [subst|discriminate].
    destruct (IH _ H2) as [r ->]. exists r; reflexivity.
Qed.

Lemma prefixb_len m s : prefixb m s = true -> length m <= length s.
Proof. intros H; destruct (prefixb_true _ _ H) as [r ->]. rewrite app_length; lia. Qed.

Lemma prefixb_ext_true m s r : prefixb m s = true -> prefixb m (s ++ r) = true.
Proof. intros H; destruct (prefixb_true _ _ H) as [q ->]. rewrite <- app_assoc. apply prefixb_app. Qed.

Lemma prefixb_ext_false m s r : prefixb m s = false -> length m <= length s -> prefixb m (s ++ r) = false.
Proof.
  revert s; induction m as [|x m IH]; intros s H L; simpl in *; [discriminate|].
  destruct s as [|y s]; simpl in *; [lia|].
  apply andb_false_iff in H as [H|H].
  - rewrite H; reflexivity.
  - rewrite (IH s H ltac:(lia)). apply andb_false_r.
Qed.

Lemma find_nil_l s : find [] s = Some 0.
Proof. destruct s; reflexivity. Qed.

Lemma find_bound m s i : find m s = Some i -> i + length m <= length s.
Proof.
  revert i; induction s as [|y s IH]; intros i H; simpl in H.
  - destruct (prefixb m []) eqn:E; [|discriminate]. inversion H; subst.
    apply prefixb_len in E; simpl in *; lia.
  - destruct (prefixb m (y :: s)) eqn:E.
    + inversion H; subst. apply prefixb_len in E. simpl in *; lia.
    + destruct (find m s) as [j|] eqn:F; [|discriminate]. inversion H; subst.
      specialize (IH _ eq_refl). simpl; lia.
Qed.

Lemma find_app_some m s r i : find m s = Some i -> find m (s ++ r) = Some i.
Proof.
  revert i; induction s as [|y s IH]; intros i H.
  - simpl in H. destruct (prefixb m []) eqn:E; [|discriminate]. inversion H; subst.
    destruct m; [|discriminate]. simpl. apply find_nil_l.
  - pose proof (find_bound _ _ _ H) as B. simpl in H. simpl app.
    change (find m (y :: s ++ r)) with (if prefixb m (y :: s ++ r) then Some 0 else option_map S (find m (s ++ r))).
    destruct (prefixb m (y :: s)) eqn:E.
    + inversion H; subst. change (y :: s ++ r) with ((y :: s) ++ r). rewrite (prefixb_ext_true _ _ r E). reflexivity.
    + destruct (find m s) as [j|] eqn:F; [|discriminate]. inversion H; subst.
      change (y :: s ++ r) with ((y :: s) ++ r). rewrite (prefixb_ext_false _ _ r E) by lia.
      rewrite (IH _ eq_refl). reflexivity.
Qed.

Lemma find_app_none m a b : find m (a ++ b) = None -> find m a = None.
Proof.
  intros H. destruct (find m a) as [i|] eqn:F; [|reflexivity].
  rewrite (find_app_some _ _ b _ F) in H. discriminate.
Qed.

(* the marker found at i really is there, and nothing starts earlier *)
Lemma find_split m s i : find m s = Some i -> s = firstn i s ++ m ++ skipn (i + length m) s.
Proof.
  revert i; induction s as [|y s IH]; intros i H; simpl in H.
  - destruct (prefixb m []) eqn:E; [|discriminate]. inversion H; subst. destruct m; [reflexivity|discriminate].
  - destruct (prefixb m (y :: s)) eqn:E.
    + inversion H; subst. destruct (prefixb_true _ _ E) as [r Hr]. rewrite Hr. simpl.
      rewrite skipn_app, skipn_all, Nat.sub_diag. reflexivity.
    + destruct (find m s) as [j|] eqn:F; [|discriminate]. inversion H; subst.
      simpl. f_equal. apply IH. reflexivity.
Qed.

Lemma find_first_is_clean m s i : find m s = Some i -> find m (firstn i s ++ m) = Some (length (firstn i s)).
Proof.
  revert i; induction s as [|y s IH]; intros i H; simpl in H.
  - destruct (prefixb m []) eqn:E; [|discriminate]. inversion H; subst. destruct m; [reflexivity|discriminate].
  - destruct (prefixb m (y :: s)) eqn:E.
    + inversion H; subst. simpl.
      destruct m as [|x m]; [reflexivity|].
      change (find (x :: m) (x :: m)) with (if prefixb (x :: m) (x :: m) then Some 0 else option_map S (find (x :: m) m)).
      pose proof (prefixb_app (x :: m) []) as P. rewrite app_nil_r in P. rewrite P. reflexivity.
    + destruct (find m s) as [j|] eqn:F; [|discriminate]. inversion H; subst.
      pose proof (find_bound _ _ _ F) as B.
      simpl firstn. simpl app.
      change (find m (y :: firstn j s ++ m)) with
        (if prefixb m (y :: firstn j s ++ m) then Some 0 else option_map S (find m (firstn j s ++ m))).
      rewrite (IH _ eq_refl).
      assert (P : prefixb m (y :: firstn j s ++ m) = false).
      { (* y :: s = (y :: firstn j s ++ m) ++ rest *)
        pose proof (find_split _ _ _ F) as Sp.
        destruct (prefixb m (y :: firstn j s ++ m)) eqn:Q; [|reflexivity].
        assert (prefixb m (y :: s) = true); [|congruence].
        rewrite Sp. change (y :: firstn j s ++ m ++ skipn (j + length m) s) with ((y :: firstn j s) ++ m ++ skipn (j + length m) s).
        rewrite app_assoc. apply prefixb_ext_true. exact Q. }
      rewrite P. reflexivity.
Qed.

(* ================= marker-joined pieces ================= *)
Fixpoint join (m : list byte) (ps : list (list byte)) : list byte :=
  match ps with
  | [] => []
  | p :: rest => match rest with [] => p | _ => p ++ m ++ join m rest end
  end.

Definition clean_mid (m p : list byte) : Prop := find m (p ++ m) = Some (length p).
Definition clean_last (m p : list byte) : Prop := find m p = None.

Fixpoint clean_pieces (m : list byte) (ps : list (list byte)) : Prop :=
  match ps with
  | [] => True
  | p :: rest => match rest with
                 | [] => clean_last m p
                 | _ => clean_mid m p /\ clean_pieces m rest
                 end
  end.

Lemma join_cons m p q r : join m (p :: q :: r) = p ++ m ++ join m (q :: r).
Proof. reflexivity. Qed.

Lemma join_cons_nil m c cs : join m (c :: cs) = c ++ join m ([] :: cs).
Proof. destruct cs; simpl; [rewrite app_nil_r|]; reflexivity. Qed.

Lemma clean_mid_nil m : m <> [] -> clean_mid m [].
Proof.
  intros H. unfold clean_mid. simpl. destruct m as [|x m]; [congruence|].
  change (find (x :: m) (x :: m)) with (if prefixb (x :: m) (x :: m) then Some 0 else option_map S (find (x :: m) m)).
  pose proof (prefixb_app (x :: m) []) as P. rewrite app_nil_r in P. rewrite P. reflexivity.
Qed.

Lemma clean_mid_find m p r : clean_mid m p -> find m (p ++ m ++ r) = Some (length p).
Proof. intros H. rewrite app_assoc. apply find_app_some. exact H. Qed.

Lemma join_length_ge m ps : m <> [] -> length ps <= S (length (join m ps)).
Proof.
  intros Hm. induction ps as [|p rest IH]; simpl; [lia|].
  destruct rest as [|q r]; [simpl; lia|].
  rewrite !app_length. destruct m; [congruence|]. simpl in *. lia.
Qed.

(* spans of consecutive entries starting at offset off *)
Fixpoint spans (m : list byte) (off : nat) (cs : list (list byte)) : list (nat * nat) :=
  match cs with
  | [] => []
  | c :: rest => (off, off + length c) :: spans m (off + length c + length m) rest
  end.

Lemma skipn_app_len {A} (a b : list A) : skipn (length a) (a ++ b) = b.
Proof. rewrite skipn_app, skipn_all, Nat.sub_diag. reflexivity. Qed.

Lemma next_entry_join m A x c cs :
  m <> [] -> clean_mid m x -> clean_pieces m (c :: cs) ->
  next_entry m (A ++ join m (x :: c :: cs)) (length A) =
    Some (length A + length x + length m, length A + length x + length m + length c).
Proof.
  intros Hm Hx Hc. unfold next_entry.
  rewrite skipn_app_len, join_cons, (clean_mid_find _ _ _ Hx).
  assert (E : A ++ x ++ m ++ join m (c :: cs) = (A ++ x ++ m) ++ join m (c :: cs)) by (rewrite <- !app_assoc; reflexivity).
  replace (length A + length x + length m) with (length (A ++ x ++ m)) by (rewrite !app_length; lia).
  rewrite E, skipn_app_len.
  destruct cs as [|c' cs'].
  - simpl in Hc. simpl join. unfold clean_last in Hc. rewrite Hc. rewrite (app_length (A ++ x ++ m) c). reflexivity.
  - destruct Hc as [Hc _]. rewrite join_cons, (clean_mid_find _ _ _ Hc). reflexivity.
Qed.

Lemma next_entry_last m A x : clean_last m x -> next_entry m (A ++ x) (length A) = None.
Proof. intros H. unfold next_entry. rewrite skipn_app_len. unfold clean_last in H. rewrite H. reflexivity. Qed.

Lemma scan_join_aux m : m <> [] -> forall cs fuel A x,
  length cs < fuel -> clean_pieces m (x :: cs) ->
  scan_from fuel m (A ++ join m (x :: cs)) (length A) = spans m (length A + length x + length m) cs.
Proof.
  intros Hm. induction cs as [|c cs IH]; intros fuel A x Hf Hc.
  - destruct fuel; [simpl in Hf; lia|]. simpl in Hc. simpl. rewrite (next_entry_last _ _ _ Hc). reflexivity.
  - destruct fuel; [simpl in Hf; lia|].
    destruct Hc as [Hx Hc].
    cbn [scan_from]. rewrite (next_entry_join m A x c cs Hm Hx Hc).
    cbn [spans]. f_equal.
    set (A' := A ++ x ++ m ++ c).
    assert (E : A ++ join m (x :: c :: cs) = A' ++ join m ([] :: cs)).
    { unfold A'. rewrite join_cons, (join_cons_nil m c cs). rewrite <- !app_assoc. reflexivity. }
    assert (L : length A + length x + length m + length c = length A').
    { unfold A'. rewrite !app_length. lia. }
    rewrite E, L. rewrite (IH fuel A' []).
    + simpl length. f_equal. lia.
    + simpl in Hf. lia.
    + destruct cs as [|c' cs']; simpl in *.
      * unfold clean_last. destruct m; [congruence|reflexivity].
      * split; [apply clean_mid_nil; exact Hm|]. destruct Hc as [_ Hc]. exact Hc.
Qed.

Theorem scan_join m p0 cs : m <> [] -> clean_pieces m (p0 :: cs) ->
  entries_spec m (join m (p0 :: cs)) = spans m (length p0 + length m) cs.
Proof.
  intros Hm Hc. unfold entries_spec.
  pose proof (scan_join_aux m Hm cs (S (length (join m (p0 :: cs)))) [] p0) as H.
  simpl app in H. simpl length in H. apply H; [|exact Hc].
  pose proof (join_length_ge m (p0 :: cs) Hm). simpl in *. lia.
Qed.

(* the bytes of each span are the pieces *)
Lemma sub_app_mid (a c b : list byte) : sub (a ++ c ++ b) (length a) (length a + length c) = c.
Proof.
  unfold sub. rewrite skipn_app_len. replace (length a + length c - length a) with (length c) by lia.
  rewrite firstn_app, firstn_all, Nat.sub_diag. simpl. apply app_nil_r.
Qed.

Lemma spans_contents_aux m : forall cs A,
  map (fun se => sub (A ++ join m ([] :: cs)) (fst se) (snd se)) (spans m (length A + length m) cs) = cs.
Proof.
  induction cs as [|c cs IH]; intros A; [reflexivity|].
  cbn [spans map fst snd]. f_equal.
  - rewrite join_cons, app_nil_l. rewrite (join_cons_nil m c cs).
    replace (A ++ m ++ c ++ join m ([] :: cs)) with ((A ++ m) ++ c ++ join m ([] :: cs)) by (rewrite <- app_assoc; reflexivity).
    replace (length A + length m) with (length (A ++ m)) by (rewrite app_length; reflexivity).
    apply sub_app_mid.
  - specialize (IH (A ++ m ++ c)).
    replace (length A + length m + length c + length m) with (length (A ++ m ++ c) + length m) by (rewrite !app_length; lia).
    replace (A ++ join m ([] :: c :: cs)) with ((A ++ m ++ c) ++ join m ([] :: cs)).
    + exact IH.
    + rewrite join_cons, app_nil_l. rewrite (join_cons_nil m c cs). rewrite <- !app_assoc. reflexivity.
Qed.

Theorem spans_contents m p0 cs :
  map (fun se => sub (join m (p0 :: cs)) (fst se) (snd se)) (spans m (length p0 + length m) cs) = cs.
Proof.
  rewrite (join_cons_nil m p0 cs). apply spans_contents_aux.
Qed.

(* every stream is the join of its clean pieces *)
Fixpoint pieces (fuel : nat) (m s : list byte) : list (list byte) :=
  match fuel with
  | O => [s]
  | S f => match find m s with
           | None => [s]
           | Some i => firstn i s :: pieces f m (skipn (i + length m) s)
           end
  end.

Lemma pieces_nonempty fuel m s : pieces fuel m s <> [].
Proof. destruct fuel; simpl; [discriminate|]. destruct (find m s); discriminate. Qed.

Lemma pieces_spec m : m <> [] -> forall fuel s, length s < fuel ->
  join m (pieces fuel m s) = s /\ clean_pieces m (pieces fuel m s).
Proof.
  intros Hm. induction fuel as [|f IH]; intros s Hf; [lia|].
  simpl. destruct (find m s) as [i|] eqn:F.
  - pose proof (find_split _ _ _ F) as Sp. pose proof (find_bound _ _ _ F) as B.
    assert (Ls : length (skipn (i + length m) s) < f).
    { rewrite skipn_length. destruct m; [congruence|]. simpl in *. lia. }
    destruct (IH _ Ls) as [J C].
    remember (pieces f m (skipn (i + length m) s)) as rest eqn:R.
    destruct rest as [|q r]; [exfalso; symmetry in R; revert R; apply pieces_nonempty|].
    split.
    + rewrite join_cons, J. symmetry. exact Sp.
    + split; [|exact C]. unfold clean_mid.
      pose proof (find_first_is_clean _ _ _ F) as Q. exact Q.
  - simpl. split; [reflexivity|exact F].
Qed.

Theorem decompose m db : m <> [] ->
  exists p0 cs, db = join m (p0 :: cs) /\ clean_pieces m (p0 :: cs).
Proof.
  intros Hm. destruct (pieces_spec m Hm (S (length db)) db ltac:(lia)) as [J C].
  remember (pieces (S (length db)) m db) as ps eqn:R.
  destruct ps as [|p0 cs]; [exfalso; symmetry in R; revert R; apply pieces_nonempty|].
  exists p0, cs. split; [symmetry; exact J|exact C].
Qed.

(* cleanliness of a list only depends on each piece and on which piece is last *)
Lemma clean_pieces_app_mid m a c g b :
  clean_pieces m (a ++ c :: b) ->
  (b = [] -> clean_last m g) -> (b <> [] -> clean_mid m g) ->
  clean_pieces m (a ++ g :: b).
Proof.
  induction a as [|x a IH]; intros H Hl Hm'.
  - simpl in *. destruct b as [|q r]; [apply Hl; reflexivity|].
    destruct H as [_ H]. split; [apply Hm'; discriminate|exact H].
  - change ((x :: a) ++ c :: b) with (x :: (a ++ c :: b)) in H.
    change ((x :: a) ++ g :: b) with (x :: (a ++ g :: b)).
    remember (a ++ c :: b) as l1 eqn:E1. remember (a ++ g :: b) as l2 eqn:E2.
    destruct l1 as [|y1 l1]; [destruct a; discriminate|].
    destruct l2 as [|y2 l2]; [destruct a; discriminate|].
    cbn [clean_pieces] in *. destruct H as [Hx H]. split; [exact Hx|].
    apply IH; assumption.
Qed.

(* ================= C08: locality of the scan ================= *)
Theorem scan_local_content m p0 cs1 c g cs2 :
  m <> [] -> clean_pieces m (p0 :: cs1 ++ c :: cs2) ->
  (cs2 = [] -> clean_last m g) -> (cs2 <> [] -> clean_mid m g) ->
  let db := join m (p0 :: cs1 ++ c :: cs2) in
  let db' := join m (p0 :: cs1 ++ g :: cs2) in
  entries_spec m db = spans m (length p0 + length m) (cs1 ++ c :: cs2) /\
  entries_spec m db' = spans m (length p0 + length m) (cs1 ++ g :: cs2) /\
  map (fun se => sub db (fst se) (snd se)) (entries_spec m db) = cs1 ++ c :: cs2 /\
  map (fun se => sub db' (fst se) (snd se)) (entries_spec m db') = cs1 ++ g :: cs2.
Proof.
  intros Hm Hc Hl Hmid db db'.
  assert (Hc' : clean_pieces m (p0 :: cs1 ++ g :: cs2)).
  { change (p0 :: cs1 ++ g :: cs2) with ((p0 :: cs1) ++ g :: cs2). apply (clean_pieces_app_mid m (p0 :: cs1) c g cs2); assumption. }
  unfold db, db'.
  rewrite (scan_join m p0 _ Hm Hc), (scan_join m p0 _ Hm Hc').
  repeat split; try reflexivity; apply spans_contents.
Qed.

Lemma spans_app m off a b :
  spans m off (a ++ b) = spans m off a ++ spans m (off + length (concat (map (fun c => c ++ m) a))) b.
Proof.
  revert off; induction a as [|c a IH]; intros off; simpl.
  - rewrite Nat.add_0_r. reflexivity.
  - f_equal. rewrite IH. f_equal. f_equal. rewrite !app_length. lia.
Qed.

(* ================= C13: prefixes ================= *)
Lemma clean_mid_prefix m p t u : clean_mid m p -> p ++ m = t ++ u -> u <> [] -> clean_last m t.
Proof.
  intros H E Hu. unfold clean_last. destruct (find m t) as [i|] eqn:F; [|reflexivity].
  pose proof (find_bound _ _ _ F) as B.
  pose proof (find_app_some _ _ u _ F) as G. rewrite <- E in G. unfold clean_mid in H. rewrite H in G.
  inversion G; subst i.
  assert (length (p ++ m) = length (t ++ u)) by (rewrite E; reflexivity).
  rewrite !app_length in *. destruct u; [congruence|]. simpl in *. lia.
Qed.

Lemma firstn_join m : m <> [] -> forall ps c, ps <> [] -> clean_pieces m ps -> c <= length (join m ps) ->
  exists n t, n < length ps /\ firstn c (join m ps) = join m (firstn n ps ++ [t]) /\
              clean_pieces m (firstn n ps ++ [t]) /\
              c = length (join m (firstn n ps ++ [t])) /\
              (forall pn, nth_error ps n = Some pn -> length t < length pn + length m).
Proof.
  intros Hm. induction ps as [|p rest IH]; intros c Hne Hc Hle; [congruence|].
  destruct rest as [|q r].
  - exists 0, (firstn c p). simpl in *. repeat split; [lia| |rewrite firstn_length; lia|].
    + unfold clean_last in *. rewrite <- (firstn_skipn c p) in Hc. apply find_app_none in Hc. exact Hc.
    + intros pn H. inversion H; subst. rewrite firstn_length. destruct m; [congruence|]. simpl. lia.
  - destruct Hc as [Hp Hc]. rewrite join_cons in *.
    destruct (Nat.lt_ge_cases c (length p + length m)) as [Hlt|Hge].
    + exists 0, (firstn c (p ++ m)). simpl firstn. simpl app. simpl join. simpl length.
      repeat split; [lia| | |rewrite firstn_length, app_length; lia|].
      * rewrite app_assoc, firstn_app.
        replace (c - length (p ++ m)) with 0 by (rewrite app_length; lia). simpl. rewrite app_nil_r. reflexivity.
      * simpl. apply (clean_mid_prefix m p (firstn c (p ++ m)) (skipn c (p ++ m)) Hp).
        -- rewrite firstn_skipn. reflexivity.
        -- intros E. apply (f_equal (@length byte)) in E. rewrite skipn_length, app_length in E. simpl in E. lia.
      * intros pn H. simpl in H. inversion H; subst. rewrite firstn_length, app_length. lia.
    + rewrite !app_length in Hle.
      destruct (IH (c - (length p + length m)) ltac:(discriminate) Hc ltac:(lia)) as (n & t & Hn & Hf & Hcl & Hlen & Hb).
      exists (S n), t. simpl length. split; [simpl in Hn; lia|].
      assert (Hne' : firstn n (q :: r) ++ [t] <> []) by (destruct (firstn n (q :: r)); discriminate).
      remember (firstn n (q :: r) ++ [t]) as tl eqn:Etl.
      change (firstn (S n) (p :: q :: r) ++ [t]) with (p :: (firstn n (q :: r) ++ [t])). rewrite <- Etl.
      destruct tl as [|y tl]; [congruence|].
      rewrite join_cons. repeat split.
      * rewrite app_assoc, firstn_app, firstn_all2 by (rewrite app_length; lia).
        rewrite app_length, Hf, <- app_assoc. reflexivity.
      * exact Hp.
      * exact Hcl.
      * rewrite !app_length, <- Hlen. lia.
      * intros pn H. simpl in H. apply Hb. exact H.
Qed.

Lemma spans_snoc m off a t :
  spans m off (a ++ [t]) = spans m off a ++
     [(off + length (concat (map (fun c => c ++ m) a)), off + length (concat (map (fun c => c ++ m) a)) + length t)].
Proof. rewrite spans_app. reflexivity. Qed.

Lemma spans_firstn m n : forall off cs, firstn n (spans m off cs) = spans m off (firstn n cs).
Proof.
  induction n as [|n IH]; intros off cs; [reflexivity|].
  destruct cs as [|c cs]; [reflexivity|]. simpl. f_equal. apply IH.
Qed.

Lemma spans_length m off cs : length (spans m off cs) = length cs.
Proof. revert off; induction cs as [|c cs IH]; intros off; simpl; [reflexivity|]. rewrite IH. reflexivity. Qed.

Definition psum (m : list byte) (k : nat) (cs : list (list byte)) : nat :=
  length (concat (map (fun c => c ++ m) (firstn k cs))).

Lemma spans_nth m : forall cs off k s e, nth_error (spans m off cs) k = Some (s, e) ->
  exists c, nth_error cs k = Some c /\ s = off + psum m k cs /\ e = s + length c.
Proof.
  unfold psum. induction cs as [|c cs IH]; intros off k s e H; [destruct k; discriminate|].
  destruct k as [|k]; simpl in H.
  - inversion H; subst. exists c. simpl. repeat split; lia.
  - destruct (IH _ _ _ _ H) as (c' & Hc & Hs & He). exists c'. simpl. repeat split; [exact Hc| |exact He].
    rewrite Hs, !app_length. lia.
Qed.

Lemma spans_nth_inv m : forall cs off k c, nth_error cs k = Some c ->
  nth_error (spans m off cs) k = Some (off + psum m k cs, off + psum m k cs + length c).
Proof.
  unfold psum. induction cs as [|x cs IH]; intros off k c H; [destruct k; discriminate|].
  destruct k as [|k]; simpl in *.
  - inversion H; subst. f_equal. f_equal; lia.
  - rewrite (IH _ _ _ H). rewrite !app_length. f_equal. f_equal; lia.
Qed.

(* prefix sums are strictly increasing past a full piece+marker *)
Lemma psum_mono m : forall cs i n c, i < n -> nth_error cs i = Some c ->
  psum m i cs + length c + length m <= psum m n cs.
Proof.
  unfold psum. induction cs as [|x cs IH]; intros i n c G H; [destruct i; discriminate|].
  destruct n as [|n]; [lia|]. destruct i as [|i]; simpl in *.
  - inversion H; subst. rewrite !app_length. lia.
  - rewrite !app_length. specialize (IH i n c ltac:(lia) H). lia.
Qed.

Lemma psum_le m : forall cs i n, i <= n -> psum m i cs <= psum m n cs.
Proof.
  unfold psum. induction cs as [|x cs IH]; intros i n G; [destruct i, n; simpl; lia|].
  destruct i as [|i]; [simpl; lia|]. destruct n as [|n]; [lia|]. simpl. rewrite !app_length.
  specialize (IH i n ltac:(lia)). lia.
Qed.

Lemma join_snoc_length m a t : a <> [] ->
  length (join m (a ++ [t])) = length (concat (map (fun c => c ++ m) a)) + length t.
Proof.
  induction a as [|x a IH]; intros H; [congruence|].
  destruct a as [|y a].
  - simpl. rewrite !app_length. simpl. lia.
  - change ((x :: y :: a) ++ [t]) with (x :: (y :: a) ++ [t]).
    change ((y :: a) ++ [t]) with (y :: (a ++ [t])).
    rewrite join_cons. change (y :: a ++ [t]) with ((y :: a) ++ [t]).
    rewrite !app_length, IH by discriminate. simpl. rewrite !app_length. lia.
Qed.

(* C13, scanning part.  E = entries of the complete stream.  The entries of the stream cut at c are the first k
   entries of E unchanged, followed by at most one more entry that starts where entry k of E starts and ends at
   the cut (it is entry k of E itself when the cut falls exactly at its end); every entry of E whose closing
   marker lies wholly before the cut is among the first k, and only those are. *)
Theorem scan_prefix m db c : m <> [] -> c <= length db ->
  let E := entries_spec m db in
  exists k last,
    entries_spec m (firstn c db) = firstn k E ++ last /\ k <= length E /\
    (last = [] \/ exists s e, nth_error E k = Some (s, e) /\ last = [(s, c)] /\ s <= c /\ c < e + length m) /\
    (forall i s e, nth_error E i = Some (s, e) -> e + length m <= c -> i < k) /\
    (forall i s e, nth_error E i = Some (s, e) -> i < k -> e + length m <= c).
Proof.
  intros Hm Hle E.
  destruct (decompose m db Hm) as (p0 & cs & Hdb & Hc).
  assert (HE : E = spans m (length p0 + length m) cs) by (unfold E; rewrite Hdb; apply scan_join; assumption).
  rewrite Hdb in Hle.
  destruct (firstn_join m Hm (p0 :: cs) c ltac:(discriminate) Hc Hle) as (n & t & Hn & Hf & Hcl & Hlen & Hb).
  rewrite Hdb, Hf.
  destruct n as [|n].
  - (* the cut is inside the preamble or the first marker: no entry *)
    simpl firstn in *. simpl app in *.
    exists 0, []. simpl firstn. simpl app.
    assert (S0 : entries_spec m (join m [t]) = []).
    { pose proof (scan_join m t [] Hm Hcl) as Q. simpl in Q. exact Q. }
    rewrite S0. repeat split; [lia|left; reflexivity| |intros; lia].
    intros i s e Hi Hce. exfalso. rewrite HE in Hi.
    destruct (spans_nth _ _ _ _ _ _ Hi) as (c' & _ & Hs & He). simpl in Hlen.
    specialize (Hb p0 eq_refl). lia.
  - simpl firstn in *. change ((p0 :: firstn n cs) ++ [t]) with (p0 :: (firstn n cs ++ [t])) in *.
    rewrite (scan_join m p0 _ Hm Hcl).
    simpl in Hn. assert (Hn' : n < length cs) by lia.
    destruct (nth_error cs n) as [cn|] eqn:Ecn; [|apply nth_error_None in Ecn; lia].
    specialize (Hb cn Ecn).
    assert (Hc_eq : c = length p0 + length m + psum m n cs + length t).
    { rewrite Hlen. change (p0 :: firstn n cs ++ [t]) with ((p0 :: firstn n cs) ++ [t]).
      rewrite join_snoc_length by discriminate. unfold psum. simpl. rewrite !app_length. lia. }
    exists n, [(length p0 + length m + psum m n cs, c)].
    rewrite spans_snoc, HE, spans_firstn. fold (psum m n cs). rewrite <- Hc_eq.
    split; [reflexivity|]. split; [rewrite spans_length; lia|].
    split; [|split].
    + right. eexists _, _. split; [apply (spans_nth_inv m cs _ n cn Ecn)|].
      split; [reflexivity|]. lia.
    + intros i s e Hi Hce.
      destruct (spans_nth _ _ _ _ _ _ Hi) as (c' & Hci & Hs & He).
      destruct (Nat.lt_ge_cases i n) as [G|G]; [exact G|exfalso].
      destruct (Nat.eq_dec i n) as [->|Hne].
      * rewrite Ecn in Hci. inversion Hci; subst c'. lia.
      * pose proof (psum_mono m cs n i cn ltac:(lia) Ecn). lia.
    + intros i s e Hi Hik.
      destruct (spans_nth _ _ _ _ _ _ Hi) as (c' & Hci & Hs & He).
      pose proof (psum_mono m cs i n c' Hik Hci). lia.
Qed.

(* ================= field extraction on a well-formed entry text ================= *)
Local Open Scope Z_scope.

Lemma pfind_at d A r i : find d r = Some i ->
  pfind d (A ++ r) (Z.of_nat (length A)) = Z.of_nat (length A + i).
Proof.
  intros H. unfold pfind, zlen. rewrite app_length.
  destruct (Z.ltb_spec (Z.of_nat (length A + length r)) (Z.of_nat (length A))) as [L|L]; [lia|].
  rewrite Nat2Z.id, skipn_app_len, H. lia.
Qed.

Lemma pslice_at A x R : pslice (A ++ x ++ R) (Z.of_nat (length A)) (Z.of_nat (length A + length x)) = x.
Proof.
  unfold pslice, norm, zlen. rewrite !app_length.
  destruct (Z.ltb_spec (Z.of_nat (length A)) 0) as [L|_]; [lia|].
  destruct (Z.ltb_spec (Z.of_nat (length A + length x)) 0) as [L|_]; [lia|].
  rewrite !Z.min_l by lia.
  replace (Z.of_nat (length A + length x) - Z.of_nat (length A)) with (Z.of_nat (length x)) by lia.
  rewrite !Nat2Z.id, skipn_app_len, firstn_app, firstn_all, Nat.sub_diag. simpl. apply app_nil_r.
Qed.

Lemma pfrom_at A R : pfrom (A ++ R) (Z.of_nat (length A)) = R.
Proof.
  unfold pfrom, pslice, norm, zlen. rewrite !app_length.
  destruct (Z.ltb_spec (Z.of_nat (length A)) 0) as [L|_]; [lia|].
  destruct (Z.ltb_spec (Z.of_nat (length A + length R)) 0) as [L|_]; [lia|].
  rewrite Z.min_id. rewrite Z.min_l by lia.
  replace (Z.of_nat (length A + length R) - Z.of_nat (length A)) with (Z.of_nat (length R)) by lia.
  rewrite !Nat2Z.id, skipn_app_len, firstn_all. reflexivity.
Qed.

Lemma strip_pre_id d e : prefixb d e = false -> strip_pre (length e) d e = e.
Proof. intros H. destruct (length e); simpl; [reflexivity|]. destruct d; [reflexivity|]. rewrite H. reflexivity. Qed.

Definition meta_len (d p z pe ze : list byte) : nat := length (p ++ d ++ z ++ d ++ pe ++ d ++ ze ++ d).

Theorem get_fields_wf d p z pe ze t :
  prefixb d (p ++ d) = false -> clean_mid d p -> clean_mid d z -> clean_mid d pe -> clean_mid d ze ->
  get_fields d (p ++ d ++ z ++ d ++ pe ++ d ++ ze ++ d ++ t) =
    mkFields p z pe ze (Z.of_nat (meta_len d p z pe ze)) t.
Proof.
  intros Hs Hp Hz Hpe Hze. unfold get_fields, meta_len.
  set (e := p ++ d ++ z ++ d ++ pe ++ d ++ ze ++ d ++ t).
  assert (Hs' : prefixb d e = false).
  { unfold e. rewrite app_assoc. apply prefixb_ext_false; [exact Hs|rewrite app_length; lia]. }
  rewrite (strip_pre_id _ _ Hs').
  (* first *)
  assert (F1 : pfind d e 0 = Z.of_nat (length p)).
  { change 0 with (Z.of_nat (length (@nil byte))). change e with ([] ++ e).
    rewrite (pfind_at d [] e (length p)); [reflexivity|]. unfold e. apply clean_mid_find. exact Hp. }
  rewrite F1.
  assert (E1 : e = (p ++ d) ++ z ++ d ++ pe ++ d ++ ze ++ d ++ t) by (unfold e; rewrite <- !app_assoc; reflexivity).
  assert (S1 : Z.of_nat (length p) + zlen d = Z.of_nat (length (p ++ d))) by (unfold zlen; rewrite app_length; lia).
  rewrite S1.
  assert (F2 : pfind d e (Z.of_nat (length (p ++ d))) = Z.of_nat (length (p ++ d) + length z)).
  { rewrite E1 at 1. apply pfind_at. apply clean_mid_find. exact Hz. }
  rewrite F2.
  assert (E2 : e = (p ++ d ++ z ++ d) ++ pe ++ d ++ ze ++ d ++ t) by (unfold e; rewrite <- !app_assoc; reflexivity).
  assert (S2 : Z.of_nat (length (p ++ d) + length z) + zlen d = Z.of_nat (length (p ++ d ++ z ++ d)))
    by (unfold zlen; rewrite !app_length; lia).
  rewrite S2.
  assert (F3 : pfind d e (Z.of_nat (length (p ++ d ++ z ++ d))) = Z.of_nat (length (p ++ d ++ z ++ d) + length pe)).
  { rewrite E2 at 1. apply pfind_at. apply clean_mid_find. exact Hpe. }
  rewrite F3.
  assert (E3 : e = (p ++ d ++ z ++ d ++ pe ++ d) ++ ze ++ d ++ t) by (unfold e; rewrite <- !app_assoc; reflexivity).
  assert (S3 : Z.of_nat (length (p ++ d ++ z ++ d) + length pe) + zlen d = Z.of_nat (length (p ++ d ++ z ++ d ++ pe ++ d)))
    by (unfold zlen; rewrite !app_length; lia).
  rewrite S3.
  assert (F4 : pfind d e (Z.of_nat (length (p ++ d ++ z ++ d ++ pe ++ d))) =
               Z.of_nat (length (p ++ d ++ z ++ d ++ pe ++ d) + length ze)).
  { rewrite E3 at 1. apply pfind_at. apply clean_mid_find. exact Hze. }
  rewrite F4.
  assert (E4 : e = (p ++ d ++ z ++ d ++ pe ++ d ++ ze ++ d) ++ t) by (unfold e; rewrite <- !app_assoc; reflexivity).
  assert (S4 : Z.of_nat (length (p ++ d ++ z ++ d ++ pe ++ d) + length ze) + zlen d =
               Z.of_nat (length (p ++ d ++ z ++ d ++ pe ++ d ++ ze ++ d)))
    by (unfold zlen; rewrite !app_length; lia).
  rewrite S4.
  f_equal.
  - change 0 with (Z.of_nat (length (@nil byte))).
    replace (Z.of_nat (length p)) with (Z.of_nat (length (@nil byte) + length p)) by (simpl; reflexivity).
    change e with ([] ++ e). unfold e. apply pslice_at.
  - rewrite E1 at 1. apply pslice_at.
  - rewrite E2 at 1. apply pslice_at.
  - rewrite E3 at 1. apply pslice_at.
  - rewrite E4 at 1. apply pfrom_at.
Qed.
Local Close Scope Z_scope.

(* ================= the two main loops ================= *)
Lemma steps_app acc a b : steps acc (a ++ b) = match steps acc a with Some acc' => steps acc' b | None => None end.
Proof. revert acc; induction a as [|r a IH]; intros acc; simpl; [reflexivity|]. destruct (step acc r); [apply IH|reflexivity]. Qed.

Definition is_crash (r : eres) : bool := match r with EFile _ BCrash => true | _ => false end.

Lemma steps_no_crash rs : forallb (fun r => negb (is_crash r)) rs = true -> forall acc, steps acc rs <> None.
Proof.
  induction rs as [|r rs IH]; intros H acc; simpl in *; [discriminate|].
  apply andb_true_iff in H as [H1 H2].
  destruct acc as [c o]. destruct r as [w|p [| st out|]]; simpl in *; try discriminate; apply IH; exact H2.
Qed.

Lemma steps_crash rs acc : steps acc rs = None -> existsb is_crash rs = true.
Proof.
  revert acc; induction rs as [|r rs IH]; intros acc H; simpl in *; [discriminate|].
  destruct (step acc r) as [acc'|] eqn:E.
  - rewrite (IH _ H). apply orb_true_r.
  - destruct acc as [c o]. destruct r as [w|p [| st out|]]; simpl in *; try discriminate. reflexivity.
Qed.

(* a run over n clean files *)
Lemma steps_clean : forall (rs : list eres) c o,
  (forall r, In r rs -> exists p, r = EFile p BClean) ->
  steps (c, o) rs = Some (mkC (length rs + n_proc c) (n_corr c) (n_full c) (n_part c) (n_skip c), o).
Proof.
  induction rs as [|r rs IH]; intros c o H.
  - simpl. destruct c; reflexivity.
  - destruct (H r (or_introl eq_refl)) as [p ->]. simpl.
    rewrite IH by (intros r' Hr'; apply H; right; exact Hr'). simpl. f_equal. f_equal. f_equal. lia.
Qed.

Section ToolsP.
  Variables marker delim : list byte.
  Variable ignore_size : bool.
  Variable look : list byte -> option (list byte).
  Variable intra : list byte -> list byte -> list byte.
  Variable blocksH : list byte -> Z -> list byte -> bres.
  Variable window : nat.
  Variable blocksW : list byte -> nat -> nat -> Z -> list byte -> bres * nat.

  Notation meta := (meta ignore_size look intra).
  Notation entry_h := (entry_h delim ignore_size look intra blocksH).
  Notation entry_w := (entry_w delim ignore_size look intra window blocksW).
  Notation trace_h := (trace_h marker delim ignore_size look intra blocksH).
  Notation trace_w := (trace_w marker delim ignore_size look intra window blocksW).
  Notation loop_h := (loop_h marker delim ignore_size look intra blocksH).
  Notation loop_w := (loop_w marker delim ignore_size look intra window blocksW).
  Notation run_h := (run_h marker delim ignore_size look intra blocksH).
  Notation run_w := (run_w marker delim ignore_size look intra window blocksW).

  Lemma loop_h_spec : forall fuel db pos,
    loop_h fuel db pos = map (fun se => (fst se, snd se, entry_h (sub db (fst se) (snd se)))) (scan_from fuel marker db pos).
  Proof.
    induction fuel as [|f IH]; intros db pos; simpl; [reflexivity|].
    destruct (next_entry marker db pos) as [[s e]|]; [|reflexivity]. simpl. f_equal. apply IH.
  Qed.

  Lemma loop_w_spec : forall fuel db pos,
    map (fun t => (snd (fst t), snd t)) (loop_w true fuel db pos) =
    map (fun se => (se, entry_w db (fst se) (snd se))) (scan_from fuel marker db pos).
  Proof.
    induction fuel as [|f IH]; intros db pos; simpl; [reflexivity|].
    destruct (next_entry marker db pos) as [[s e]|]; [|reflexivity]. simpl. f_equal. apply IH.
  Qed.

  (* where each scan of the whole-tool loop starts: at 0, then exactly at the end of the previous entry *)
  Fixpoint cursors_ok (pos : nat) (l : list (nat * (nat * nat) * (eres * nat * nat))) : Prop :=
    match l with
    | [] => True
    | (p, (s, e), _) :: rest => p = pos /\ cursors_ok e rest
    end.

  Lemma loop_w_cursors : forall fuel db pos, cursors_ok pos (loop_w true fuel db pos).
  Proof.
    induction fuel as [|f IH]; intros db pos; simpl; [exact I|].
    destruct (next_entry marker db pos) as [[s e]|]; [|exact I]. simpl. split; [reflexivity|apply IH].
  Qed.

  Theorem trace_w_spans db : map (fun t => snd (fst t)) (trace_w db) = entries_spec marker db.
  Proof.
    unfold trace_w, entries_spec.
    pose proof (loop_w_spec (S (length db)) db 0) as H.
    apply (f_equal (map fst)) in H. rewrite !map_map in H. simpl in H. rewrite map_id in H. exact H.
  Qed.

  Definition results_h (db : list byte) : list eres := map snd (trace_h db).
  Definition results_w (db : list byte) : list eres := map (fun t => fst (fst (snd t))) (trace_w db).

  Theorem results_h_spec db :
    results_h db = map (fun se => entry_h (sub db (fst se) (snd se))) (entries_spec marker db).
  Proof. unfold results_h, trace_h, entries_spec. rewrite loop_h_spec, map_map. reflexivity. Qed.

  Theorem results_w_spec db :
    results_w db = map (fun se => fst (fst (entry_w db (fst se) (snd se)))) (entries_spec marker db).
  Proof.
    unfold results_w, trace_w, entries_spec.
    pose proof (loop_w_spec (S (length db)) db 0) as H.
    apply (f_equal (map (fun x => fst (fst (snd x))))) in H. rewrite !map_map in H. simpl in H. exact H.
  Qed.

  (* ----- no exception escapes when the per-block stage raises none ----- *)
  Hypothesis blocksH_total : forall t z f, blocksH t z f <> BCrash.
  Hypothesis blocksW_total : forall db t e z f, fst (blocksW db t e z f) <> BCrash.

  Lemma entry_h_no_crash text : is_crash (entry_h text) = false.
  Proof.
    unfold Stream.entry_h. destruct (meta _) as [w|[[p z] f]]; [reflexivity|]. simpl.
    specialize (blocksH_total (f_track (get_fields delim text)) z f).
    destruct (blocksH _ _ _); try reflexivity. congruence.
  Qed.

  Lemma entry_w_no_crash db s e : is_crash (fst (fst (entry_w db s e))) = false.
  Proof.
    unfold Stream.entry_w. destruct (meta _) as [w|[[p z] f]]; [reflexivity|].
    specialize (blocksW_total db (s + Z.to_nat (f_toff (get_fields delim (sub db s (s + window))))) e z f).
    destruct (blocksW _ _ _ _ _) as [b cur]. simpl in *. destruct b; try reflexivity. congruence.
  Qed.

  Theorem run_h_no_crash db : run_h db <> Crash.
  Proof.
    unfold Stream.run_h. fold (results_h db). rewrite results_h_spec.
    destruct (steps _ _) as [[c o]|] eqn:E; [discriminate|].
    apply steps_crash in E. apply existsb_exists in E as (r & Hin & Hr).
    apply in_map_iff in Hin as (se & <- & _). rewrite entry_h_no_crash in Hr. discriminate.
  Qed.

  Theorem run_w_no_crash db : run_w db <> Crash.
  Proof.
    unfold Stream.run_w. fold (results_w db). rewrite results_w_spec.
    destruct (steps _ _) as [[c o]|] eqn:E; [discriminate|].
    apply steps_crash in E. apply existsb_exists in E as (r & Hin & Hr).
    apply in_map_iff in Hin as (se & <- & _). rewrite entry_w_no_crash in Hr. discriminate.
  Qed.

  (* ----- one entry of the whole tool, when its text is well formed: everything is read inside the entry ----- *)
  Lemma sub_at (A c R : list byte) n : sub (A ++ c ++ R) (length A) (length A + n) = firstn n (c ++ R).
  Proof. unfold sub. rewrite skipn_app_len. f_equal. lia. Qed.

  Theorem entry_w_wf A R p z pe ze t :
    prefixb delim (p ++ delim) = false -> clean_mid delim p -> clean_mid delim z -> clean_mid delim pe -> clean_mid delim ze ->
    meta_len delim p z pe ze <= window ->
    let c := p ++ delim ++ z ++ delim ++ pe ++ delim ++ ze ++ delim ++ t in
    let db := A ++ c ++ R in
    let tpos := length A + meta_len delim p z pe ze in
    fst (entry_w db (length A) (length A + length c)) =
      (match meta (mkFields p z pe ze 0%Z []) with
       | inl w => ESkip w
       | inr (path, sz, file) => EFile path (fst (blocksW db tpos (length A + length c) sz file))
       end, tpos)
    /\ sub db tpos (length A + length c) = t.
  Proof.
    intros Hs Hp Hz Hpe Hze Hw c db tpos. unfold Stream.entry_w.
    unfold db. rewrite sub_at.
    set (M := p ++ delim ++ z ++ delim ++ pe ++ delim ++ ze ++ delim).
    assert (Ec : c = M ++ t) by (unfold c, M; rewrite <- !app_assoc; reflexivity).
    assert (LM : length M = meta_len delim p z pe ze) by reflexivity.
    assert (Ew : firstn window (c ++ R) = M ++ firstn (window - length M) (t ++ R)).
    { rewrite Ec, <- app_assoc, firstn_app, firstn_all2 by lia. reflexivity. }
    rewrite Ew. unfold M. rewrite <- !app_assoc.
    rewrite (get_fields_wf delim p z pe ze _ Hs Hp Hz Hpe Hze). cbn [f_toff]. rewrite Nat2Z.id.
    split.
    - unfold Stream.meta. cbn [f_path f_pecc f_size f_secc].
      destruct (py_int _) as [sz|]; [|reflexivity].
      destruct (has_nul _); [reflexivity|]. destruct (look _) as [file|]; [|reflexivity].
      destruct (negb (sz =? zlen file)%Z && negb ignore_size); [reflexivity|].
      fold tpos. destruct (blocksW _ _ _ _ _); reflexivity.
    - unfold tpos. rewrite <- LM, Ec. unfold sub.
      replace (A ++ (M ++ t) ++ R) with ((A ++ M) ++ t ++ R) by (rewrite <- !app_assoc; reflexivity).
      replace (length A + length M) with (length (A ++ M)) by (rewrite app_length; reflexivity).
      rewrite skipn_app_len. rewrite !app_length.
      replace (length A + (length M + length t) - (length A + length M)) with (length t) by lia.
      rewrite firstn_app, firstn_all, Nat.sub_diag. simpl. apply app_nil_r.
  Qed.

  Theorem entry_h_wf p z pe ze t :
    prefixb delim (p ++ delim) = false -> clean_mid delim p -> clean_mid delim z -> clean_mid delim pe -> clean_mid delim ze ->
    entry_h (p ++ delim ++ z ++ delim ++ pe ++ delim ++ ze ++ delim ++ t) =
      match meta (mkFields p z pe ze 0%Z []) with
      | inl w => ESkip w
      | inr (path, sz, file) => EFile path (blocksH t sz file)
      end.
  Proof.
    intros Hs Hp Hz Hpe Hze. unfold Stream.entry_h.
    rewrite (get_fields_wf delim p z pe ze t Hs Hp Hz Hpe Hze). unfold Stream.meta. cbn [f_path f_pecc f_size f_secc f_track].
    reflexivity.
  Qed.
End ToolsP.

(* ================= position of the j-th entry inside the stream ================= *)
Lemma spans_decomp_aux m : forall cs A j cj, nth_error cs j = Some cj ->
  exists A' R, A ++ join m ([] :: cs) = A' ++ cj ++ R /\
               nth_error (spans m (length A + length m) cs) j = Some (length A', length A' + length cj).
Proof.
  induction cs as [|c cs IH]; intros A j cj H; [destruct j; discriminate|].
  destruct j as [|j]; simpl in H.
  - inversion H; subst. exists (A ++ m), (join m ([] :: cs)). split.
    + rewrite join_cons, app_nil_l, (join_cons_nil m cj cs), <- !app_assoc. reflexivity.
    + simpl. rewrite app_length. reflexivity.
  - destruct (IH (A ++ m ++ c) j cj H) as (A' & R & E & N). exists A', R. split.
    + rewrite <- E. rewrite join_cons, app_nil_l, (join_cons_nil m c cs), <- !app_assoc. reflexivity.
    + simpl. rewrite <- N. rewrite !app_length. f_equal. f_equal. lia.
Qed.

Lemma spans_decomp m p0 cs j cj : nth_error cs j = Some cj ->
  exists A R, join m (p0 :: cs) = A ++ cj ++ R /\
              nth_error (spans m (length p0 + length m) cs) j = Some (length A, length A + length cj).
Proof. intros H. rewrite (join_cons_nil m p0 cs). apply spans_decomp_aux. exact H. Qed.

Lemma sub_firstn (db : list byte) c s e : e <= c -> sub (firstn c db) s e = sub db s e.
Proof.
  intros H. unfold sub. rewrite skipn_firstn_comm, firstn_firstn. f_equal. lia.
Qed.

Lemma nth_error_firstn' {A} : forall (l : list A) k i, i < k -> nth_error (firstn k l) i = nth_error l i.
Proof.
  induction l as [|x l IH]; intros k i H; [destruct k, i; reflexivity|].
  destruct k; [lia|]. destruct i; [reflexivity|]. simpl. apply IH. lia.
Qed.

Lemma nth_error_Some_lt' {A} (l : list A) i x : nth_error l i = Some x -> i < length l.
Proof. intros H. apply nth_error_Some. congruence. Qed.

(* ================= C08 / C13 at the level of per-entry results ================= *)
Section Independence.
  Variables marker delim : list byte.
  Variable ignore_size : bool.
  Variable look : list byte -> option (list byte).
  Variable intra : list byte -> list byte -> list byte.
  Variable blocksH : list byte -> Z -> list byte -> bres.
  Variable window : nat.
  Variable blocksW : list byte -> nat -> nat -> Z -> list byte -> bres * nat.
  (* `inside tr sz file`: the block layout for (recorded size sz, file) never reads past the end of the track tr
     (layout agreement, C10: the track of an intact entry is consumed exactly, or the file ends first) *)
  Variable inside : list byte -> Z -> list byte -> Prop.

  Notation meta := (meta ignore_size look intra).
  Notation entry_h := (entry_h delim ignore_size look intra blocksH).
  Notation entry_w := (entry_w delim ignore_size look intra window blocksW).
  Notation results_h := (results_h marker delim ignore_size look intra blocksH).
  Notation results_w := (results_w marker delim ignore_size look intra window blocksW).

  Hypothesis marker_ne : marker <> [].
  (* the per-block stage of the whole tool depends only on the bytes of the track it is given, as long as it
     does not read beyond it *)
  Hypothesis blocksW_local : forall db1 t1 e1 db2 t2 e2 tr sz file,
    sub db1 t1 e1 = tr -> sub db2 t2 e2 = tr -> inside tr sz file ->
    fst (blocksW db1 t1 e1 sz file) = fst (blocksW db2 t2 e2 sz file).

  Definition intact_w (c : list byte) : Prop :=
    exists p z pe ze t,
      c = p ++ delim ++ z ++ delim ++ pe ++ delim ++ ze ++ delim ++ t /\
      prefixb delim (p ++ delim) = false /\ clean_mid delim p /\ clean_mid delim z /\ clean_mid delim pe /\ clean_mid delim ze /\
      meta_len delim p z pe ze <= window /\
      (forall path sz file, meta (mkFields p z pe ze 0%Z []) = inr (path, sz, file) -> inside t sz file).

  Lemma entry_w_local A R A' R' c : intact_w c ->
    fst (fst (entry_w (A ++ c ++ R) (length A) (length A + length c))) =
    fst (fst (entry_w (A' ++ c ++ R') (length A') (length A' + length c))).
  Proof.
    intros (p & z & pe & ze & t & -> & Hs & Hp & Hz & Hpe & Hze & Hw & Hin).
    destruct (entry_w_wf delim ignore_size look intra window blocksW A R p z pe ze t Hs Hp Hz Hpe Hze Hw) as [E1 T1].
    destruct (entry_w_wf delim ignore_size look intra window blocksW A' R' p z pe ze t Hs Hp Hz Hpe Hze Hw) as [E2 T2].
    rewrite E1, E2. simpl.
    destruct (meta (mkFields p z pe ze 0%Z [])) as [w|[[path sz] file]] eqn:M; [reflexivity|].
    f_equal. eapply blocksW_local; [exact T1|exact T2|]. apply (Hin path sz file eq_refl).
  Qed.

  Section Victim.
    Variables (p0 : list byte) (cs1 : list (list byte)) (c g : list byte) (cs2 : list (list byte)).
    Hypothesis clean : clean_pieces marker (p0 :: cs1 ++ c :: cs2).
    Hypothesis g_last : cs2 = [] -> clean_last marker g.
    Hypothesis g_mid : cs2 <> [] -> clean_mid marker g.
    Let db := join marker (p0 :: cs1 ++ c :: cs2).
    Let db' := join marker (p0 :: cs1 ++ g :: cs2).

    Lemma clean' : clean_pieces marker (p0 :: cs1 ++ g :: cs2).
    Proof. change (p0 :: cs1 ++ g :: cs2) with ((p0 :: cs1) ++ g :: cs2). apply (clean_pieces_app_mid marker (p0 :: cs1) c g cs2); assumption. Qed.

    Theorem independent_h :
      results_h db = map entry_h cs1 ++ entry_h c :: map entry_h cs2 /\
      results_h db' = map entry_h cs1 ++ entry_h g :: map entry_h cs2.
    Proof.
      destruct (scan_local_content marker p0 cs1 c g cs2 marker_ne clean g_last g_mid) as (_ & _ & C1 & C2).
      fold db in C1. fold db' in C2.
      rewrite !results_h_spec.
      rewrite <- (map_map (fun se => sub db (fst se) (snd se)) entry_h), C1.
      rewrite <- (map_map (fun se => sub db' (fst se) (snd se)) entry_h), C2.
      rewrite !map_app. split; reflexivity.
    Qed.

    Theorem independent_w j cj :
      nth_error (cs1 ++ c :: cs2) j = Some cj -> j <> length cs1 -> intact_w cj ->
      length (results_w db') = length (results_w db) /\
      exists r, nth_error (results_w db) j = Some r /\ nth_error (results_w db') j = Some r.
    Proof.
      intros Hj Hne Hin.
      assert (Hj' : nth_error (cs1 ++ g :: cs2) j = Some cj).
      { destruct (Nat.lt_ge_cases j (length cs1)) as [L|L].
        - rewrite nth_error_app1 in * by exact L. exact Hj.
        - rewrite nth_error_app2 in * by exact L.
          destruct (j - length cs1) as [|k] eqn:K; [lia|]. exact Hj. }
      rewrite !results_w_spec.
      unfold db, db'. rewrite (scan_join marker p0 _ marker_ne clean), (scan_join marker p0 _ marker_ne clean').
      split; [rewrite !map_length, !spans_length, !app_length; reflexivity|].
      destruct (spans_decomp marker p0 _ j cj Hj) as (A & R & E & N).
      destruct (spans_decomp marker p0 _ j cj Hj') as (A' & R' & E' & N').
      rewrite !nth_error_map, N, N'. cbn [option_map fst snd]. rewrite E, E'.
      eexists. split; [reflexivity|]. f_equal. apply entry_w_local. exact Hin.
    Qed.
  End Victim.

  (* ----- C13: entries that lie wholly before the cut ----- *)
  Theorem prefix_h db c : c <= length db ->
    exists k tail, results_h (firstn c db) = firstn k (results_h db) ++ tail /\ length tail <= 1 /\
      (forall i s e, nth_error (entries_spec marker db) i = Some (s, e) -> e + length marker <= c -> i < k).
  Proof.
    intros Hc. destruct (scan_prefix marker db c marker_ne Hc) as (k & last & E & Hk & Hl & Hcomp & Hsound).
    exists k, (map (fun se => entry_h (sub (firstn c db) (fst se) (snd se))) last).
    rewrite !results_h_spec, E, map_app.
    split; [|split; [|exact Hcomp]].
    - f_equal. rewrite firstn_map.
      apply map_ext_in. intros [s e] Hin. simpl.
      apply In_nth_error in Hin as [i Hi].
      assert (Hik : i < k).
      { apply nth_error_Some_lt' in Hi. rewrite firstn_length in Hi. lia. }
      assert (Hi' : nth_error (entries_spec marker db) i = Some (s, e)).
      { rewrite <- Hi. symmetry. apply nth_error_firstn'. exact Hik. }
      specialize (Hsound i s e Hi' Hik). rewrite sub_firstn by lia. reflexivity.
    - rewrite map_length. destruct Hl as [->|(s & e & _ & -> & _)]; simpl; lia.
  Qed.

  Theorem prefix_w db c i s e : c <= length db ->
    nth_error (entries_spec marker db) i = Some (s, e) -> e + length marker <= c -> intact_w (sub db s e) ->
    exists r, nth_error (results_w db) i = Some r /\ nth_error (results_w (firstn c db)) i = Some r.
  Proof.
    intros Hc Hi Hle Hin.
    destruct (scan_prefix marker db c marker_ne Hc) as (k & last & E & Hk & Hl & Hcomp & Hsound).
    pose proof (Hcomp i s e Hi Hle) as Hik.
    rewrite !results_w_spec, E, !nth_error_map.
    rewrite nth_error_app1 by (rewrite firstn_length; apply nth_error_Some_lt' in Hi; lia).
    rewrite nth_error_firstn' by exact Hik. rewrite Hi. cbn [option_map fst snd].
    eexists. split; [reflexivity|]. f_equal.
    (* db = A ++ cj ++ R with |A| = s *)
    destruct (decompose marker db marker_ne) as (p0 & cs & Hdb & Hcl).
    assert (HE : entries_spec marker db = spans marker (length p0 + length marker) cs) by (rewrite Hdb; apply scan_join; assumption).
    rewrite HE in Hi. destruct (spans_nth _ _ _ _ _ _ Hi) as (cj & Hcj & _ & _).
    destruct (spans_decomp marker p0 cs i cj Hcj) as (A & R & EA & N).
    rewrite N in Hi. inversion Hi; subst s e. clear Hi.
    assert (Edb : db = A ++ cj ++ R) by (rewrite Hdb; exact EA).
    assert (Esub : sub db (length A) (length A + length cj) = cj) by (rewrite Edb; apply sub_app_mid).
    rewrite Esub in Hin.
    assert (Ecut : firstn c db = A ++ cj ++ firstn (c - (length A + length cj)) R).
    { rewrite Edb. rewrite firstn_app, firstn_all2 by lia. f_equal.
      rewrite firstn_app, firstn_all2 by lia. f_equal. f_equal. lia. }
    rewrite Ecut. rewrite Edb. apply entry_w_local. exact Hin.
  Qed.
End Independence.

(* ================= C03: the run on an undamaged tree ================= *)
Lemma generate_join m g (T : list (list byte * list byte)) : forall pre,
  pre ++ concat (map (fun f => m ++ g f) T) = join m (pre :: map g T).
Proof.
  induction T as [|f T IH]; intros pre.
  - simpl. apply app_nil_r.
  - cbn [map concat]. change (join m (pre :: g f :: map g T)) with (pre ++ m ++ join m (g f :: map g T)).
    rewrite <- (IH (g f)). rewrite <- !app_assoc. reflexivity.
Qed.

Section Clean.
  Variables marker delim : list byte.
  Variable ignore_size : bool.
  Variable look : list byte -> option (list byte).
  Variable intra : list byte -> list byte -> list byte.
  Variable blocksH : list byte -> Z -> list byte -> bres.
  Variable window : nat.
  Variable blocksW : list byte -> nat -> nat -> Z -> list byte -> bres * nat.
  Variable enc : list byte -> list byte.
  Variable track : list byte -> list byte.
  Variable preamble : list byte.
  Variable T : list (list byte * list byte).          (* protected files: relative path bytes, content *)

  Notation gen_entry := (gen_entry delim enc track).
  Notation db := (generate marker delim enc track preamble T).
  Definition size_of (f : list byte * list byte) : list byte := dec (N.of_nat (length (snd f))).

  Hypothesis marker_ne : marker <> [].
  (* the format is unambiguous on this tree (decidable; checked on every generated case) *)
  Hypothesis unambiguous_markers : clean_pieces marker (preamble :: map gen_entry T).
  Hypothesis unambiguous_fields : forall f, In f T ->
    prefixb delim (fst f ++ delim) = false /\ clean_mid delim (fst f) /\ clean_mid delim (size_of f) /\
    clean_mid delim (enc (fst f)) /\ clean_mid delim (enc (size_of f)).
  (* C09: intra-ecc correction of an undamaged field with its own parity is the identity *)
  Hypothesis intra_roundtrip : forall f, In f T ->
    intra (fst f) (enc (fst f)) = fst f /\ intra (size_of f) (enc (size_of f)) = size_of f.
  (* int(str(n)) = n for the sizes of the tree (computation; Example below and correspondence) *)
  Hypothesis int_roundtrip : forall f, In f T -> py_int (size_of f) = Some (zlen (snd f)).
  (* file names contain no NUL; the files are present, unchanged, under the root given to -i *)
  Hypothesis names_ok : forall f, In f T -> has_nul (fst f) = false.
  Hypothesis tree_present : forall f, In f T -> look (fst f) = Some (snd f).
  (* Pipeline (C04/C10): every block of an unchanged file matches its stored hash, the track is consumed exactly *)
  Hypothesis blocksH_clean : forall f, In f T -> blocksH (track (snd f)) (zlen (snd f)) (snd f) = BClean.
  Hypothesis blocksW_clean : forall f d t e, In f T -> sub d t e = track (snd f) ->
    fst (blocksW d t e (zlen (snd f)) (snd f)) = BClean.
  Hypothesis meta_fits : forall f, In f T -> meta_len delim (fst f) (size_of f) (enc (fst f)) (enc (size_of f)) <= window.

  Lemma meta_clean f : In f T ->
    meta ignore_size look intra (mkFields (fst f) (size_of f) (enc (fst f)) (enc (size_of f)) 0%Z []) =
      inr (fst f, zlen (snd f), snd f).
  Proof.
    intros H. unfold meta. cbn [f_path f_pecc f_size f_secc].
    destruct (intra_roundtrip f H) as [-> ->]. rewrite (int_roundtrip f H), (names_ok f H), (tree_present f H).
    rewrite Z.eqb_refl. reflexivity.
  Qed.

  Lemma entry_h_clean f : In f T ->
    entry_h delim ignore_size look intra blocksH (gen_entry f) = EFile (fst f) BClean.
  Proof.
    intros H. destruct (unambiguous_fields f H) as (Hs & Hp & Hz & Hpe & Hze).
    unfold Stream.gen_entry. fold (size_of f).
    rewrite (entry_h_wf delim ignore_size look intra blocksH _ _ _ _ _ Hs Hp Hz Hpe Hze).
    rewrite (meta_clean f H), (blocksH_clean f H). reflexivity.
  Qed.

  Definition clean_outcome : outcome := Done (mkC (length T) 0 0 0 0) [] 0.

  Theorem clean_h : run_h marker delim ignore_size look intra blocksH db = clean_outcome.
  Proof.
    unfold run_h. fold (results_h marker delim ignore_size look intra blocksH db).
    rewrite results_h_spec. unfold generate. rewrite generate_join.
    rewrite (scan_join marker preamble _ marker_ne unambiguous_markers).
    rewrite <- (map_map (fun se => sub (join marker (preamble :: map gen_entry T)) (fst se) (snd se))).
    rewrite spans_contents, map_map.
    rewrite (steps_clean _ c0 []).
    - unfold finish, clean_outcome. rewrite map_length. simpl. rewrite Nat.add_0_r. reflexivity.
    - intros r Hr. apply in_map_iff in Hr as (f & <- & Hf). exists (fst f). apply entry_h_clean. exact Hf.
  Qed.

  Theorem clean_w : run_w marker delim ignore_size look intra window blocksW db = clean_outcome.
  Proof.
    unfold run_w. fold (results_w marker delim ignore_size look intra window blocksW db).
    rewrite results_w_spec. unfold generate. rewrite generate_join.
    rewrite (scan_join marker preamble _ marker_ne unambiguous_markers).
    set (D := join marker (preamble :: map gen_entry T)).
    assert (R : forall se, In se (spans marker (length preamble + length marker) (map gen_entry T)) ->
                exists p, fst (fst (entry_w delim ignore_size look intra window blocksW D (fst se) (snd se))) = EFile p BClean).
    { intros [s e] Hin. apply In_nth_error in Hin as [j Hj].
      destruct (spans_nth _ _ _ _ _ _ Hj) as (cj & Hcj & _ & _).
      destruct (spans_decomp marker preamble _ j cj Hcj) as (A & Rr & E & N).
      rewrite N in Hj. inversion Hj; subst s e. cbn [fst snd]. fold D in E. rewrite E.
      apply nth_error_In in Hcj. apply in_map_iff in Hcj as (f & <- & Hf).
      destruct (unambiguous_fields f Hf) as (Hs & Hp & Hz & Hpe & Hze).
      unfold Stream.gen_entry. fold (size_of f).
      destruct (entry_w_wf delim ignore_size look intra window blocksW A Rr _ _ _ _ (track (snd f)) Hs Hp Hz Hpe Hze (meta_fits f Hf)) as [E1 T1].
      rewrite E1. cbn [fst]. rewrite (meta_clean f Hf). rewrite (blocksW_clean f _ _ _ Hf T1). exists (fst f). reflexivity. }
    rewrite (steps_clean _ c0 []).
    - unfold finish, clean_outcome. rewrite !map_length, spans_length, map_length. simpl. rewrite Nat.add_0_r. reflexivity.
    - intros r Hr. apply in_map_iff in Hr as (se & <- & Hse). apply R. exact Hse.
  Qed.
End Clean.

(* ================= what a run writes ================= *)
Lemma out_remove_in p q b o : In (q, b) (out_remove p o) -> In (q, b) o.
Proof. unfold out_remove. intros H. apply filter_In in H. tauto. Qed.

Lemma steps_outputs : forall rs c o c' o', steps (c, o) rs = Some (c', o') ->
  forall p b, In (p, b) o' -> In (p, b) o \/ exists st, In (EFile p (BCorrupt st (Some b))) rs.
Proof.
  induction rs as [|r rs IH]; intros c o c' o' H p b Hin; cbn [steps] in H.
  - inversion H; subst. left; exact Hin.
  - destruct (step (c, o) r) as [[c1 o1]|] eqn:E; [|discriminate H].
    destruct (IH _ _ _ _ H p b Hin) as [H1|[st H1]]; [|right; exists st; right; exact H1].
    destruct r as [w|q [|st [out|]|]]; simpl in E; inversion E; subst; try (left; exact H1).
    + destruct H1 as [H1|H1].
      * inversion H1; subst. right. exists st. left. reflexivity.
      * left. eapply out_remove_in. exact H1.
    + left. eapply out_remove_in. exact H1.
Qed.

Section Writes.
  Variables marker delim : list byte.
  Variable ignore_size : bool.
  Variable look : list byte -> option (list byte).
  Variable intra : list byte -> list byte -> list byte.
  Variable blocksH : list byte -> Z -> list byte -> bres.
  Variable window : nat.
  Variable blocksW : list byte -> nat -> nat -> Z -> list byte -> bres * nat.

  Lemma meta_file f path sz file : meta ignore_size look intra f = inr (path, sz, file) ->
    look path = Some file /\ has_nul path = false.
  Proof.
    unfold meta. destruct (py_int _); [|discriminate]. destruct (has_nul _) eqn:N; [discriminate|].
    destruct (look _) eqn:L; [|discriminate]. destruct (_ && _); [discriminate|].
    intros H. inversion H; subst. split; [exact L|exact N].
  Qed.

  Lemma entry_h_file text p b : entry_h delim ignore_size look intra blocksH text = EFile p b -> exists file, look p = Some file.
  Proof.
    unfold entry_h. destruct (meta _ _ _ _) as [w|[[path sz] file]] eqn:M; [discriminate|].
    intros H. inversion H; subst. exists file. apply (meta_file _ _ _ _ M).
  Qed.

  Lemma entry_w_file db s e p b : fst (fst (entry_w delim ignore_size look intra window blocksW db s e)) = EFile p b ->
    exists file, look p = Some file.
  Proof.
    unfold entry_w. destruct (meta _ _ _ _) as [w|[[path sz] file]] eqn:M; [discriminate|].
    destruct (blocksW _ _ _ _ _). simpl. intros H. inversion H; subst. exists file. apply (meta_file _ _ _ _ M).
  Qed.

  (* everything left in the output folder sits at the relative path of an existing input file; the model has no
     other store: the input tree `look` is only ever read *)
  Theorem writes_h db c outs ex p b :
    run_h marker delim ignore_size look intra blocksH db = Done c outs ex -> In (p, b) outs -> exists file, look p = Some file.
  Proof.
    unfold run_h, finish. destruct (steps _ _) as [[c' o']|] eqn:E; [|discriminate].
    intros H Hin. inversion H; subst.
    destruct (steps_outputs _ _ _ _ _ E p b Hin) as [[]|[st H1]].
    fold (results_h marker delim ignore_size look intra blocksH db) in H1. rewrite results_h_spec in H1.
    apply in_map_iff in H1 as (se & H1 & _). eapply entry_h_file. exact H1.
  Qed.

  Theorem writes_w db c outs ex p b :
    run_w marker delim ignore_size look intra window blocksW db = Done c outs ex -> In (p, b) outs -> exists file, look p = Some file.
  Proof.
    unfold run_w, finish. destruct (steps _ _) as [[c' o']|] eqn:E; [|discriminate].
    intros H Hin. inversion H; subst.
    destruct (steps_outputs _ _ _ _ _ E p b Hin) as [[]|[st H1]].
    fold (results_w marker delim ignore_size look intra window blocksW db) in H1. rewrite results_w_spec in H1.
    apply in_map_iff in H1 as (se & H1 & _). eapply entry_w_file. exact H1.
  Qed.
End Writes.
