(* CodecInst.v — the abstract codec hypotheses of the entry (C09), index (C15) and pipeline (C01) models,
   discharged for the real codecs from the Reed-Solomon algebra: for every codec the facade selects
   (codec_of algo), every geometry n <= 255 and every k, with enc := fac_encode and chk := fac_check,
   the hypotheses enc_len, chk_enc, chk_detect (detection of 1..n-k wrong symbols), code_dist (minimum
   distance > n-k) and the uniqueness of within-capacity decoding are THEOREMS.  Only decoder completeness
   (dec_complete) remains a hypothesis: the decoders are third-party code. *)
From Coq Require Import List Arith Bool NArith Lia.
From Coq Require Import Strings.Byte.
From PFF Require Import Bytes GF256 RS Facade Proofs.GF256P Proofs.RSP Proofs.FacadeP.
From PFF Require Entry Index Pipeline Proofs.EntryP Proofs.IndexP Proofs.PipelineP.
Import ListNotations.

Notation hd := (RS.hdist byte byte_eqb).

Lemma entry_hamming a : forall b, Entry.hamming a b = hd a b.
Proof.
  unfold RS.hdist. induction a as [|x a IH]; intros [|y b]; cbn [Entry.hamming combine filter fst snd length]; try reflexivity.
  rewrite IH. destruct (byte_eqb x y); reflexivity.
Qed.
Lemma index_hamming a : forall b, Index.hamming a b = hd a b.
Proof.
  unfold RS.hdist. induction a as [|x a IH]; intros [|y b]; cbn [Index.hamming combine filter fst snd length]; try reflexivity.
  rewrite IH. destruct (byte_eqb x y); reflexivity.
Qed.
Lemma hd_app : forall a a' b b', length a = length a' -> hd (a ++ b) (a' ++ b') = hd a a' + hd b b'.
Proof.
  unfold RS.hdist. induction a as [|x a IH]; intros [|y a'] b b' L; try discriminate; [reflexivity|].
  cbn [app combine filter fst snd]. cbn [length] in L. destruct (negb (byte_eqb x y)); cbn [length]; rewrite IH by lia; reflexivity.
Qed.
Lemma hd_same_prefix z a b : hd (z ++ a) (z ++ b) = hd a b.
Proof.
  rewrite hd_app by reflexivity. unfold RS.hdist at 1.
  assert (H : forall l : list byte, length (filter (fun p => negb (byte_eqb (fst p) (snd p))) (combine l l)) = 0).
  { induction l as [|x l IH]; cbn [combine filter fst snd]; [reflexivity|]. destruct (byte_eqb_spec x x); [exact IH|contradiction]. }
  rewrite H. reflexivity.
Qed.

Section Inst.
  Variable algo : N.
  Variables n k : nat.
  Hypothesis n255 : n <= 255.
  Hypothesis kn : k <= n.
  Let c := codec_of algo.
  Let OK := codec_field algo.
  Let es := n - k.
  (* a codec built with k, default per-call k *)
  Definition ienc (m : list byte) : list byte := fac_encode c n k 0 m.
  Definition ichk (m p : list byte) : bool := fac_check c n k 0 m p.

  Lemma ienc_len m : length (ienc m) = es.
  Proof. exact (fac_encode_length c OK n k 0 m). Qed.
  Lemma ichk_enc m : ichk m (ienc m) = true.
  Proof. exact (fac_check_encode c OK n k 0 m). Qed.

  Lemma received_full m p : length m <= k -> length p = es ->
    received n k m p = repeat x00 (k - length m) ++ m ++ p.
  Proof.
    intros Lm Lp. unfold received, lpad, rpad. replace (n - k - length p) with 0 by (unfold es in Lp; lia).
    cbn [repeat]. rewrite app_nil_r, <- app_assoc. reflexivity.
  Qed.

  (* detection in the shape the entry model asks for *)
  Lemma ichk_detect m m' c' : length m <= k -> length m' = length m -> length c' = es ->
    0 < hd m' m + hd c' (ienc m) <= es -> ichk m' c' = false.
  Proof.
    intros Lm Lm' Lc' Hd.
    destruct (fac_detect c OK n k 0 m m' c' n255) as [D _]; cbn [eff_k Nat.eqb]; try assumption; try (unfold es in Lc'; lia).
    cbn [eff_k Nat.eqb] in D. apply D.
    rewrite (received_full m' c') by (try lia; exact Lc').
    rewrite (received_full m (fac_encode c n k 0 m)) by (try lia; apply ienc_len).
    rewrite Lm', hd_same_prefix, hd_app by exact Lm'. fold (ienc m). unfold es in Hd. lia.
  Qed.

  (* two words of the right shape that both pass the check and differ in at most n-k places are equal *)
  Lemma icode_dist m1 p1 m2 p2 : length m1 <= k -> length m2 = length m1 -> length p1 = es -> length p2 = es ->
    ichk m1 p1 = true -> ichk m2 p2 = true -> hd (m1 ++ p1) (m2 ++ p2) <= es -> m1 = m2 /\ p1 = p2.
  Proof.
    intros L1 L2 Lp1 Lp2 H1 H2 Hd. unfold ichk, fac_check in H1, H2. cbn [eff_k Nat.eqb] in H1, H2.
    fold (received n k m1 p1) in H1. fold (received n k m2 p2) in H2.
    rewrite (received_full m1 p1) in H1 by assumption. rewrite (received_full m2 p2) in H2 by (try lia; assumption).
    assert (E : repeat x00 (k - length m1) ++ m1 ++ p1 = repeat x00 (k - length m2) ++ m2 ++ p2).
    { unfold ccheck in H1, H2.
      apply (code_distance byte x00 x01 badd (bmul (cd_f c)) byte_eqb (gf_alpha (cd_f c))
               (fo_ring _ OK) (fo_integral _ OK) byte_eqb_spec (fo_order _ OK) (fo_inj _ OK) (fo_nz _ OK) (n - k) (cd_fcr c)).
      - rewrite !app_length, !repeat_length. lia.
      - rewrite !app_length, repeat_length. unfold es in Lp1. lia.
      - exact H1.
      - exact H2.
      - rewrite L2, hd_same_prefix. exact Hd. }
    rewrite L2 in E. apply app_inv_head in E.
    assert (Ha : forall (a b p q : list byte), length a = length b -> a ++ p = b ++ q -> a = b /\ p = q).
    { induction a as [|x a IH]; intros [|y b] p q L Eq; try discriminate; [split; [reflexivity|exact Eq]|].
      cbn [app] in Eq. injection Eq as Ex Eq. cbn [length] in L. destruct (IH b p q ltac:(lia) Eq) as [A B]. split; [f_equal; assumption|exact B]. }
    apply Ha; [lia|exact E].
  Qed.
End Inst.

(* ---------------- C09: the entry metadata model on the real codecs ---------------- *)
Section EntryInst.
  Variable algo : N.
  Variables k es : nat.
  Hypothesis k_pos : 1 <= k.
  Hypothesis n255 : k + es <= 255.
  Notation enc := (ienc algo (k + es) k).
  Notation chk := (ichk algo (k + es) k).

  Lemma entry_enc_len : forall m, length m <= k -> length (enc m) = es.
  Proof. intros m _. rewrite ienc_len. lia. Qed.
  Lemma entry_chk_enc : forall m, length m <= k -> chk m (enc m) = true.
  Proof. intros m _. apply ichk_enc. Qed.
  Lemma entry_chk_detect : forall m m' c', length m <= k -> length m' = length m -> length c' = es ->
    0 < Entry.hamming m' m + Entry.hamming c' (enc m) <= es -> chk m' c' = false.
  Proof.
    intros m m' c' H1 H2 H3 H4. rewrite !entry_hamming in H4.
    apply (ichk_detect algo (k + es) k n255 ltac:(lia) m m' c'); try assumption; try lia.
  Qed.
End EntryInst.

(* ---------------- C15: the (27,9) index code ---------------- *)
Section IndexInst.
  Variable algo : N.
  Notation enc := (ienc algo 27 9).
  Notation chk := (ichk algo 27 9).
  Lemma index_chk_enc : IndexP.chk_enc_hyp enc chk.
  Proof. intros m _. apply ichk_enc. Qed.
  Lemma index_enc_len : IndexP.enc_len_hyp enc.
  Proof. intros m _. rewrite ienc_len. reflexivity. Qed.
  Lemma index_code_dist : IndexP.code_dist_hyp chk.
  Proof.
    intros m1 p1 m2 p2 L1 Lp1 L2 Lp2 H1 H2 Hd. rewrite index_hamming in Hd. unfold Index.msz, Index.esz in *.
    destruct (icode_dist algo 27 9 ltac:(lia) ltac:(lia) m1 p1 m2 p2) as [A B]; try assumption; try lia.
    rewrite A, B. reflexivity.
  Qed.
End IndexInst.

(* ---------------- C01: the per-block pipeline on the real codecs ---------------- *)
Section PipeInst.
  Variable algo : N.
  Variable mb : nat.
  Hypothesis mb255 : mb <= 255.
  Let c := codec_of algo.
  Let OK := codec_field algo.
  (* per-call geometry k (ECCMan(mb, .).encode(mes, k=k)); opts = the erasure symbol, if erasure handling is on *)
  Definition penc (k : nat) (m : list byte) : list byte := fac_encode c mb k 0 m.
  Definition pchk (k : nat) (m p : list byte) : bool := fac_check c mb k 0 m p.
  Definition pwf (k : nat) (m : list byte) : Prop := k <= mb /\ length m <= k.
  (* the candidate cw explains the received (m, p) within the errors-and-erasures radius 2e + f <= mb - k,
     f = every position of m ++ p holding the erasure symbol (none when erasure handling is off) *)
  Definition pcap (k : nat) (o : option byte) (r cw : list byte * list byte) : Prop :=
    length (fst cw) = length (fst r) /\ length (snd cw) = mb - k /\ length (snd r) <= mb - k /\
    RS.within byte byte_eqb (mb - k) (erasure_set k o (fst r) (snd r))
              (received mb k (fst r) (snd r)) (received mb k (fst cw) (snd cw)) = true.

  Lemma pipe_enc_len : forall k m, length (penc k m) = mb - k.
  Proof. intros k m. exact (fac_encode_length c OK mb k 0 m). Qed.
  Lemma pipe_chk_enc : PipelineP.chk_enc_hyp pchk penc pwf.
  Proof. intros k m _. exact (fac_check_encode c OK mb k 0 m). Qed.
  Lemma pipe_code_dist (o : option byte) : PipelineP.code_dist_hyp (option byte) pchk penc o pcap pwf.
  Proof.
    intros k [m p] m0 [m' e'] [Hk Lm0] (A1 & A2 & A3 & A4) (B1 & B2 & B3 & B4) Hc. cbn [fst snd] in *.
    destruct (fac_decode_unique c OK mb k 0 o m p m0 m' e') as [E1 E2]; cbn [eff_k Nat.eqb]; try assumption; try lia.
    - unfold decodes_to. cbn [eff_k Nat.eqb]. rewrite B1, B2, !Nat.eqb_refl. cbn [andb].
      unfold pchk in Hc. rewrite Hc. cbn [andb]. exact B4.
    - rewrite E1, E2. reflexivity.
  Qed.
End PipeInst.
