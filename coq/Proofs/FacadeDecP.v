(* FacadeDecP.v — whatever the third-party decoder of codecs 1/2 answers, what ECCMan.decode lets through lies within
   the errors-and-erasures radius of the received word (dec_bounded for codecs 1 and 2 is a THEOREM about the facade,
   not a hypothesis about the decoder). *)
From Coq Require Import List Arith Bool NArith Lia FinFun.
From Coq Require Import Strings.Byte.
From PFF Require Import Bytes GF256 RS Facade FacadeDec.
Import ListNotations.

Notation errs := (RS.errs byte byte_eqb).
Notation errs_from := (RS.errs_from byte byte_eqb).

Lemma distinct_le E : distinct E <= length E.
Proof.
  unfold distinct. induction E as [|x E IH]; cbn [nodup length]; [lia|].
  destruct (in_dec Nat.eq_dec x E); cbn [length]; lia.
Qed.
Lemma nodup_distinct E : NoDup E -> distinct E = length E.
Proof. intro H. unfold distinct. rewrite nodup_fixed_point by exact H. reflexivity. Qed.

(* replacing a prefix of the candidate by the received prefix itself cannot add errors *)
Lemma errs_from_prefix : forall z (r1 c1 : list byte) i E r2 c2, length r1 = z -> length c1 = z ->
  errs_from i E (r1 ++ r2) (r1 ++ c2) <= errs_from i E (r1 ++ r2) (c1 ++ c2).
Proof.
  induction z as [|z IH]; intros r1 c1 i E r2 c2 L1 L2.
  - destruct r1; [|discriminate]. destruct c1; [|discriminate]. cbn [app]. lia.
  - destruct r1 as [|x r1]; [discriminate|]. destruct c1 as [|y c1]; [discriminate|].
    cbn [app RS.errs_from]. cbn [length] in L1, L2.
    specialize (IH r1 c1 (S i) E r2 c2 ltac:(lia) ltac:(lia)).
    destruct (byte_eqb_spec x x) as [_|N]; [|contradiction]. cbn [negb andb].
    destruct (negb (byte_eqb x y) && negb (existsb (Nat.eqb i) E)); lia.
Qed.

Section Bounded.
  Variable inner : list byte -> list nat -> option (list byte * list byte).
  Variables n selfk k : nat.
  Variable er : option byte.
  Let k' := eff_k selfk k.

  (* the decoder answers with a message of k symbols (nostrip=True) and at most n-k parity symbols *)
  Hypothesis inner_len : forall r E mr er_, inner r E = Some (mr, er_) -> length mr = k' /\ length er_ <= n - k'.

  Lemma positions_from_nodup ch : forall w i, NoDup (positions_from i ch w).
  Proof.
    induction w as [|x w IH]; intro i; cbn [positions_from]; [constructor|].
    destruct (byte_eqb x ch); [|apply IH]. constructor; [|apply IH].
    intro H. assert (G : forall w j y, In y (positions_from j ch w) -> j <= y).
    { clear. induction w as [|x w IH]; intros j y H; cbn [positions_from] in H; [destruct H|].
      destruct (byte_eqb x ch); [destruct H as [<-|H]; [lia|]|]; apply IH in H; lia. }
    apply G in H. lia.
  Qed.
  Lemma erasure_set_nodup m e : NoDup (erasure_set k' er m e).
  Proof.
    unfold erasure_set. destruct er as [ch|]; [|constructor]. unfold fac_erasures.
    apply Injective_map_NoDup; [intros a b H; lia|apply positions_from_nodup].
  Qed.

  Theorem fac_decode12_bounded m e m' e' : length m <= k' -> length e <= n - k' ->
    fac_decode12 inner n selfk k er m e = Some (m', e') ->
    length m' = length m /\ length e' = n - k' /\
    RS.within byte byte_eqb (n - k') (erasure_set k' er m e) (received n k' m e) (received n k' m' e') = true.
  Proof.
    intros Lm Le H. unfold fac_decode12 in H. fold k' in H.
    destruct (inner (received n k' m e) (erasure_set k' er m e)) as [[mr er_]|] eqn:I; [|discriminate].
    destruct (inner_len _ _ _ _ I) as [Lmr Ler].
    destruct (Nat.ltb_spec (n - k') (2 * errs (erasure_set k' er m e) (received n k' m e) (rjust k' mr ++ rjust (n - k') er_)
                                     + distinct (erasure_set k' er m e))) as [Hgt|Hle]; [discriminate|].
    injection H as <- <-.
    assert (Lm' : length (skipn (k' - length m) mr) = length m) by (rewrite skipn_length; lia).
    assert (Le' : length (rjust (n - k') er_) = n - k') by (unfold rjust; rewrite app_length, repeat_length; lia).
    split; [exact Lm'|]. split; [exact Le'|].
    unfold RS.within. apply andb_true_intro. split.
    - apply Nat.eqb_eq. unfold received, lpad, rpad. rewrite !app_length, !repeat_length, Lm', Le'. lia.
    - apply Nat.leb_le. rewrite nodup_distinct in Hle by apply erasure_set_nodup.
      assert (Hc : errs (erasure_set k' er m e) (received n k' m e) (received n k' (skipn (k' - length m) mr) (rjust (n - k') er_))
                   <= errs (erasure_set k' er m e) (received n k' m e) (rjust k' mr ++ rjust (n - k') er_)).
      { unfold rjust at 2. rewrite Lmr, Nat.sub_diag. cbn [repeat app].
        unfold received, lpad. rewrite Lm'. unfold rpad at 2. rewrite Le', Nat.sub_diag. cbn [repeat]. rewrite app_nil_r.
        rewrite <- (firstn_skipn (k' - length m) mr) at 2. rewrite <- !app_assoc.
        unfold RS.errs. apply (errs_from_prefix (k' - length m)); [apply repeat_length|rewrite firstn_length; lia]. }
      lia.
  Qed.
End Bounded.
