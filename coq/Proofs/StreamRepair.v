(* C01 at tool level, Stream side: a run over a tree whose files are each either unchanged or repaired completely by the
   per-block stage.  Every protected file is processed, the corrupted ones are all counted "repaired completely", nothing
   is skipped, the exit status is 0, and the output folder holds exactly the repaired files.  The ecc file is pristine
   here (damage to stored parity / hashes is covered at block and file level by Proofs/PipelineP.v). *)
From Coq Require Import List Arith Bool ZArith NArith Lia Sorting.Permutation.
From Coq Require Import Strings.Byte.
From PFF Require Import Bytes Stream Proofs.StreamP.
Import ListNotations.

Lemma bytes_eqb_true a b : bytes_eqb a b = true -> a = b.
Proof.
  unfold bytes_eqb. intros H. apply andb_true_iff in H. destruct H as [L P]. apply Nat.eqb_eq in L.
  destruct (prefixb_true _ _ P) as [r ->]. rewrite app_length in L.
  assert (r = []) by (destruct r; [reflexivity|simpl in L; lia]). subst r. symmetry. apply app_nil_r.
Qed.

Lemma out_remove_absent p (o : outdir) : ~ In p (map fst o) -> out_remove p o = o.
Proof.
  unfold out_remove. induction o as [|[q b] o IH]; intros N; [reflexivity|]. cbn [filter fst].
  destruct (bytes_eqb q p) eqn:E.
  - exfalso. apply N. left. exact (bytes_eqb_true _ _ E).
  - cbn [negb]. f_equal. apply IH. intros H. apply N. right. exact H.
Qed.

(* the files a run leaves in the output folder, in the order written (latest first) *)
Fixpoint outs_of (rs : list eres) : outdir :=
  match rs with
  | [] => []
  | EFile p (BCorrupt _ (Some b)) :: t => outs_of t ++ [(p, b)]
  | _ :: t => outs_of t
  end.
Fixpoint n_full_of (rs : list eres) : nat :=
  match rs with
  | [] => 0
  | EFile _ (BCorrupt _ _) :: t => S (n_full_of t)
  | _ :: t => n_full_of t
  end.
Definition path_of (r : eres) : list (list byte) := match r with EFile p _ => [p] | ESkip _ => [] end.

Definition good (r : eres) : Prop := exists p, r = EFile p BClean \/ exists b, r = EFile p (BCorrupt RFull (Some b)).

Lemma steps_full : forall rs c o,
  Forall good rs -> NoDup (concat (map path_of rs) ++ map fst o) ->
  steps (c, o) rs =
    Some (mkC (length rs + n_proc c) (n_full_of rs + n_corr c) (n_full_of rs + n_full c) (n_part c) (n_skip c), outs_of rs ++ o).
Proof.
  induction rs as [|r rs IH]; intros c o G N.
  - destruct c; reflexivity.
  - inversion G as [|? ? Gr Grs]; subst. destruct Gr as [p [->|[b ->]]]; cbn [steps step path_of map concat app] in *.
    + inversion N as [|? ? _ N']; subst. rewrite (IH _ _ Grs N'). cbn. f_equal. f_equal. f_equal; lia.
    + inversion N as [|? ? Np N']; subst.
      assert (A : ~ In p (map fst o)) by (intros H; apply Np; apply in_or_app; right; exact H).
      unfold out_write. rewrite (out_remove_absent p o A).
      rewrite IH; [|exact Grs|].
      * cbn. rewrite <- app_assoc. cbn. f_equal. f_equal. f_equal; lia.
      * cbn [map fst]. apply (Permutation_NoDup (l := p :: (concat (map path_of rs) ++ map fst o)));
        [apply Permutation_middle|exact N].
Qed.

Lemma Forall2_by_nth {A B} (R : A -> B -> Prop) : forall la lb, length la = length lb ->
  (forall j a b, nth_error la j = Some a -> nth_error lb j = Some b -> R a b) -> Forall2 R la lb.
Proof.
  induction la as [|a la IH]; intros [|b lb] L H; try discriminate; constructor.
  - apply (H 0); reflexivity.
  - apply IH; [simpl in L; lia|]. intros j x y Hx Hy. apply (H (S j)); assumption.
Qed.

Section Repair.
  Variable T : list (list byte * list byte).               (* protected files as generated: relative path, original content *)
  Variable want : list byte * list byte -> list byte.      (* what a complete repair writes for that file *)
  Variable must : list byte * list byte -> Prop.           (* files that have to be repaired (damaged in their protected region) *)

  (* the per-entry result of a file that is unchanged or completely repaired; a file that has to be repaired is not passed as clean *)
  Definition rel (f : list byte * list byte) (r : eres) : Prop :=
    (r = EFile (fst f) BClean /\ ~ must f) \/ r = EFile (fst f) (BCorrupt RFull (Some (want f))).

  Lemma rel_facts : forall T' rs, Forall2 rel T' rs ->
    Forall good rs /\ concat (map path_of rs) = map fst T' /\ length rs = length T' /\
    (forall p b, In (p, b) (outs_of rs) -> exists f, In f T' /\ p = fst f /\ b = want f /\ In (EFile p (BCorrupt RFull (Some b))) rs) /\
    (forall f, In f T' -> must f -> In (fst f, want f) (outs_of rs)) /\
    n_full_of rs <= length T'.
  Proof.
    induction 1 as [|f r T' rs [[-> NM]| ->] F (G & P & L & O & I & N)].
    - repeat split; try constructor; try (intros; contradiction).
    - repeat split.
      + constructor; [exists (fst f); left; reflexivity|exact G].
      + cbn. rewrite P. reflexivity.
      + cbn. rewrite L. reflexivity.
      + cbn [outs_of]. intros p b H. destruct (O p b H) as (g & Hg & E1 & E2 & E3). exists g. repeat split; auto. right; exact Hg. right; exact E3.
      + intros g [<-|Hg] M; [contradiction|]. cbn [outs_of]. exact (I g Hg M).
      + cbn. lia.
    - repeat split.
      + constructor; [exists (fst f); right; exists (want f); reflexivity|exact G].
      + cbn. rewrite P. reflexivity.
      + cbn. rewrite L. reflexivity.
      + cbn [outs_of]. intros p b H. apply in_app_or in H. destruct H as [H|[H|[]]].
        * destruct (O p b H) as (g & Hg & E1 & E2 & E3). exists g. repeat split; auto. right; exact Hg. right; exact E3.
        * inversion H; subst. exists f. repeat split; auto. left; reflexivity. left; reflexivity.
      + intros g [<-|Hg] M; cbn [outs_of]; apply in_or_app; [right; left; reflexivity|left; exact (I g Hg M)].
      + cbn. lia.
  Qed.

  (* the run over such results *)
  Theorem run_of_rel rs : NoDup (map fst T) -> Forall2 rel T rs ->
    finish (steps (c0, []) rs) = Done (mkC (length T) (n_full_of rs) (n_full_of rs) 0 0) (outs_of rs) 0.
  Proof.
    intros N F. destruct (rel_facts T rs F) as (G & P & L & _).
    rewrite (steps_full rs c0 [] G) by (cbn [map]; rewrite app_nil_r, P; exact N).
    cbn [finish c0 n_proc n_corr n_full n_part n_skip]. rewrite !Nat.add_0_r, app_nil_r, L.
    unfold exit_of. cbn [n_corr n_full]. rewrite Nat.eqb_refl, orb_true_r. reflexivity.
  Qed.

  Variables marker delim : list byte.
  Variable ignore_size : bool.
  Variable look : list byte -> option (list byte).
  Variable intra : list byte -> list byte -> list byte.
  Variable blocksH : list byte -> Z -> list byte -> bres.
  Variable window : nat.
  Variable blocksW : list byte -> nat -> nat -> Z -> list byte -> bres * nat.
  Variable enc : list byte -> list byte.
  Variable track : list byte -> list byte.
  Variable preamble : list byte.
  Variable dmg : list byte * list byte -> list byte.       (* the content found under the root at check time *)

  Notation gen_entry := (gen_entry delim enc track).
  Notation db := (generate marker delim enc track preamble T).

  Hypothesis marker_ne : marker <> [].
  Hypothesis unambiguous_markers : clean_pieces marker (preamble :: map gen_entry T).
  Hypothesis unambiguous_fields : forall f, In f T ->
    prefixb delim (fst f ++ delim) = false /\ clean_mid delim (fst f) /\ clean_mid delim (size_of f) /\
    clean_mid delim (enc (fst f)) /\ clean_mid delim (enc (size_of f)).
  Hypothesis intra_roundtrip : forall f, In f T ->
    intra (fst f) (enc (fst f)) = fst f /\ intra (size_of f) (enc (size_of f)) = size_of f.
  Hypothesis int_roundtrip : forall f, In f T -> py_int (size_of f) = Some (zlen (snd f)).
  Hypothesis names_ok : forall f, In f T -> has_nul (fst f) = false.
  Hypothesis paths_distinct : NoDup (map fst T).
  (* every protected file is present with its recorded size, possibly damaged *)
  Hypothesis tree_present : forall f, In f T -> look (fst f) = Some (dmg f).
  Hypothesis same_size : forall f, In f T -> length (dmg f) = length (snd f).

  Lemma meta_dmg f : In f T ->
    meta ignore_size look intra (mkFields (fst f) (size_of f) (enc (fst f)) (enc (size_of f)) 0%Z []) =
      inr (fst f, zlen (snd f), dmg f).
  Proof.
    intros H. unfold meta. cbn [f_path f_pecc f_size f_secc].
    destruct (intra_roundtrip f H) as [-> ->]. rewrite (int_roundtrip f H), (names_ok f H), (tree_present f H).
    unfold zlen. rewrite (same_size f H), Z.eqb_refl. reflexivity.
  Qed.

  Section Header.
    Hypothesis blocksH_repairs : forall f, In f T ->
      (blocksH (track (snd f)) (zlen (snd f)) (dmg f) = BClean /\ ~ must f) \/
      blocksH (track (snd f)) (zlen (snd f)) (dmg f) = BCorrupt RFull (Some (want f)).

    Theorem repair_h : exists rs, Forall2 rel T rs /\
      run_h marker delim ignore_size look intra blocksH db =
        Done (mkC (length T) (n_full_of rs) (n_full_of rs) 0 0) (outs_of rs) 0.
    Proof.
      exists (map (fun f => entry_h delim ignore_size look intra blocksH (gen_entry f)) T).
      assert (F : Forall2 rel T (map (fun f => entry_h delim ignore_size look intra blocksH (gen_entry f)) T)).
      { apply Forall2_by_nth; [rewrite map_length; reflexivity|].
        intros j a b Ha Hb. rewrite nth_error_map, Ha in Hb. cbn in Hb. inversion Hb; subst b. clear Hb.
        apply nth_error_In in Ha. destruct (unambiguous_fields a Ha) as (Hs & Hp & Hz & Hpe & Hze).
        unfold Stream.gen_entry. fold (size_of a).
        rewrite (entry_h_wf delim ignore_size look intra blocksH _ _ _ _ _ Hs Hp Hz Hpe Hze), (meta_dmg a Ha).
        unfold rel. destruct (blocksH_repairs a Ha) as [[-> NM] | ->]; [left; split; [reflexivity|exact NM]|right; reflexivity]. }
      split; [exact F|].
      unfold run_h. fold (results_h marker delim ignore_size look intra blocksH db).
      rewrite results_h_spec. unfold generate. rewrite generate_join.
      rewrite (scan_join marker preamble _ marker_ne unambiguous_markers).
      rewrite <- (map_map (fun se => sub (join marker (preamble :: map gen_entry T)) (fst se) (snd se))).
      rewrite spans_contents, map_map.
      apply run_of_rel; assumption.
    Qed.
  End Header.

  Section Whole.
    Hypothesis meta_fits : forall f, In f T -> meta_len delim (fst f) (size_of f) (enc (fst f)) (enc (size_of f)) <= window.
    Hypothesis blocksW_repairs : forall f d t e, In f T -> sub d t e = track (snd f) -> e - t = length (track (snd f)) ->
      (fst (blocksW d t e (zlen (snd f)) (dmg f)) = BClean /\ ~ must f) \/
      fst (blocksW d t e (zlen (snd f)) (dmg f)) = BCorrupt RFull (Some (want f)).

    Theorem repair_w : exists rs, Forall2 rel T rs /\
      run_w marker delim ignore_size look intra window blocksW db =
        Done (mkC (length T) (n_full_of rs) (n_full_of rs) 0 0) (outs_of rs) 0.
    Proof.
      unfold run_w. fold (results_w marker delim ignore_size look intra window blocksW db).
      rewrite results_w_spec. unfold generate. rewrite generate_join.
      rewrite (scan_join marker preamble _ marker_ne unambiguous_markers).
      set (D := join marker (preamble :: map gen_entry T)).
      set (rs := map (fun se => fst (fst (entry_w delim ignore_size look intra window blocksW D (fst se) (snd se))))
                     (spans marker (length preamble + length marker) (map gen_entry T))).
      exists rs.
      assert (F : Forall2 rel T rs).
      { apply Forall2_by_nth; [unfold rs; rewrite map_length, spans_length, map_length; reflexivity|].
        intros j a b Ha Hb. unfold rs in Hb. rewrite nth_error_map in Hb.
        assert (Hc : nth_error (map gen_entry T) j = Some (gen_entry a)) by (rewrite nth_error_map, Ha; reflexivity).
        destruct (spans_decomp marker preamble _ j _ Hc) as (A & Rr & E & N). rewrite N in Hb. cbn [option_map] in Hb.
        inversion Hb; subst b. clear Hb. cbn [fst snd]. fold D in E. rewrite E.
        apply nth_error_In in Ha. destruct (unambiguous_fields a Ha) as (Hs & Hp & Hz & Hpe & Hze).
        unfold Stream.gen_entry. fold (size_of a).
        destruct (entry_w_wf delim ignore_size look intra window blocksW A Rr _ _ _ _ (track (snd a)) Hs Hp Hz Hpe Hze (meta_fits a Ha)) as [E1 T1].
        rewrite E1. cbn [fst]. rewrite (meta_dmg a Ha). unfold rel.
        assert (LE : length A + length (fst a ++ delim ++ size_of a ++ delim ++ enc (fst a) ++ delim ++ enc (size_of a) ++ delim ++ track (snd a))
                     - (length A + meta_len delim (fst a) (size_of a) (enc (fst a)) (enc (size_of a))) = length (track (snd a))).
        { unfold meta_len. rewrite !app_length. lia. }
        destruct (blocksW_repairs a _ _ _ Ha T1 LE) as [[-> NM] | ->]; [left; split; [reflexivity|exact NM]|right; reflexivity]. }
      split; [exact F|]. apply run_of_rel; assumption.
    Qed.
  End Whole.
End Repair.
