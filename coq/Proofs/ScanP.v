(* ScanP.v — lemmas and proofs about Scan.v (C14). *)
From Coq Require Import List Arith Bool Lia.
From Coq Require Import Strings.Byte.
From PFF Require Import Bytes Scan.
Import ListNotations.

Lemma skipn_skipn {A} (x y : nat) (l : list A) : skipn x (skipn y l) = skipn (x + y) l.
Proof.
  revert l. induction y as [|y IH]; intros l.
  - rewrite Nat.add_0_r. reflexivity.
  - rewrite Nat.add_succ_r. destruct l as [|a l]; [rewrite !skipn_nil; reflexivity|]. simpl. apply IH.
Qed.

(* ------------------------------------------------------------------ *)
(* prefixb                                                            *)
(* ------------------------------------------------------------------ *)

Lemma prefixb_spec m s : prefixb m s = true <-> exists r, s = m ++ r.
Proof.
  revert s. induction m as [|x m IH]; intros s; simpl.
  - split; [intros _; exists s; reflexivity | reflexivity].
  - destruct s as [|y s].
    + split; [discriminate | intros [r Hr]; discriminate].
    + rewrite andb_true_iff, IH. split.
      * intros [Hxy [r Hr]]. destruct (byte_eqb_spec x y) as [->|]; [|discriminate].
        exists r. rewrite Hr. reflexivity.
      * intros [r Hr]. injection Hr as -> ->. split.
        -- destruct (byte_eqb_spec x x); [reflexivity|congruence].
        -- exists r. reflexivity.
Qed.

Lemma prefixb_app m r : prefixb m (m ++ r) = true.
Proof. apply prefixb_spec. exists r. reflexivity. Qed.

Lemma prefixb_length m s : prefixb m s = true -> length m <= length s.
Proof. intros H. apply prefixb_spec in H as [r ->]. rewrite app_length. lia. Qed.

Lemma prefixb_nil_r m : m <> [] -> prefixb m [] = false.
Proof. destruct m; [congruence|reflexivity]. Qed.

(* prefix of a truncated string *)
Lemma prefixb_firstn m s k :
  prefixb m (firstn k s) = true <-> prefixb m s = true /\ length m <= k.
Proof.
  split.
  - intros H. pose proof (prefixb_length _ _ H) as HL. rewrite firstn_length in HL.
    apply prefixb_spec in H as [r Hr]. split; [|lia].
    apply prefixb_spec. exists (r ++ skipn k s).
    rewrite app_assoc, <- Hr. symmetry. apply firstn_skipn.
  - intros [H HL]. apply prefixb_spec in H as [r ->].
    apply prefixb_spec. exists (firstn (k - length m) r).
    rewrite firstn_app. replace (firstn k m) with m; [reflexivity|].
    symmetry. apply firstn_all2. exact HL.
Qed.

(* prefix of a string extended on the right *)
Lemma prefixb_app_l m a x : length m <= length a -> prefixb m (a ++ x) = prefixb m a.
Proof.
  intros HL. destruct (prefixb m a) eqn:E.
  - apply prefixb_spec in E as [r ->]. rewrite <- app_assoc. apply prefixb_app.
  - destruct (prefixb m (a ++ x)) eqn:E2; [|reflexivity].
    rewrite <- E. symmetry.
    assert (H : prefixb m (firstn (length a) (a ++ x)) = true).
    { apply prefixb_firstn. split; [exact E2|exact HL]. }
    rewrite firstn_app, Nat.sub_diag, firstn_all in H. simpl in H. rewrite app_nil_r in H. exact H.
Qed.

(* ------------------------------------------------------------------ *)
(* occurrences and find                                               *)
(* ------------------------------------------------------------------ *)

Lemma occ_bound m s i : m <> [] -> occ m s i -> i + length m <= length s.
Proof.
  intros Hm [Hi H]. apply prefixb_length in H. rewrite skipn_length in H. lia.
Qed.

Lemma occ_dec m s i : {occ m s i} + {~ occ m s i}.
Proof.
  unfold occ. destruct (le_dec i (length s)); [|right; tauto].
  destruct (prefixb m (skipn i s)); [left; tauto | right; intros [_ H]; discriminate].
Qed.

(* what [find] returns, as a predicate *)
Definition find_res (m s : list byte) (from : nat) (r : option nat) : Prop :=
  match r with
  | Some i => from <= i /\ occ m s i /\ forall j, from <= j -> j < i -> ~ occ m s j
  | None => forall j, from <= j -> ~ occ m s j
  end.

Lemma find_aux_sound m t : forall i0,
  match find_aux m t i0 with
  | Some i => exists d, i = i0 + d /\ d <= length t /\ prefixb m (skipn d t) = true /\
                        forall d', d' < d -> prefixb m (skipn d' t) = false
  | None => forall d, d <= length t -> prefixb m (skipn d t) = false
  end.
Proof.
  induction t as [|x t IH]; intros i0; simpl.
  - destruct (prefixb m []) eqn:E.
    + exists 0. repeat split; [lia|lia|exact E|intros; lia].
    + intros d Hd. assert (d = 0) as -> by (simpl in Hd; lia). exact E.
  - destruct (prefixb m (x :: t)) eqn:E.
    + exists 0. repeat split; [lia|lia|exact E|intros; lia].
    + specialize (IH (S i0)). destruct (find_aux m t (S i0)) as [i|].
      * destruct IH as (d & -> & Hd & Hp & Hmin). exists (S d).
        repeat split; [lia|simpl; lia|exact Hp|].
        intros d' Hd'. destruct d' as [|d']; [exact E|]. simpl. apply Hmin. lia.
      * intros d Hd. destruct d as [|d]; [exact E|]. simpl. apply IH. simpl in Hd. lia.
Qed.

Lemma find_sound m s from : find_res m s from (find m s from).
Proof.
  unfold find. destruct (from <=? length s) eqn:E.
  - apply Nat.leb_le in E. pose proof (find_aux_sound m (skipn from s) from) as H.
    destruct (find_aux m (skipn from s) from) as [i|]; simpl.
    + destruct H as (d & -> & Hd & Hp & Hmin). rewrite skipn_length in Hd.
      rewrite skipn_skipn in Hp. split; [lia|]. split.
      * split; [lia|]. rewrite Nat.add_comm. exact Hp.
      * intros j Hj1 Hj2 [_ Hj]. specialize (Hmin (j - from)).
        rewrite skipn_skipn in Hmin. replace (j - from + from) with j in Hmin by lia.
        rewrite Hmin in Hj; [discriminate|lia].
    + intros j Hj [Hj1 Hj2]. specialize (H (j - from)).
      rewrite skipn_skipn, skipn_length in H. replace (j - from + from) with j in H by lia.
      rewrite H in Hj2; [discriminate|lia].
  - apply Nat.leb_gt in E. simpl. intros j Hj [Hj1 _]. lia.
Qed.

Lemma find_res_unique m s from r1 r2 : find_res m s from r1 -> find_res m s from r2 -> r1 = r2.
Proof.
  destruct r1 as [i1|], r2 as [i2|]; simpl.
  - intros (H1 & H2 & H3) (K1 & K2 & K3).
    destruct (lt_eq_lt_dec i1 i2) as [[L|L]|L]; [|congruence|].
    + exfalso. exact (K3 i1 H1 L H2).
    + exfalso. exact (H3 i2 K1 L K2).
  - intros (H1 & H2 & _) K. exfalso. exact (K i1 H1 H2).
  - intros K (H1 & H2 & _). exfalso. exact (K i2 H1 H2).
  - reflexivity.
Qed.

Lemma find_intro m s from r : find_res m s from r -> find m s from = r.
Proof. intros H. exact (find_res_unique _ _ _ _ _ (find_sound m s from) H). Qed.

(* moving the search origin over a stretch without occurrence *)
Lemma find_skip m s from from' :
  from <= from' -> (forall j, from <= j -> j < from' -> ~ occ m s j) -> find m s from = find m s from'.
Proof.
  intros Hle Hno. apply find_intro. pose proof (find_sound m s from') as H.
  destruct (find m s from') as [i|]; simpl in *.
  - destruct H as (H1 & H2 & H3). split; [lia|]. split; [exact H2|].
    intros j Hj1 Hj2. destruct (le_lt_dec from' j); [apply H3; lia|apply Hno; lia].
  - intros j Hj. destruct (le_lt_dec from' j); [apply H; lia|apply Hno; lia].
Qed.

(* end of the entry that begins at a: the next marker or the end of the stream *)
Definition fend (m s : list byte) (a : nat) : nat :=
  match find m s a with Some e => e | None => length s end.

Lemma fend_bounds m s a : a <= length s -> a <= fend m s a <= length s.
Proof.
  intros Ha. unfold fend. pose proof (find_sound m s a) as H.
  destruct (find m s a) as [e|]; simpl in H; [|lia].
  destruct H as (H1 & [H2 _] & _). lia.
Qed.

(* ------------------------------------------------------------------ *)
(* window lemmas: a buffer sees exactly the occurrences that lie      *)
(* wholly inside it                                                   *)
(* ------------------------------------------------------------------ *)

Lemma read_length s pos n : length (read s pos n) = Nat.min n (length s - pos).
Proof. unfold read. rewrite firstn_length, skipn_length. reflexivity. Qed.

Lemma occ_window m s pos n i : m <> [] ->
  occ m (read s pos n) i <-> occ m s (pos + i) /\ i + length m <= length (read s pos n).
Proof.
  intros Hm. assert (Hm1 : 1 <= length m) by (destruct m; [congruence|simpl; lia]). split.
  - intros H. pose proof (occ_bound _ _ _ Hm H) as Hb. destruct H as [Hi H].
    unfold read in H. rewrite skipn_firstn_comm, skipn_skipn in H.
    apply prefixb_firstn in H as [H HL]. rewrite read_length in Hb, Hi.
    split; [|rewrite read_length; exact Hb].
    split; [lia|]. rewrite Nat.add_comm. exact H.
  - intros [[Hi H] Hb]. rewrite read_length in Hb. split; [rewrite read_length; lia|].
    unfold read. rewrite skipn_firstn_comm, skipn_skipn. apply prefixb_firstn.
    split; [rewrite Nat.add_comm; exact H|lia].
Qed.

Lemma find_window_some m s pos n r e : m <> [] ->
  find m (read s pos n) r = Some e -> find m s (pos + r) = Some (pos + e).
Proof.
  intros Hm H. pose proof (find_sound m (read s pos n) r) as F. rewrite H in F.
  destruct F as (F1 & F2 & F3). apply find_intro. simpl.
  apply (occ_window _ _ _ _ _ Hm) in F2 as [F2 Fb].
  split; [lia|]. split; [exact F2|].
  intros j Hj1 Hj2 Hj. apply (F3 (j - pos)); [lia|lia|].
  apply (occ_window _ _ _ _ _ Hm). replace (pos + (j - pos)) with j by lia.
  split; [exact Hj|lia].
Qed.

Lemma find_window_none m s pos n r : m <> [] ->
  find m (read s pos n) r = None ->
  forall j, pos + r <= j -> j + length m <= pos + length (read s pos n) -> ~ occ m s j.
Proof.
  intros Hm H j Hj1 Hj2 Hj. pose proof (find_sound m (read s pos n) r) as F. rewrite H in F.
  simpl in F. apply (F (j - pos)); [lia|].
  apply (occ_window _ _ _ _ _ Hm). replace (pos + (j - pos)) with j by lia.
  split; [exact Hj|lia].
Qed.

(* ------------------------------------------------------------------ *)
(* the buffered loop                                                  *)
(* ------------------------------------------------------------------ *)

Lemma mlen_pos (m : list byte) : m <> [] -> 1 <= length m.
Proof. destruct m; [congruence|simpl; lia]. Qed.

(* startcursor already known: the loop finds the end of the entry *)
Lemma loop_some m s bs c : m <> [] -> length m < bs ->
  forall fuel pos, pos <= length s -> length s - pos < fuel ->
  scan_loop fuel m s bs pos (Some c) = Found c (fend m s pos).
Proof.
  intros Hm Hbs. pose proof (mlen_pos m Hm) as Hm1.
  induction fuel as [|fuel IH]; intros pos Hpos Hfuel; [lia|].
  simpl. pose proof (read_length s pos bs) as HL.
  destruct (find m (read s pos bs) 0) as [e|] eqn:E.
  - apply (find_window_some _ _ _ _ _ _ Hm) in E. rewrite Nat.add_0_r in E.
    unfold fend. rewrite E. reflexivity.
  - pose proof (find_window_none _ _ _ _ _ Hm E) as N. rewrite Nat.add_0_r in N.
    destruct (length (read s pos bs) <? bs) eqn:Sh.
    + apply Nat.ltb_lt in Sh. unfold fend.
      rewrite (find_intro m s pos None).
      * f_equal. lia.
      * simpl. intros j Hj Ho. apply (N j Hj); [|exact Ho].
        pose proof (occ_bound _ _ _ Hm Ho). lia.
    + apply Nat.ltb_ge in Sh. rewrite Nat.add_0_r.
      assert (Hfull : length (read s pos bs) = bs) by lia.
      rewrite Hfull in *.
      rewrite Nat.max_r by lia.
      rewrite IH by lia. f_equal. unfold fend. rewrite (find_skip m s pos (pos + bs - (length m - 1))); [reflexivity|lia|].
      intros j Hj1 Hj2. apply N; lia.
Qed.

(* startcursor not yet known *)
Lemma loop_none m s bs : m <> [] -> length m < bs ->
  forall fuel pos, length s - pos < fuel ->
  scan_loop fuel m s bs pos None =
  match find m s pos with
  | Some c => Found c (fend m s (c + length m))
  | None => NotFound (Nat.max pos (length s))
  end.
Proof.
  intros Hm Hbs. pose proof (mlen_pos m Hm) as Hm1.
  induction fuel as [|fuel IH]; intros pos Hfuel; [lia|].
  simpl. pose proof (read_length s pos bs) as HL.
  destruct (find m (read s pos bs) 0) as [st|] eqn:E.
  - (* starting marker in this buffer *)
    pose proof (find_sound m (read s pos bs) 0) as Fs. rewrite E in Fs.
    destruct Fs as (_ & Fo & _). pose proof (occ_bound _ _ _ Hm Fo) as Fb.
    apply (find_window_some _ _ _ _ _ _ Hm) in E. rewrite Nat.add_0_r in E. rewrite E.
    destruct (find m (read s pos bs) (st + length m)) as [e|] eqn:E2.
    + apply (find_window_some _ _ _ _ _ _ Hm) in E2. unfold fend.
      replace (pos + st + length m) with (pos + (st + length m)) by lia. rewrite E2. reflexivity.
    + pose proof (find_window_none _ _ _ _ _ Hm E2) as N.
      destruct (length (read s pos bs) <? bs) eqn:Sh.
      * apply Nat.ltb_lt in Sh. unfold fend. rewrite (find_intro m s (pos + st + length m) None).
        -- f_equal. lia.
        -- simpl. intros j Hj Ho. apply (N j); [lia| |exact Ho].
           pose proof (occ_bound _ _ _ Hm Ho). lia.
      * apply Nat.ltb_ge in Sh.
        assert (Hfull : length (read s pos bs) = bs) by lia. rewrite Hfull in *.
        rewrite loop_some; [|exact Hm|exact Hbs|lia|lia].
        f_equal. unfold fend.
        rewrite (find_skip m s (pos + st + length m)
                   (Nat.max (pos + (st + length m)) (pos + bs - (length m - 1)))); [reflexivity|lia|].
        intros j Hj1 Hj2. apply N; lia.
  - pose proof (find_window_none _ _ _ _ _ Hm E) as N. rewrite Nat.add_0_r in N.
    destruct (length (read s pos bs) <? bs) eqn:Sh.
    + apply Nat.ltb_lt in Sh. rewrite (find_intro m s pos None).
      * f_equal. lia.
      * simpl. intros j Hj Ho. apply (N j Hj); [|exact Ho].
        pose proof (occ_bound _ _ _ Hm Ho). lia.
    + apply Nat.ltb_ge in Sh. rewrite Nat.add_0_r.
      assert (Hfull : length (read s pos bs) = bs) by lia. rewrite Hfull in *.
      rewrite Nat.max_r by lia. rewrite IH by lia.
      replace (Nat.max (pos + bs - (length m - 1)) (length s)) with (Nat.max pos (length s)) by lia.
      rewrite (find_skip m s pos (pos + bs - (length m - 1))); [reflexivity|lia|].
      intros j Hj1 Hj2. apply N; lia.
Qed.

Lemma eff_bs_gt mlen bs : mlen < eff_bs mlen bs.
Proof. unfold eff_bs. destruct (bs <=? mlen) eqn:E; [lia|apply Nat.leb_gt in E; exact E]. Qed.

(* one call *)
Lemma get_next_entry_spec m oc bs s pos : m <> [] ->
  get_next_entry m oc bs s pos =
  match find m s pos with
  | Some c => render oc s (c + length m, fend m s (c + length m))
  | None => (RNone, Nat.max pos (length s))
  end.
Proof.
  intros Hm. unfold get_next_entry.
  rewrite (loop_none m s _ Hm (eff_bs_gt _ bs)) by lia.
  pose proof (find_sound m s pos) as F. destruct (find m s pos) as [c|]; [|reflexivity].
  destruct F as (_ & Fo & _). pose proof (occ_bound _ _ _ Hm Fo) as Fb.
  pose proof (fend_bounds m s (c + length m) Fb) as [B1 B2].
  unfold render. destruct oc; [reflexivity|].
  replace (fend m s (c + length m) - c - length m) with (fend m s (c + length m) - (c + length m)) by lia.
  unfold read. f_equal. rewrite firstn_length, skipn_length. lia.
Qed.

(* ------------------------------------------------------------------ *)
(* the specification unfolds along [find]                             *)
(* ------------------------------------------------------------------ *)

Lemma mp_skip m : forall t i0 k,
  marker_positions m t i0 k = marker_positions m (skipn k t) (i0 + k) 0.
Proof.
  induction t as [|x t IH]; intros i0 k.
  - rewrite skipn_nil. reflexivity.
  - destruct k as [|k].
    + rewrite Nat.add_0_r. reflexivity.
    + simpl. rewrite IH. f_equal. lia.
Qed.

Lemma find_aux_ge m : forall t i0 c, find_aux m t i0 = Some c -> i0 <= c.
Proof.
  intros t i0 c H. pose proof (find_aux_sound m t i0) as F. rewrite H in F.
  destruct F as (d & -> & _). lia.
Qed.

Lemma mp_aux m : m <> [] -> forall t i0,
  marker_positions m t i0 0 =
  match find_aux m t i0 with
  | Some c => c :: marker_positions m (skipn (c - i0 + length m) t) (c + length m) 0
  | None => []
  end.
Proof.
  intros Hm. pose proof (mlen_pos m Hm) as Hm1.
  induction t as [|x t IH]; intros i0.
  - simpl. rewrite (prefixb_nil_r m Hm). reflexivity.
  - simpl. destruct (prefixb m (x :: t)) eqn:E.
    + rewrite mp_skip. rewrite Nat.sub_diag. simpl.
      destruct (length m) as [|k] eqn:EL; [lia|]. simpl. rewrite Nat.sub_0_r.
      f_equal. f_equal. lia.
    + rewrite IH. destruct (find_aux m t (S i0)) as [c|] eqn:F; [|reflexivity].
      apply find_aux_ge in F. replace (c - i0 + length m) with (S (c - S i0 + length m)) by lia.
      reflexivity.
Qed.

Lemma mp_unfold m s p : m <> [] ->
  marker_positions m (skipn p s) p 0 =
  match find m s p with
  | Some c => c :: marker_positions m (skipn (c + length m) s) (c + length m) 0
  | None => []
  end.
Proof.
  intros Hm. unfold find. destruct (p <=? length s) eqn:E.
  - rewrite (mp_aux m Hm). destruct (find_aux m (skipn p s) p) as [c|] eqn:F; [|reflexivity].
    apply find_aux_ge in F. rewrite skipn_skipn. do 3 f_equal. lia.
  - apply Nat.leb_gt in E. rewrite skipn_all2 by lia. reflexivity.
Qed.

Lemma entries_unfold m s p : m <> [] ->
  entries_spec m s p =
  match find m s p with
  | Some c => (c + length m, fend m s (c + length m)) :: entries_spec m s (c + length m)
  | None => []
  end.
Proof.
  intros Hm. unfold entries_spec. rewrite (mp_unfold m s p Hm).
  destruct (find m s p) as [c|]; [|reflexivity].
  simpl. f_equal. f_equal. unfold fend. rewrite (mp_unfold m s (c + length m) Hm).
  destruct (find m s (c + length m)); reflexivity.
Qed.

(* reading the entry's content does not change what follows *)
Lemma entries_fend m s a : m <> [] -> a <= length s ->
  entries_spec m s (fend m s a) = entries_spec m s a.
Proof.
  intros Hm Ha. rewrite (entries_unfold m s a Hm), (entries_unfold m s (fend m s a) Hm).
  unfold fend at 1 2. pose proof (find_sound m s a) as F.
  destruct (find m s a) as [e|] eqn:E; simpl in F.
  - destruct F as (F1 & F2 & F3). rewrite (find_intro m s e (Some e)); [reflexivity|].
    simpl. split; [lia|]. split; [exact F2|]. intros j H1 H2. lia.
  - rewrite (find_intro m s (length s) None); [reflexivity|].
    simpl. intros j Hj. apply F. lia.
Qed.

(* ------------------------------------------------------------------ *)
(* iterating the scanner                                              *)
(* ------------------------------------------------------------------ *)

Lemma scan_calls_spec m oc bs s : m <> [] ->
  forall fuel pos, length s + 1 - pos < fuel ->
  scan_calls fuel m oc bs s pos = scan_spec m oc s pos.
Proof.
  intros Hm. pose proof (mlen_pos m Hm) as Hm1.
  induction fuel as [|fuel IH]; intros pos Hfuel; [lia|].
  simpl. rewrite (get_next_entry_spec m oc bs s pos Hm).
  unfold scan_spec. rewrite (entries_unfold m s pos Hm).
  pose proof (find_sound m s pos) as F. destruct (find m s pos) as [c|]; simpl in F.
  - destruct F as (F1 & Fo & _). pose proof (occ_bound _ _ _ Hm Fo) as Fb.
    pose proof (fend_bounds m s (c + length m) Fb) as [B1 B2].
    unfold render at 1. destruct oc.
    + rewrite IH by lia. unfold scan_spec. simpl.
      replace (Nat.max (c + length m) (length s)) with (Nat.max pos (length s)) by lia. reflexivity.
    + rewrite IH by lia. unfold scan_spec. rewrite (entries_fend m s _ Hm Fb). simpl.
      replace (Nat.max (fend m s (c + length m)) (length s)) with (Nat.max pos (length s)) by lia. reflexivity.
  - reflexivity.
Qed.

Theorem scan_all_spec m oc bs s p : m <> [] -> scan_all m oc bs s p = scan_spec m oc s p.
Proof. intros Hm. unfold scan_all. apply (scan_calls_spec m oc bs s Hm). lia. Qed.

(* ------------------------------------------------------------------ *)
(* the specification cuts at full marker occurrences and nowhere else *)
(* ------------------------------------------------------------------ *)

Lemma entries_exact_aux m s : m <> [] ->
  forall n p, length s + 1 - p <= n -> exact_split m s p (entries_spec m s p).
Proof.
  intros Hm. pose proof (mlen_pos m Hm) as Hm1.
  induction n as [|n IH]; intros p Hn; rewrite (entries_unfold m s p Hm);
    pose proof (find_sound m s p) as F; destruct (find m s p) as [c|] eqn:E; simpl in F;
    try (apply split_end; exact F).
  - destruct F as (F1 & Fo & _). pose proof (occ_bound _ _ _ Hm Fo). lia.
  - destruct F as (F1 & Fo & F3). pose proof (occ_bound _ _ _ Hm Fo) as Fb.
    pose proof (fend_bounds m s (c + length m) Fb) as [B1 B2].
    rewrite <- (entries_fend m s (c + length m) Hm Fb).
    apply split_entry; try assumption.
    + unfold fend. pose proof (find_sound m s (c + length m)) as G.
      destruct (find m s (c + length m)) as [e|]; simpl in G.
      * destruct G as (_ & _ & G3). exact G3.
      * intros j Hj _. apply G. exact Hj.
    + unfold fend. pose proof (find_sound m s (c + length m)) as G.
      destruct (find m s (c + length m)) as [e|]; simpl in G.
      * left. tauto.
      * right. split; [reflexivity|exact G].
    + apply IH. lia.
Qed.

Lemma entries_exact m s p : m <> [] -> exact_split m s p (entries_spec m s p).
Proof. intros Hm. apply (entries_exact_aux m s Hm (length s + 1 - p)). lia. Qed.

Lemma exact_split_unique m s p l : m <> [] -> exact_split m s p l -> l = entries_spec m s p.
Proof.
  intros Hm H. induction H as [p Hno | p c e rest Hpc Ho Hbefore Hce Hin Hend Hrest IH].
  - rewrite (entries_unfold m s p Hm). rewrite (find_intro m s p None Hno). reflexivity.
  - pose proof (occ_bound _ _ _ Hm Ho) as Fb.
    rewrite (entries_unfold m s p Hm).
    rewrite (find_intro m s p (Some c)); [|simpl; tauto].
    assert (Hf : fend m s (c + length m) = e).
    { unfold fend. destruct Hend as [Hoe | [He Hnone]].
      - rewrite (find_intro m s (c + length m) (Some e)); [reflexivity|simpl; tauto].
      - rewrite (find_intro m s (c + length m) None Hnone). symmetry. exact He. }
    rewrite <- (entries_fend m s (c + length m) Hm Fb). rewrite Hf, <- IH. reflexivity.
Qed.

(* ------------------------------------------------------------------ *)
(* streams built from a preamble and entries                          *)
(* ------------------------------------------------------------------ *)

Lemma skipn_app_shift {A} (u t : list A) i : skipn (length u + i) (u ++ t) = skipn i t.
Proof.
  rewrite skipn_app. rewrite skipn_all2 by lia. simpl. f_equal. lia.
Qed.

Lemma occ_app_shift m u t i : occ m (u ++ t) (length u + i) <-> occ m t i.
Proof.
  unfold occ. rewrite skipn_app_shift, app_length. split; intros [H1 H2]; (split; [lia|exact H2]).
Qed.

Lemma find_app_shift m u t r :
  find m (u ++ t) (length u + r) = option_map (fun i => length u + i) (find m t r).
Proof.
  apply find_intro. pose proof (find_sound m t r) as F.
  destruct (find m t r) as [i|]; simpl in *.
  - destruct F as (F1 & F2 & F3). split; [lia|]. split; [apply occ_app_shift; exact F2|].
    intros j Hj1 Hj2 Hj. apply (F3 (j - length u)); [lia|lia|].
    apply (occ_app_shift m u). replace (length u + (j - length u)) with j by lia. exact Hj.
  - intros j Hj Ho. apply (F (j - length u)); [lia|].
    apply (occ_app_shift m u). replace (length u + (j - length u)) with j by lia. exact Ho.
Qed.

(* an occurrence that begins inside e lies inside e ++ m *)
Lemma occ_app_inside m e x j : m <> [] -> j < length e -> occ m (e ++ m ++ x) j -> occ m (e ++ m) j.
Proof.
  intros Hm Hj [H1 H2]. split; [rewrite app_length; lia|].
  rewrite app_assoc, skipn_app in H2.
  rewrite prefixb_app_l in H2; [exact H2|].
  rewrite skipn_length, app_length. lia.
Qed.

Lemma clean_find m e x : m <> [] -> clean m e -> find m (e ++ m ++ x) 0 = Some (length e).
Proof.
  intros Hm Hc. unfold clean in Hc. pose proof (find_sound m (e ++ m) 0) as F. rewrite Hc in F.
  destruct F as (_ & _ & F3). apply find_intro. simpl. split; [lia|]. split.
  - split; [rewrite app_length; lia|].
    replace (length e) with (length e + 0) by lia. rewrite skipn_app_shift. simpl. apply prefixb_app.
  - intros j Hj1 Hj2 Ho. apply (F3 j Hj1 Hj2). exact (occ_app_inside m e x j Hm Hj2 Ho).
Qed.

Definition tail_of (m : list byte) (es : list (list byte)) : list byte := concat (map (fun e => m ++ e) es).

(* end of the current piece e0, seen from its beginning *)
Lemma chain_fend m u e0 es : m <> [] -> chain_ok m e0 es ->
  fend m (u ++ e0 ++ tail_of m es) (length u) = length u + length e0.
Proof.
  intros Hm Hc. unfold fend. replace (length u) with (length u + 0) at 1 by lia.
  rewrite find_app_shift. destruct es as [|e1 t]; simpl in Hc.
  - unfold tail_of. simpl. rewrite app_nil_r, Hc. simpl. rewrite app_length. reflexivity.
  - destruct Hc as [Hc _]. unfold tail_of. simpl. rewrite <- app_assoc.
    rewrite (clean_find m e0 _ Hm Hc). reflexivity.
Qed.

Lemma built_entries m : m <> [] -> forall es u e0, chain_ok m e0 es ->
  entries_spec m (u ++ e0 ++ tail_of m es) (length u) = layout (length m) (length u + length e0) es.
Proof.
  intros Hm. induction es as [|e1 t IH]; intros u e0 Hc.
  - rewrite (entries_unfold _ _ _ Hm). replace (length u) with (length u + 0) at 1 by lia.
    rewrite find_app_shift. simpl in Hc. unfold tail_of. simpl. rewrite app_nil_r, Hc. reflexivity.
  - rewrite (entries_unfold _ _ _ Hm). replace (length u) with (length u + 0) at 1 by lia.
    rewrite find_app_shift. destruct Hc as [Hc Hrest]. unfold tail_of. simpl. rewrite <- app_assoc.
    rewrite (clean_find m e0 _ Hm Hc). simpl.
    pose proof (IH ((u ++ e0) ++ m) e1 Hrest) as IH1.
    pose proof (chain_fend m ((u ++ e0) ++ m) e1 t Hm Hrest) as Hf.
    unfold tail_of in IH1, Hf. rewrite <- !app_assoc in IH1, Hf. rewrite !app_length in IH1, Hf.
    rewrite <- !Nat.add_assoc in IH1, Hf. rewrite <- !Nat.add_assoc.
    rewrite Hf, IH1. reflexivity.
Qed.

Lemma built_slices m : forall es u e0,
  map (slice (u ++ e0 ++ tail_of m es)) (layout (length m) (length u + length e0) es) = es.
Proof.
  induction es as [|e1 t IH]; intros u e0; [reflexivity|].
  simpl. f_equal.
  - unfold slice, tail_of. simpl.
    replace (length u + length e0 + length m + length e1 - (length u + length e0 + length m)) with (length e1) by lia.
    replace (u ++ e0 ++ (m ++ e1) ++ concat (map (fun e => m ++ e) t))
      with (((u ++ e0) ++ m) ++ e1 ++ concat (map (fun e => m ++ e) t)) by (rewrite <- !app_assoc; reflexivity).
    replace (length u + length e0 + length m) with (length ((u ++ e0) ++ m) + 0) by (rewrite !app_length; lia).
    rewrite skipn_app_shift. simpl. rewrite firstn_app, Nat.sub_diag, firstn_all. simpl. apply app_nil_r.
  - specialize (IH ((u ++ e0) ++ m) e1). unfold tail_of in *. simpl.
    rewrite <- !app_assoc in IH. rewrite !app_length in IH.
    rewrite <- !app_assoc. rewrite <- !Nat.add_assoc in *. exact IH.
Qed.

Theorem built_spec m pre es : m <> [] -> chain_ok m pre es ->
  entries_spec m (build m pre es) 0 = layout (length m) (length pre) es /\
  map (slice (build m pre es)) (entries_spec m (build m pre es) 0) = es.
Proof.
  intros Hm Hc. pose proof (built_entries m Hm es [] pre Hc) as H. simpl in H.
  unfold build. fold (tail_of m es). rewrite H. split; [reflexivity|].
  exact (built_slices m es [] pre).
Qed.

(* ------------------------------------------------------------------ *)
(* truncated streams                                                  *)
(* ------------------------------------------------------------------ *)

Lemma find_firstn m s k p : m <> [] -> k <= length s ->
  find m (firstn k s) p =
  match find m s p with
  | Some c => if c + length m <=? k then Some c else None
  | None => None
  end.
Proof.
  intros Hm Hk. pose proof (mlen_pos m Hm) as Hm1.
  assert (W : forall i, occ m (firstn k s) i <-> occ m s i /\ i + length m <= k).
  { intros i. pose proof (occ_window m s 0 k i Hm) as W. unfold read in W. simpl in W.
    rewrite firstn_length in W. rewrite W. rewrite Nat.min_l by lia. reflexivity. }
  apply find_intro. pose proof (find_sound m s p) as F.
  destruct (find m s p) as [c|]; simpl in F.
  - destruct F as (F1 & F2 & F3). destruct (c + length m <=? k) eqn:E; simpl.
    + apply Nat.leb_le in E. split; [exact F1|]. split; [apply W; tauto|].
      intros j Hj1 Hj2 Hj. apply W in Hj. apply (F3 j Hj1 Hj2). tauto.
    + apply Nat.leb_gt in E. intros j Hj Ho. apply W in Ho as [Ho Hb].
      destruct (lt_eq_lt_dec j c) as [[L|L]|L]; [exact (F3 j Hj L Ho)|subst; lia|].
      (* an occurrence after c would end even later *) lia.
  - simpl. intros j Hj Ho. apply W in Ho. apply (F j Hj). tauto.
Qed.

Lemma entries_ge_aux m s : m <> [] ->
  forall n p, length s + 1 - p <= n -> Forall (fun ae => p + length m <= fst ae) (entries_spec m s p).
Proof.
  intros Hm. pose proof (mlen_pos m Hm) as Hm1.
  induction n as [|n IH]; intros p Hn; rewrite (entries_unfold m s p Hm);
    pose proof (find_sound m s p) as F; destruct (find m s p) as [c|] eqn:E; simpl in F;
    try (constructor; fail).
  - destruct F as (F1 & Fo & _). pose proof (occ_bound _ _ _ Hm Fo). lia.
  - destruct F as (F1 & Fo & _). pose proof (occ_bound _ _ _ Hm Fo) as Fb.
    constructor; [simpl; lia|].
    eapply Forall_impl; [|apply (IH (c + length m)); lia]. simpl. intros ae H. lia.
Qed.

Lemma prefix_stable_aux m s k : m <> [] -> k <= length s ->
  forall n p, length s + 1 - p <= n ->
  entries_spec m (firstn k s) p = clip_entries (length m) k (entries_spec m s p).
Proof.
  intros Hm Hk. pose proof (mlen_pos m Hm) as Hm1.
  induction n as [|n IH]; intros p Hn;
    rewrite (entries_unfold m (firstn k s) p Hm), (entries_unfold m s p Hm), (find_firstn m s k p Hm Hk);
    pose proof (find_sound m s p) as F; destruct (find m s p) as [c|] eqn:E; simpl in F;
    try reflexivity.
  - destruct F as (F1 & Fo & _). pose proof (occ_bound _ _ _ Hm Fo). lia.
  - destruct F as (F1 & Fo & _). pose proof (occ_bound _ _ _ Hm Fo) as Fb.
    unfold clip_entries. simpl. destruct (c + length m <=? k) eqn:Ec.
    + simpl. f_equal.
      * f_equal. unfold fend. rewrite (find_firstn m s k _ Hm Hk), firstn_length, Nat.min_l by lia.
        pose proof (find_sound m s (c + length m)) as G.
        destruct (find m s (c + length m)) as [e|]; simpl in G.
        -- destruct (e + length m <=? k); reflexivity.
        -- destruct (length s + length m <=? k) eqn:E2; [apply Nat.leb_le in E2; lia|reflexivity].
      * apply IH. lia.
    + apply Nat.leb_gt in Ec.
      pose proof (entries_ge_aux m s Hm (length s + 1) (c + length m) ltac:(lia)) as G.
      induction G as [|ae l Hae _ IHl]; [reflexivity|].
      simpl. destruct (fst ae <=? k) eqn:E3; [apply Nat.leb_le in E3; lia|exact IHl].
Qed.

Theorem prefix_stable m s k p : m <> [] -> k <= length s ->
  entries_spec m (firstn k s) p = clip_entries (length m) k (entries_spec m s p).
Proof. intros Hm Hk. apply (prefix_stable_aux m s k Hm Hk (length s + 1 - p)). lia. Qed.

(* an entry whose end marker lies wholly before the cut is reported unchanged *)
Corollary prefix_stable_entry m s k p a e : m <> [] -> k <= length s ->
  In (a, e) (entries_spec m s p) -> e + length m <= k -> In (a, e) (entries_spec m (firstn k s) p).
Proof.
  intros Hm Hk Hin He. rewrite (prefix_stable m s k p Hm Hk). unfold clip_entries.
  apply in_map_iff. exists (a, e). simpl. split.
  - apply Nat.leb_le in He. rewrite He. reflexivity.
  - apply filter_In. split; [exact Hin|]. simpl. apply Nat.leb_le.
    pose proof (entries_exact m s p Hm) as X.
    assert (G : forall l q, exact_split m s q l -> In (a, e) l -> a <= e).
    { clear. intros l q X. induction X as [|q c e' rest ? ? ? Hce ? ? ? IH]; intros Hin; [destruct Hin|].
      destruct Hin as [Heq|Hin]; [injection Heq as <- <-; exact Hce|exact (IH Hin)]. }
    specialize (G _ _ X Hin). lia.
Qed.

(* ------------------------------------------------------------------ *)
(* changing the bytes of one entry                                    *)
(* ------------------------------------------------------------------ *)

Lemma layout_lengths mlen : forall es es' off,
  map (@length byte) es = map (@length byte) es' -> layout mlen off es = layout mlen off es'.
Proof.
  induction es as [|e t IH]; intros [|e' t'] off H; try discriminate; [reflexivity|].
  simpl in *. injection H as H1 H2. rewrite H1. f_equal. apply IH. exact H2.
Qed.

Theorem local_spec m pre es1 e e' es2 : m <> [] ->
  chain_ok m pre (es1 ++ e :: es2) -> chain_ok m pre (es1 ++ e' :: es2) -> length e' = length e ->
  entries_spec m (build m pre (es1 ++ e' :: es2)) 0 = entries_spec m (build m pre (es1 ++ e :: es2)) 0 /\
  map (slice (build m pre (es1 ++ e :: es2))) (entries_spec m (build m pre (es1 ++ e :: es2)) 0) = es1 ++ e :: es2 /\
  map (slice (build m pre (es1 ++ e' :: es2))) (entries_spec m (build m pre (es1 ++ e' :: es2)) 0) = es1 ++ e' :: es2.
Proof.
  intros Hm H1 H2 HL.
  destruct (built_spec m pre _ Hm H1) as [A1 B1]. destruct (built_spec m pre _ Hm H2) as [A2 B2].
  split; [|split; assumption]. rewrite A1, A2. apply layout_lengths.
  rewrite !map_app. simpl. rewrite HL. reflexivity.
Qed.

(* ------------------------------------------------------------------ *)
(* markers without proper self-overlap                                *)
(* ------------------------------------------------------------------ *)

Lemma app_prefix (a m r1 r2 : list byte) : a ++ r1 = m ++ r2 -> length a <= length m -> prefixb a m = true.
Proof.
  revert m. induction a as [|x a IH]; intros m H HL; [reflexivity|].
  destruct m as [|y m]; [simpl in HL; lia|]. simpl in *. injection H as -> H.
  destruct (byte_eqb_spec y y); [|congruence]. simpl. apply (IH m H). lia.
Qed.

Lemma border_free_no_overlap m s i j : border_free m = true ->
  occ m s i -> occ m s j -> i < j -> i + length m <= j.
Proof.
  intros Hb [Hi Oi] [Hj Oj] Hij. destruct (le_lt_dec (i + length m) j) as [|Hlt]; [assumption|exfalso].
  apply prefixb_spec in Oi as [r1 E1]. apply prefixb_spec in Oj as [r2 E2].
  assert (E : skipn j s = skipn (j - i) m ++ r1).
  { replace j with ((j - i) + i) at 1 by lia. rewrite <- skipn_skipn, E1, skipn_app.
    replace (j - i - length m) with 0 by lia. reflexivity. }
  rewrite E2 in E. symmetry in E. apply app_prefix in E; [|rewrite skipn_length; lia].
  unfold border_free in Hb. rewrite forallb_forall in Hb.
  specialize (Hb (j - i)). rewrite E in Hb. simpl in Hb.
  assert (In (j - i) (seq 1 (length m - 1))) as Hin by (apply in_seq; lia).
  specialize (Hb Hin). discriminate.
Qed.

(* then every marker occurrence from p on begins an entry *)
Lemma border_free_all_aux m s : m <> [] -> border_free m = true ->
  forall p l, exact_split m s p l -> forall j, p <= j -> occ m s j -> In (j + length m) (map fst l).
Proof.
  intros Hm Hb p l X. induction X as [p Hno | p c e rest Hpc Ho Hbefore Hce Hin Hend Hrest IH]; intros j Hj Hoj.
  - exfalso. exact (Hno j Hj Hoj).
  - simpl. destruct (lt_eq_lt_dec j c) as [[L|L]|L].
    + exfalso. exact (Hbefore j Hj L Hoj).
    + left. subst. reflexivity.
    + right. pose proof (border_free_no_overlap m s c j Hb Ho Hoj L) as Hcj.
      destruct (le_lt_dec e j) as [Hej|Hje]; [exact (IH j Hej Hoj)|].
      exfalso. exact (Hin j Hcj Hje Hoj).
Qed.

Theorem border_free_all m s p j : m <> [] -> border_free m = true ->
  p <= j -> occ m s j -> In (j + length m) (map fst (entries_spec m s p)).
Proof.
  intros Hm Hb. exact (border_free_all_aux m s Hm Hb p _ (entries_exact m s p Hm) j).
Qed.
