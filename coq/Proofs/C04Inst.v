(* C04 at tool level, for an ARBITRARY ecc file (any bytes: damaged markers, fields, tracks, truncated, ...) and an arbitrary
   tree: whatever a correction run leaves in the output folder is the per-block stage's output for a file that exists under the
   root at that relative path, hence (Pipeline: hdr_file_ok / sa_file_ok) conservative block by block and of the input's length;
   and a run in which some processed file was not repaired completely exits with status 1.
   Stream side: generic in the block stage; then instantiated with the Pipeline model through C03Inst.blocksH_pipe / blocksW_pipe. *)
From Coq Require Import List Arith Bool ZArith NArith Lia.
From Coq Require Import Strings.Byte.
From PFF Require Import Bytes Stream Proofs.StreamP.
From PFF Require Pipeline Proofs.PipelineP Proofs.PipelineClean Proofs.CodecInst Proofs.C03Inst.
Import ListNotations.

(* ---------- counters: corrupted >= repaired completely, strictly when some file was not repaired completely ---------- *)
Definition not_full (r : eres) : Prop := exists p st out, r = EFile p (BCorrupt st out) /\ st <> RFull.

Lemma steps_counters : forall rs c o c' o', steps (c, o) rs = Some (c', o') -> n_full c <= n_corr c ->
  n_full c' <= n_corr c' /\ ((n_full c < n_corr c \/ Exists not_full rs) -> n_full c' < n_corr c').
Proof.
  induction rs as [|r rs IH]; intros c o c' o' H L; cbn [steps] in H.
  - inversion H; subst. split; [exact L|]. intros [X|X]; [exact X|inversion X].
  - destruct (step (c, o) r) as [[c1 o1]|] eqn:E; [|discriminate].
    assert (S1 : n_full c1 <= n_corr c1 /\ ((n_full c < n_corr c \/ not_full r) -> n_full c1 < n_corr c1)).
    { destruct r as [w|p [|st out|]]; cbn [step] in E; try discriminate; inversion E; subst; cbn [n_full n_corr].
      - split; [exact L|]. intros [X|(p' & st' & out' & X & _)]; [exact X|discriminate].
      - split; [exact L|]. intros [X|(p' & st' & out' & X & _)]; [exact X|discriminate].
      - destruct st; cbn [n_full n_corr]; (split; [lia|]); intros [X|(p' & st' & out' & X & NF)]; try lia.
        inversion X; subst. congruence. }
    destruct S1 as [L1 S1]. destruct (IH _ _ _ _ H L1) as [L2 S2]. split; [exact L2|].
    intros [X|X]; apply S2.
    + left. apply S1. left. exact X.
    + inversion X as [? ? Hr|? ? Hrs]; subst; [left; apply S1; right; exact Hr|right; exact Hrs].
Qed.

Lemma exit_of_1 c : n_full c < n_corr c -> exit_of c = 1.
Proof.
  intros H. unfold exit_of.
  destruct (n_corr c =? 0) eqn:A; [apply Nat.eqb_eq in A; lia|].
  destruct (n_full c =? n_corr c) eqn:B; [apply Nat.eqb_eq in B; lia|]. reflexivity.
Qed.

Theorem finish_exit_1 rs c outs ex :
  finish (steps (c0, []) rs) = Done c outs ex -> Exists not_full rs -> ex = 1.
Proof.
  unfold finish. destruct (steps (c0, []) rs) as [[c' o']|] eqn:E; [|discriminate].
  intros H X. inversion H; subst. apply exit_of_1.
  apply (proj2 (steps_counters _ _ _ _ _ E (Nat.le_refl _))). right. exact X.
Qed.

Section Writes2.
  Variables marker delim : list byte.
  Variable ignore_size : bool.
  Variable look : list byte -> option (list byte).
  Variable intra : list byte -> list byte -> list byte.
  Variable blocksH : list byte -> Z -> list byte -> bres.
  Variable window : nat.
  Variable blocksW : list byte -> nat -> nat -> Z -> list byte -> bres * nat.

  Lemma entry_h_blocks text p x : entry_h delim ignore_size look intra blocksH text = EFile p x ->
    exists file tr sz, look p = Some file /\ x = blocksH tr sz file.
  Proof.
    unfold entry_h. destruct (meta _ _ _ _) as [w|[[path sz] file]] eqn:M; [discriminate|].
    intros H. inversion H; subst. exists file, (f_track (get_fields delim text)), sz.
    split; [exact (proj1 (meta_file _ _ _ _ _ _ _ M))|reflexivity].
  Qed.

  Lemma entry_w_blocks db s e p x : fst (fst (entry_w delim ignore_size look intra window blocksW db s e)) = EFile p x ->
    exists file t sz, look p = Some file /\ x = fst (blocksW db t e sz file).
  Proof.
    unfold entry_w. destruct (meta _ _ _ _) as [w|[[path sz] file]] eqn:M; [discriminate|].
    destruct (blocksW _ _ _ _ _) as [b cur] eqn:B. cbn [fst]. intros H. inversion H; subst.
    eexists file, _, sz. split; [exact (proj1 (meta_file _ _ _ _ _ _ _ M))|]. rewrite B. reflexivity.
  Qed.

  (* every file left in the output folder is what the block stage returned for an existing input file *)
  Theorem outputs_h db c outs ex p b :
    run_h marker delim ignore_size look intra blocksH db = Done c outs ex -> In (p, b) outs ->
    exists file tr sz st, look p = Some file /\ blocksH tr sz file = BCorrupt st (Some b).
  Proof.
    unfold run_h, finish. destruct (steps _ _) as [[c' o']|] eqn:E; [|discriminate].
    intros H Hin. inversion H; subst.
    destruct (steps_outputs _ _ _ _ _ E p b Hin) as [[]|[st H1]].
    fold (results_h marker delim ignore_size look intra blocksH db) in H1. rewrite results_h_spec in H1.
    apply in_map_iff in H1 as (se & H1 & _).
    destruct (entry_h_blocks _ _ _ H1) as (file & tr & sz & L & X). exists file, tr, sz, st. split; [exact L|symmetry; exact X].
  Qed.

  Theorem outputs_w db c outs ex p b :
    run_w marker delim ignore_size look intra window blocksW db = Done c outs ex -> In (p, b) outs ->
    exists file t e sz st, look p = Some file /\ fst (blocksW db t e sz file) = BCorrupt st (Some b).
  Proof.
    unfold run_w, finish. destruct (steps _ _) as [[c' o']|] eqn:E; [|discriminate].
    intros H Hin. inversion H; subst.
    destruct (steps_outputs _ _ _ _ _ E p b Hin) as [[]|[st H1]].
    fold (results_w marker delim ignore_size look intra window blocksW db) in H1. rewrite results_w_spec in H1.
    apply in_map_iff in H1 as (se & H1 & _).
    destruct (entry_w_blocks _ _ _ _ _ H1) as (file & t & sz & L & X). exists file, t, (snd se), sz, st. split; [exact L|symmetry; exact X].
  Qed.

  (* a processed file that was not repaired completely makes the run exit with status 1 *)
  Theorem exit_h db c outs ex :
    run_h marker delim ignore_size look intra blocksH db = Done c outs ex ->
    Exists not_full (results_h marker delim ignore_size look intra blocksH db) -> ex = 1.
  Proof. unfold run_h. apply finish_exit_1. Qed.

  Theorem exit_w db c outs ex :
    run_w marker delim ignore_size look intra window blocksW db = Done c outs ex ->
    Exists not_full (results_w marker delim ignore_size look intra window blocksW db) -> ex = 1.
  Proof. unfold run_w. apply finish_exit_1. Qed.
End Writes2.

(* ---------- with the Pipeline model as the block stage, over the verified facade of any codec ---------- *)
Section Inst.
  Variable algo : N.
  Variable mb : nat.
  Variable hash : list byte -> list byte.
  Variable hlen : nat.
  Variable bdec : nat -> option byte -> list byte -> list byte -> option (list byte * list byte).   (* ANY decoder *)
  Variable o : option byte.
  Variable fast : bool.
  Notation pchk := (CodecInst.pchk algo mb).

  Lemma bres_of_out r st b : PipelineClean.bres_of r = BCorrupt st (Some b) -> Pipeline.f_out r = Some b.
  Proof. unfold PipelineClean.bres_of. destruct (Pipeline.f_class r); intros H; inversion H; reflexivity. Qed.

  Lemma bres_of_not_full r : Pipeline.f_class r = Pipeline.Partial \/ Pipeline.f_class r = Pipeline.NotAtAll ->
    exists st out, PipelineClean.bres_of r = BCorrupt st out /\ st <> RFull.
  Proof.
    unfold PipelineClean.bres_of. intros [-> | ->]; [exists RPartial|exists RNone]; eexists; (split; [reflexivity|discriminate]).
  Qed.

  (* a decoder that returns a message of the length it was given (true of ECCMan.decode: it strips exactly the padding it added) *)
  Definition dec_len : Prop := PipelineP.dec_len_hyp (option byte) bdec o.

  Lemma file_ok_len bl file b : dec_len ->
    PipelineP.file_ok (option byte) hash pchk bdec o fast bl
      (fst (Pipeline.blocks_loop (option byte) hash pchk bdec o fast 0 true bl)) file b -> length b = length file.
  Proof.
    intros DL F. apply (PipelineP.file_ok_length _ _ _ _ _ _ _ _ _ _ DL F).
    apply PipelineP.loop_lengths. exact DL.
  Qed.

  Section Header.
    Variables ms hdr : nat.
    Notation blocksH := (C03Inst.blocksH_pipe algo mb hash hlen bdec o fast ms hdr).

    Theorem tool_outputs_header marker delim ignore_size look intra db c outs ex p b :
      run_h marker delim ignore_size look intra blocksH db = Done c outs ex -> In (p, b) outs ->
      exists file tr recorded, look p = Some file /\
        let bl := Pipeline.hdr_blocks ms mb hlen hdr recorded file tr in
        PipelineP.file_ok (option byte) hash pchk bdec o fast bl
          (fst (Pipeline.blocks_loop (option byte) hash pchk bdec o fast 0 true bl)) file b.
    Proof.
      intros R Hin. destruct (outputs_h _ _ _ _ _ _ _ _ _ _ _ _ R Hin) as (file & tr & sz & st & L & B).
      exists file, tr, (Z.to_nat sz). split; [exact L|].
      unfold C03Inst.blocksH_pipe in B. apply bres_of_out in B.
      exact (proj1 (PipelineP.hdr_file_ok _ _ _ _ _ _ _ _ _ _ _ _ _ _ B)).
    Qed.

    (* a block reported unrepairable ("could not repair block i": verdict Failed) in any processed file => exit status 1 *)
    Theorem tool_exit_header marker delim ignore_size look intra db c outs ex :
      run_h marker delim ignore_size look intra blocksH db = Done c outs ex ->
      forall se p tr z file, In se (entries_spec marker db) ->
        entry_h delim ignore_size look intra blocksH (sub db (fst se) (snd se)) = EFile p (blocksH tr z file) ->
        In Pipeline.Failed (Pipeline.f_verdicts (Pipeline.hdr_file (option byte) hash pchk bdec o fast ms mb hlen hdr (Z.to_nat z) file tr)) ->
        ex = 1.
    Proof.
      intros R se p tr z file Hse He Hf. apply (exit_h _ _ _ _ _ _ _ _ _ _ R).
      rewrite results_h_spec. apply Exists_exists. eexists. split; [apply in_map; exact Hse|]. cbv beta. rewrite He.
      destruct (bres_of_not_full _ (or_introl (PipelineP.hdr_file_failed_class _ _ _ _ _ _ _ _ _ _ _ _ _ Hf))) as (st & out & E & NF).
      exists p, st, out. split; [|exact NF]. unfold C03Inst.blocksH_pipe. rewrite E. reflexivity.
    Qed.
  End Header.

  Section Whole.
    Variable mu : nat -> nat -> nat.
    Variable window : nat.
    Notation blocksW := (C03Inst.blocksW_pipe algo mb hash hlen bdec o fast mu).

    Theorem tool_outputs_whole marker delim ignore_size look intra db c outs ex p b :
      run_w marker delim ignore_size look intra window blocksW db = Done c outs ex -> In (p, b) outs ->
      exists file t e recorded, look p = Some file /\
        let bl := Pipeline.sa_blocks (mu recorded) mb hlen file (skipn t db) (e - t) in
        PipelineP.file_ok (option byte) hash pchk bdec o fast bl
          (fst (Pipeline.blocks_loop (option byte) hash pchk bdec o fast 0 true bl)) file b.
    Proof.
      intros R Hin. destruct (outputs_w _ _ _ _ _ _ _ _ _ _ _ _ _ R Hin) as (file & t & e & sz & st & L & B).
      exists file, t, e, (Z.to_nat sz). split; [exact L|].
      unfold C03Inst.blocksW_pipe in B. cbn [fst] in B. apply bres_of_out in B.
      exact (proj1 (PipelineP.sa_file_ok _ _ _ _ _ _ _ _ _ _ _ _ _ B)).
    Qed.

    Theorem tool_exit_whole marker delim ignore_size look intra db c outs ex :
      run_w marker delim ignore_size look intra window blocksW db = Done c outs ex ->
      forall se p t e z file, In se (entries_spec marker db) ->
        fst (fst (entry_w delim ignore_size look intra window blocksW db (fst se) (snd se))) = EFile p (fst (blocksW db t e z file)) ->
        In Pipeline.Failed (Pipeline.f_verdicts (Pipeline.sa_file (option byte) hash pchk bdec o fast (mu (Z.to_nat z)) mb hlen file (skipn t db) (e - t))) ->
        ex = 1.
    Proof.
      intros R se p t e z file Hse He Hf. apply (exit_w _ _ _ _ _ _ _ _ _ _ _ R).
      rewrite results_w_spec. apply Exists_exists. eexists. split; [apply in_map; exact Hse|]. cbv beta. rewrite He.
      pose proof (PipelineP.sa_file_failed_class _ _ _ _ _ _ _ _ _ _ _ _ Hf) as C.
      destruct (bres_of_not_full _ C) as (st & out & E & NF).
      exists p, st, out. split; [|exact NF]. unfold C03Inst.blocksW_pipe. cbn [fst]. rewrite E. reflexivity.
    Qed.
  End Whole.
End Inst.
