(* C04's block clause at TOOL level, with the radius spelled out: for an arbitrary ecc file, an arbitrary tree and an ARBITRARY
   third-party decoder `inner` behind the facade wrapper (FacadeDec.fac_decode12 = ECCMan.decode since fix 90b3a68, every codec),
   every block of every file a correction run leaves in the output folder is the input block, or matches the stored hash, or is
   the message of a codeword within the errors-and-erasures radius 2e+f <= mb-k of the received block + stored parity. *)
From Coq Require Import List Arith Bool ZArith NArith Lia.
From Coq Require Import Strings.Byte.
From PFF Require Import Bytes Pipeline Proofs.PipelineP Facade FacadeDec Proofs.FacadeP Proofs.FacadeDecP Proofs.CodecInst.
From PFF Require Stream Proofs.StreamP Proofs.C03Inst Proofs.C04Inst.
Import ListNotations.

Section Radius.
  Variable algo : N.
  Variable mb : nat.
  Hypothesis mb255 : mb <= 255.
  Variable hash : list byte -> list byte.
  Variable inner : nat -> list byte -> list nat -> option (list byte * list byte).      (* the third-party decoder, per k *)
  Hypothesis inner_len : forall k r E mr er_, inner k r E = Some (mr, er_) -> length mr = k /\ length er_ <= mb - k.
  Variable o : option byte.
  Variable fast : bool.

  Definition wdec (k : nat) (o : option byte) (m p : list byte) := fac_decode12 (inner k) mb k 0 o m p.
  Notation pchk := (CodecInst.pchk algo mb).

  Definition geom (b : ablock) : Prop := bk b <= mb /\ length (msg b) <= bk b /\ length (ecc b) <= mb - bk b.
  Definition radius_ok (b : ablock) (c : list byte) : Prop :=
    c = msg b \/ hash c = hsh b \/ pcap mb (bk b) o (msg b, ecc b) (c, penc algo mb (bk b) c).

  Lemma conservative_radius b c : geom b -> conservative (option byte) hash pchk wdec o b c -> radius_ok b c.
  Proof.
    intros (Hk & Lm & Le) [H|[H|(p' & D & K)]]; [left; exact H|right; left; exact H|]. right. right.
    unfold wdec in D.
    destruct (fac_decode12_bounded (inner (bk b)) mb (bk b) 0 o (inner_len (bk b)) (msg b) (ecc b) c p' Lm Le D) as (L1 & L2 & W).
    cbn [eff_k Nat.eqb] in L2, W.
    assert (Ep : p' = penc algo mb (bk b) c).
    { unfold penc. apply (fac_parity_unique (codec_of algo) (codec_field algo) mb (bk b) 0 c p' mb255); cbn [eff_k Nat.eqb]; try assumption; try lia. }
    unfold pcap. cbn [fst snd]. split; [exact L1|]. split; [apply pipe_enc_len|]. split; [exact Le|].
    rewrite <- Ep. exact W.
  Qed.

  Lemma blocks_radius bl res : Forall geom bl -> Forall2 (block_ok (option byte) hash pchk wdec o fast) bl res ->
    Forall2 (fun b r => radius_ok b (fst r)) bl res.
  Proof.
    intros G F. revert G. induction F as [|b r bl res (C & _) F IH]; intros G; constructor.
    - inversion G; subst. apply conservative_radius; assumption.
    - inversion G; subst. apply IH. assumption.
  Qed.

  (* geometry of the assembled blocks *)
  Lemma hdr_asm_geom ms hs : ms <= mb -> forall fuel fh tr, Forall geom (hdr_asm fuel ms hs (mb - ms) fh tr).
  Proof.
    intros Hms. induction fuel as [|fuel IH]; intros fh tr; [constructor|].
    cbn [hdr_asm]. destruct fh as [|x fh]; [constructor|]. destruct tr as [|y tr]; [constructor|].
    constructor; [|apply IH].
    unfold geom. cbn [bk msg ecc]. split; [exact Hms|]. split; [apply firstn_le_length|]. apply firstn_le_length.
  Qed.

  Lemma sa_asm_geom mu hs : (forall c, mu c <= mb) -> forall fuel frest drest trem cur, Forall geom (sa_asm mu mb hs fuel frest drest trem cur).
  Proof.
    intros Hmu. induction fuel as [|fuel IH]; intros frest drest trem cur; [constructor|].
    cbn [sa_asm]. destruct (0 <? trem); [|constructor].
    destruct (firstn (mu cur) frest) as [|y m'] eqn:M; [constructor|]. rewrite <- M.
    constructor; [|apply IH].
    unfold geom. cbn [bk msg ecc]. split; [apply Hmu|]. split; [apply firstn_le_length|].
    rewrite skipn_length. pose proof (firstn_le_length (hs + (mb - mu cur)) drest). lia.
  Qed.

  Section Header.
    Variables hlen ms hdr : nat.
    Hypothesis ms_le : ms <= mb.

    Theorem tool_radius_header marker delim ignore_size look intra db c outs ex p b :
      Stream.run_h marker delim ignore_size look intra (C03Inst.blocksH_pipe algo mb hash hlen wdec o fast ms hdr) db = Stream.Done c outs ex ->
      In (p, b) outs ->
      exists file tr recorded (res : list (list byte * verdict)) rest, look p = Some file /\
        let bl := hdr_blocks ms mb hlen hdr recorded file tr in
        file = concat (map msg bl) ++ rest /\ b = concat (map fst res) ++ rest /\
        Forall2 (fun blk r => radius_ok blk (fst r)) bl res.
    Proof.
      intros R Hin.
      destruct (C04Inst.tool_outputs_header algo mb hash hlen wdec o fast ms hdr marker delim ignore_size look intra db c outs ex p b R Hin)
        as (file & tr & rec & L & rest & E1 & E2 & F).
      exists file, tr, rec. eexists. exists rest. split; [exact L|]. split; [exact E1|]. split; [exact E2|].
      apply blocks_radius; [|exact F]. unfold hdr_blocks. apply hdr_asm_geom. exact ms_le.
    Qed.
  End Header.

  Section Whole.
    Variable hlen : nat.
    Variable mu : nat -> nat -> nat.
    Hypothesis mu_le : forall s c, mu s c <= mb.
    Variable window : nat.

    Theorem tool_radius_whole marker delim ignore_size look intra db c outs ex p b :
      Stream.run_w marker delim ignore_size look intra window (C03Inst.blocksW_pipe algo mb hash hlen wdec o fast mu) db = Stream.Done c outs ex ->
      In (p, b) outs ->
      exists file t e recorded (res : list (list byte * verdict)) rest, look p = Some file /\
        let bl := sa_blocks (mu recorded) mb hlen file (skipn t db) (e - t) in
        file = concat (map msg bl) ++ rest /\ b = concat (map fst res) ++ rest /\
        Forall2 (fun blk r => radius_ok blk (fst r)) bl res.
    Proof.
      intros R Hin.
      destruct (C04Inst.tool_outputs_whole algo mb hash hlen wdec o fast mu window marker delim ignore_size look intra db c outs ex p b R Hin)
        as (file & t & e & rec & L & rest & E1 & E2 & F).
      exists file, t, e, rec. eexists. exists rest. split; [exact L|]. split; [exact E1|]. split; [exact E2|].
      apply blocks_radius; [|exact F]. unfold sa_blocks. apply sa_asm_geom. apply mu_le.
    Qed.
  End Whole.
End Radius.
