(* Proofs/PipelineP.v — lemmas about the per-file pipeline of both ECC tools (model: Pipeline.v). *)
From Coq Require Import List Arith Bool Lia.
From Coq Require Import Strings.Byte.
From PFF Require Import Bytes Pipeline.
Import ListNotations.

(* ------------------------------------------------------------------ *)
(* byte strings                                                        *)
(* ------------------------------------------------------------------ *)
Local Arguments Nat.leb : simpl never.
Local Arguments Nat.ltb : simpl never.

Lemma beqb_spec a b : reflect (a = b) (beqb a b).
Proof.
  revert b. induction a as [|x a IH]; intros [|y b]; simpl; try (constructor; congruence).
  destruct (byte_eqb_spec x y) as [->|N]; simpl.
  - destruct (IH b) as [->|N]; constructor; congruence.
  - constructor. congruence.
Qed.
Lemma beqb_true a b : beqb a b = true <-> a = b.
Proof. destruct (beqb_spec a b); split; congruence. Qed.
Lemma beqb_refl a : beqb a a = true.
Proof. apply beqb_true. reflexivity. Qed.

Lemma app_skipn_length {A} (a r : list A) : skipn (length a) (a ++ r) = r.
Proof. induction a; simpl; auto. Qed.
Lemma firstn_app_length {A} (a r : list A) : firstn (length a) (a ++ r) = a.
Proof. induction a; simpl; congruence. Qed.
Lemma skipn_add {A} n m (l : list A) : skipn n (skipn m l) = skipn (m + n) l.
Proof. revert l. induction m; intros [|x l]; simpl; auto. destruct n; reflexivity. Qed.

(* ------------------------------------------------------------------ *)
(* one block                                                           *)
(* ------------------------------------------------------------------ *)
Section Block.
  Variable opts_t : Type.
  Variable hash : list byte -> list byte.
  Variable chk : nat -> list byte -> list byte -> bool.
  Variable dec : nat -> opts_t -> list byte -> list byte -> option (list byte * list byte).
  Variable o : opts_t.
  Variable fast : bool.

  Notation flag_run := (flag_run hash chk fast).
  Notation repair_run := (repair_run opts_t hash chk dec o).
  Notation block_run := (block_run opts_t hash chk dec o fast).
  Notation block_step := (block_step opts_t hash chk dec o fast).
  Notation blocks_loop := (blocks_loop opts_t hash chk dec o fast).

  (* the flag is exactly the detection condition *)
  Lemma flag_iff b :
    fst (flag_run b) = negb (beqb (hash (msg b)) (hsh b)) || (negb fast && negb (chk (bk b) (msg b) (ecc b))).
  Proof.
    unfold Pipeline.flag_run. destruct (beqb (hash (msg b)) (hsh b)); simpl; [|reflexivity].
    destruct fast; reflexivity.
  Qed.

  (* a committed value: what the property allows *)
  Definition conservative (b : ablock) (c : list byte) : Prop :=
    c = msg b \/ hash c = hsh b \/
    exists p', dec (bk b) o (msg b) (ecc b) = Some (c, p') /\ chk (bk b) c p' = true.

  Lemma repair_cases b :
    (fst (repair_run b) = (msg b, Failed)) \/
    (exists c p' hok eok, fst (repair_run b) = (c, Repaired hok eok) /\
        dec (bk b) o (msg b) (ecc b) = Some (c, p') /\
        hok = beqb (hash c) (hsh b) /\ eok = chk (bk b) c p' /\ hok || eok = true).
  Proof.
    unfold Pipeline.repair_run. destruct (dec (bk b) o (msg b) (ecc b)) as [[m' p']|] eqn:D; [|left; reflexivity].
    simpl. destruct (beqb (hash m') (hsh b) || chk (bk b) m' p') eqn:E.
    - right. exists m', p', (beqb (hash m') (hsh b)), (chk (bk b) m' p'). auto.
    - left. reflexivity.
  Qed.

  Lemma block_step_cases b :
    (block_step b = (msg b, Kept) /\ fst (flag_run b) = false) \/
    (block_step b = (msg b, Failed) /\ fst (flag_run b) = true) \/
    (exists c p' hok eok, block_step b = (c, Repaired hok eok) /\ fst (flag_run b) = true /\
        dec (bk b) o (msg b) (ecc b) = Some (c, p') /\
        hok = beqb (hash c) (hsh b) /\ eok = chk (bk b) c p' /\ hok || eok = true).
  Proof.
    unfold Pipeline.block_step, Pipeline.block_run.
    destruct (flag_run b) as [f q] eqn:F. destruct f.
    - destruct (repair_run b) as [r q'] eqn:R. simpl.
      destruct (repair_cases b) as [H|(c & p' & hok & eok & H & H')]; rewrite R in H; simpl in H; subst r.
      + right. left. auto.
      + right. right. exists c, p', hok, eok. auto.
    - left. auto.
  Qed.

  Lemma block_not_unexamined b : snd (block_step b) <> Unexamined.
  Proof.
    destruct (block_step_cases b) as [[H _]|[[H _]|(c & p' & hok & eok & H & _)]]; rewrite H; simpl; congruence.
  Qed.

  Theorem block_conservative b : conservative b (fst (block_step b)).
  Proof.
    destruct (block_step_cases b) as [[H _]|[[H _]|(c & p' & hok & eok & H & _ & D & -> & -> & E)]]; rewrite H; simpl.
    - left. reflexivity.
    - left. reflexivity.
    - apply orb_true_iff in E. destruct E as [E|E].
      + right. left. apply beqb_true. exact E.
      + right. right. exists p'. auto.
  Qed.

  Theorem block_keeps_matching b :
    fast = true -> hash (msg b) = hsh b -> block_step b = (msg b, Kept).
  Proof.
    intros Hf Hh. destruct (block_step_cases b) as [[H _]|[[_ F]|(c & p' & hok & eok & _ & F & _)]]; [exact H| |];
      rewrite flag_iff, Hh, beqb_refl, Hf in F; discriminate.
  Qed.

  Theorem block_copied_through b :
    is_repaired (snd (block_step b)) = false -> fst (block_step b) = msg b.
  Proof.
    destruct (block_step_cases b) as [[H _]|[[H _]|(c & p' & hok & eok & H & _)]]; rewrite H; simpl; auto. discriminate.
  Qed.

  Theorem block_unflagged_kept b : fst (flag_run b) = false -> block_step b = (msg b, Kept).
  Proof.
    intros F. destruct (block_step_cases b) as [[H _]|[[_ F']|(c & p' & hok & eok & _ & F' & _)]]; congruence.
  Qed.

  Theorem block_flagged_verdict b : is_flagged (snd (block_step b)) = fst (flag_run b).
  Proof.
    destruct (block_step_cases b) as [[H F]|[[H F]|(c & p' & hok & eok & H & F & _)]]; rewrite H, F; reflexivity.
  Qed.

  Definition dec_len_hyp : Prop :=
    forall k m p m' p', dec k o m p = Some (m', p') -> length m' = length m.

  Theorem block_length b : dec_len_hyp -> length (fst (block_step b)) = length (msg b).
  Proof.
    intros DL. destruct (block_step_cases b) as [[H _]|[[H _]|(c & p' & hok & eok & H & _ & D & _)]]; rewrite H; simpl; auto.
    exact (DL _ _ _ _ _ D).
  Qed.

  (* ------------------------------------------------------------------ *)
  (* the loop over the blocks of a file                                  *)
  (* ------------------------------------------------------------------ *)
  Definition unex (b : ablock) : list byte * verdict := (msg b, Unexamined).

  (* the loop examines a prefix of the blocks and leaves the rest untouched *)
  Lemma loop_split bl : forall i e, exists n,
    n <= length bl /\
    fst (blocks_loop i e bl) = map block_step (firstn n bl) ++ map unex (skipn n bl).
  Proof.
    induction bl as [|b t IH]; intros i e; simpl.
    - exists 0. auto.
    - unfold Pipeline.block_step.
      destruct (block_run b) as [[c v] q] eqn:R.
      assert (Hs : block_step b = (c, v)) by (unfold Pipeline.block_step; rewrite R; reflexivity).
      destruct v.
      + destruct (IH (S i) false) as (n & Hn & E). destruct (blocks_loop (S i) false t) as [r q'] eqn:L.
        exists (S n). simpl in *. split; [lia|]. rewrite E. f_equal. rewrite R. reflexivity.
      + destruct (IH (S i) false) as (n & Hn & E). destruct (blocks_loop (S i) false t) as [r q'] eqn:L.
        exists (S n). simpl in *. split; [lia|]. rewrite E. f_equal. rewrite R. reflexivity.
      + destruct (e && (10 <=? i)).
        * exists 1. simpl. split; [lia|]. rewrite R. reflexivity.
        * destruct (IH (S i) e) as (n & Hn & E). destruct (blocks_loop (S i) e t) as [r q'] eqn:L.
          exists (S n). simpl in *. split; [lia|]. rewrite E. f_equal. rewrite R. reflexivity.
      + exfalso. apply (block_not_unexamined b). rewrite Hs. reflexivity.
  Qed.

  (* the break is taken only while no block has been found good or repaired *)
  Lemma loop_break_all_failed bl : forall i e n,
    fst (blocks_loop i e bl) = map block_step (firstn n bl) ++ map unex (skipn n bl) ->
    n < length bl ->
    e = true /\ Forall (fun b => snd (block_step b) = Failed) (firstn n bl).
  Proof.
    induction bl as [|b t IH]; intros i e n E Hn; simpl in *; [lia|].
    destruct (block_run b) as [[c v] q] eqn:R.
    assert (Hs : block_step b = (c, v)) by (unfold Pipeline.block_step; rewrite R; reflexivity).
    assert (NU : v <> Unexamined) by (intro; subst v; apply (block_not_unexamined b); rewrite Hs; reflexivity).
    destruct n as [|n]; simpl in E.
    - (* the first block is left unexamined: impossible *)
      exfalso. destruct v; try congruence;
      try (destruct (blocks_loop (S i) false t); simpl in E; inversion E; congruence).
      destruct (e && (10 <=? i)); [simpl in E; inversion E; congruence|].
      destruct (blocks_loop (S i) e t); simpl in E; inversion E; congruence.
    - assert (Hn' : n < length t) by lia.
      destruct v; try congruence.
      + destruct (blocks_loop (S i) false t) as [r q'] eqn:L. simpl in E. inversion E as [[E1 E2]].
        specialize (IH (S i) false n). rewrite L in IH. destruct (IH E2 Hn') as [X _]. discriminate.
      + destruct (blocks_loop (S i) false t) as [r q'] eqn:L. simpl in E. inversion E as [[E1 E2]].
        specialize (IH (S i) false n). rewrite L in IH. destruct (IH E2 Hn') as [X _]. discriminate.
      + destruct (e && (10 <=? i)) eqn:B.
        * apply andb_true_iff in B. destruct B as [-> _]. simpl in E. inversion E as [[E1 E2]].
          split; [reflexivity|]. constructor; [rewrite Hs; reflexivity|].
          (* the rest is all unexamined: n must be 0 *)
          destruct n as [|n]; [constructor|]. exfalso.
          destruct t as [|b' t']; simpl in *; [lia|]. inversion E2 as [[E3 E4]].
          apply (block_not_unexamined b'). rewrite <- E3. reflexivity.
        * destruct (blocks_loop (S i) e t) as [r q'] eqn:L. simpl in E. inversion E as [[E1 E2]].
          specialize (IH (S i) e n). rewrite L in IH. destruct (IH E2 Hn') as [X Y].
          split; [exact X|]. constructor; [rewrite Hs; reflexivity|exact Y].
  Qed.

  Lemma loop_length bl i e : length (fst (blocks_loop i e bl)) = length bl.
  Proof.
    destruct (loop_split bl i e) as (n & Hn & E). rewrite E, app_length, !map_length, firstn_length, skipn_length. lia.
  Qed.

  (* what every (block, result) pair of the loop satisfies *)
  Definition block_ok (b : ablock) (r : list byte * verdict) : Prop :=
    conservative b (fst r) /\
    (fast = true -> hash (msg b) = hsh b -> fst r = msg b) /\
    (is_repaired (snd r) = false -> fst r = msg b).

  Lemma step_ok b : block_ok b (block_step b).
  Proof.
    split; [apply block_conservative|]. split.
    - intros Hf Hh. rewrite (block_keeps_matching b Hf Hh). reflexivity.
    - apply block_copied_through.
  Qed.
  Lemma unex_ok b : block_ok b (unex b).
  Proof. split; [left; reflexivity|]. split; reflexivity. Qed.

  Lemma Forall2_app_split {A B} (R : A -> B -> Prop) (f g : A -> B) l n :
    (forall a, R a (f a)) -> (forall a, R a (g a)) ->
    Forall2 R l (map f (firstn n l) ++ map g (skipn n l)).
  Proof.
    intros Hf Hg. rewrite <- (firstn_skipn n l) at 1. apply Forall2_app.
    - induction (firstn n l); simpl; constructor; auto.
    - induction (skipn n l); simpl; constructor; auto.
  Qed.

  Theorem loop_ok bl i e : Forall2 block_ok bl (fst (blocks_loop i e bl)).
  Proof.
    destruct (loop_split bl i e) as (n & _ & E). rewrite E.
    apply Forall2_app_split; [apply step_ok|apply unex_ok].
  Qed.

  Theorem loop_lengths bl i e : dec_len_hyp ->
    Forall2 (fun b r => length (fst r) = length (msg b)) bl (fst (blocks_loop i e bl)).
  Proof.
    intros DL. destruct (loop_split bl i e) as (n & _ & E). rewrite E.
    apply Forall2_app_split; [intro; apply block_length; exact DL|reflexivity].
  Qed.

  (* a verdict Failed in the loop's result is a Failed block_step *)
  Lemma loop_failed_in bl i e :
    existsb is_failed (map snd (fst (blocks_loop i e bl))) = true ->
    exists b, In b bl /\ snd (block_step b) = Failed.
  Proof.
    destruct (loop_split bl i e) as (n & _ & E). rewrite E, map_app, existsb_app. intros H.
    apply orb_true_iff in H. destruct H as [H|H].
    - apply existsb_exists in H. destruct H as (v & Hin & Hv). rewrite map_map in Hin.
      apply in_map_iff in Hin. destruct Hin as (b & <- & Hb). exists b. split.
      + rewrite <- (firstn_skipn n bl). apply in_or_app. left. exact Hb.
      + destruct (snd (block_step b)); simpl in Hv; congruence.
    - apply existsb_exists in H. destruct H as (v & Hin & Hv). rewrite map_map in Hin.
      apply in_map_iff in Hin. destruct Hin as (b & <- & _). discriminate.
  Qed.

  (* the sum of what was committed has the length of what was read *)
  Lemma concat_lengths (bl : list ablock) (res : list (list byte * verdict)) :
    Forall2 (fun b r => length (fst r) = length (msg b)) bl res ->
    length (concat (map fst res)) = length (concat (map msg bl)).
  Proof. induction 1; simpl; [reflexivity|]. rewrite !app_length. congruence. Qed.

  (* ------------------------------------------------------------------ *)
  (* assembly: the assembled messages tile a prefix of the input         *)
  (* ------------------------------------------------------------------ *)
  Lemma hdr_asm_prefix fuel ms hs es : forall fh tr,
    exists rest, fh = concat (map msg (hdr_asm fuel ms hs es fh tr)) ++ rest.
  Proof.
    induction fuel as [|f IH]; intros fh tr; simpl; [exists fh; reflexivity|].
    destruct fh as [|x fh]; [exists []; reflexivity|].
    destruct tr as [|y tr]; [exists (x :: fh); reflexivity|].
    destruct (IH (skipn ms (x :: fh)) (skipn (hs + es) (y :: tr))) as (rest & E).
    exists rest. cbn [map concat msg]. rewrite <- app_assoc, <- E. symmetry. apply firstn_skipn.
  Qed.

  Lemma hdr_blocks_prefix ms mb hlen hdr recorded file track :
    exists rest, file = concat (map msg (hdr_blocks ms mb hlen hdr recorded file track)) ++ rest.
  Proof.
    unfold hdr_blocks.
    destruct (hdr_asm_prefix (length (firstn (hdr_want hdr recorded) file)) ms hlen (mb - ms)
                (firstn (hdr_want hdr recorded) file) track) as (rest & E).
    exists (rest ++ skipn (hdr_want hdr recorded) file).
    rewrite app_assoc, <- E. symmetry. apply firstn_skipn.
  Qed.

  Section Whole.
    Variable mu : nat -> nat.
    Variables mb hlen : nat.
    Lemma sa_asm_prefix fuel : forall frest drest trem cur,
      exists rest, frest = concat (map msg (sa_asm mu mb hlen fuel frest drest trem cur)) ++ rest.
    Proof.
      induction fuel as [|f IH]; intros frest drest trem cur; simpl; [exists frest; reflexivity|].
      destruct (0 <? trem); [|exists frest; reflexivity].
      destruct (firstn (mu cur) frest) as [|x m] eqn:M; [exists frest; reflexivity|].
      match goal with |- context [sa_asm mu mb hlen f ?a ?b ?c ?d] => destruct (IH a b c d) as (rest & E) end.
      exists rest. cbn [map concat msg]. rewrite <- app_assoc, <- E, <- M. symmetry. apply firstn_skipn.
    Qed.
  End Whole.

  (* ------------------------------------------------------------------ *)
  (* a whole file: the statement shared by both tools                    *)
  (* ------------------------------------------------------------------ *)
  (* bl tiles a prefix of the input; the output is the committed values in the same places followed
     by the same remainder; every committed value is allowed by block_ok *)
  Definition file_ok (bl : list ablock) (res : list (list byte * verdict)) (file out : list byte) : Prop :=
    exists rest, file = concat (map msg bl) ++ rest /\ out = concat (map fst res) ++ rest /\
                 Forall2 block_ok bl res.

  Theorem file_ok_length bl res file out : dec_len_hyp ->
    file_ok bl res file out ->
    Forall2 (fun b r => length (fst r) = length (msg b)) bl res ->
    length out = length file.
  Proof.
    intros _ (rest & -> & -> & _) L. rewrite !app_length, (concat_lengths _ _ L). reflexivity.
  Qed.

  Theorem hdr_file_ok ms mb hlen hdr recorded file track out :
    f_out (hdr_file opts_t hash chk dec o fast ms mb hlen hdr recorded file track) = Some out ->
    file_ok (hdr_blocks ms mb hlen hdr recorded file track)
            (fst (blocks_loop 0 true (hdr_blocks ms mb hlen hdr recorded file track))) file out /\
    f_verdicts (hdr_file opts_t hash chk dec o fast ms mb hlen hdr recorded file track)
    = map snd (fst (blocks_loop 0 true (hdr_blocks ms mb hlen hdr recorded file track))).
  Proof.
    unfold hdr_file. set (bl := hdr_blocks ms mb hlen hdr recorded file track).
    pose proof (loop_ok bl 0 true) as OK.
    destruct (blocks_loop 0 true bl) as [r q] eqn:L. simpl fst in *.
    destruct (existsb is_flagged (map snd r)) eqn:C; simpl; intros H; [|discriminate].
    inversion H; subst out; clear H. split; [|reflexivity].
    destruct (hdr_blocks_prefix ms mb hlen hdr recorded file track) as (rest & E). fold bl in E.
    exists rest. split; [exact E|]. split; [|exact OK].
    f_equal. rewrite E at 1. apply app_skipn_length.
  Qed.

  Theorem hdr_file_none ms mb hlen hdr recorded file track :
    f_out (hdr_file opts_t hash chk dec o fast ms mb hlen hdr recorded file track) = None ->
    f_class (hdr_file opts_t hash chk dec o fast ms mb hlen hdr recorded file track) = Clean.
  Proof.
    unfold hdr_file. destruct (blocks_loop 0 true _) as [r q].
    destruct (existsb is_flagged (map snd r)); simpl; [discriminate|reflexivity].
  Qed.

  Theorem hdr_file_failed_class ms mb hlen hdr recorded file track :
    In Failed (f_verdicts (hdr_file opts_t hash chk dec o fast ms mb hlen hdr recorded file track)) ->
    f_class (hdr_file opts_t hash chk dec o fast ms mb hlen hdr recorded file track) = Partial.
  Proof.
    unfold hdr_file. destruct (blocks_loop 0 true _) as [r q].
    assert (X : In Failed (map snd r) -> existsb is_failed (map snd r) = true /\ existsb is_flagged (map snd r) = true).
    { intros H. split; apply existsb_exists; exists Failed; auto. }
    destruct (existsb is_flagged (map snd r)) eqn:C; simpl; intros H; destruct (X H) as [X1 X2].
    - rewrite X1. reflexivity.
    - discriminate.
  Qed.

  Section WholeFile.
    Variable mu : nat -> nat.
    Variables mb hlen : nat.
    Notation sa_file := (sa_file opts_t hash chk dec o fast mu mb hlen).
    Notation sa_blocks := (sa_blocks mu mb hlen).

    Lemma processed_split bl n :
      processed (map block_step (firstn n bl) ++ map unex (skipn n bl)) = map block_step (firstn n bl).
    Proof.
      unfold processed. rewrite filter_app.
      assert (A : forall l, filter (fun r : list byte * verdict => match snd r with Unexamined => false | _ => true end)
                                   (map block_step l) = map block_step l).
      { induction l as [|b l IH]; simpl; [reflexivity|].
        pose proof (block_not_unexamined b) as NU. destruct (snd (block_step b)); try congruence; rewrite IH; reflexivity. }
      assert (B : forall l, filter (fun r : list byte * verdict => match snd r with Unexamined => false | _ => true end)
                                   (map unex l) = []).
      { induction l; simpl; auto. }
      rewrite A, B, app_nil_r. reflexivity.
    Qed.

    Lemma concat_map_unex l : concat (map fst (map unex l)) = concat (map msg l).
    Proof. induction l; simpl; congruence. Qed.

    Theorem sa_file_ok file db tlen out :
      f_out (sa_file file db tlen) = Some out ->
      file_ok (sa_blocks file db tlen) (fst (blocks_loop 0 true (sa_blocks file db tlen))) file out /\
      f_verdicts (sa_file file db tlen) = map snd (fst (blocks_loop 0 true (sa_blocks file db tlen))).
    Proof.
      unfold Pipeline.sa_file. set (bl := sa_blocks file db tlen).
      destruct (sa_detect hash chk fast bl) as [det q1]. destruct det; [|discriminate].
      pose proof (loop_ok bl 0 true) as OK.
      destruct (loop_split bl 0 true) as (n & Hn & SP).
      destruct (blocks_loop 0 true bl) as [r q2] eqn:L. simpl fst in *.
      destruct (existsb is_repaired (map snd r)) eqn:C; simpl; intros H; [|discriminate].
      inversion H; subst out; clear H. split; [|reflexivity].
      destruct (sa_asm_prefix mu mb hlen (S (length file)) file db tlen 0) as (rest & E).
      change (sa_asm mu mb hlen (S (length file)) file db tlen 0) with bl in E.
      exists rest. split; [exact E|]. split; [|exact OK].
      rewrite SP, processed_split, map_length, firstn_length, Nat.min_l by exact Hn.
      rewrite map_app, concat_app, concat_map_unex, <- app_assoc. f_equal.
      rewrite E at 1. rewrite <- (firstn_skipn n bl) at 2. rewrite map_app, concat_app, <- app_assoc.
      apply app_skipn_length.
    Qed.

    Theorem sa_file_failed_class file db tlen :
      In Failed (f_verdicts (sa_file file db tlen)) ->
      f_class (sa_file file db tlen) = Partial \/ f_class (sa_file file db tlen) = NotAtAll.
    Proof.
      unfold Pipeline.sa_file.
      destruct (sa_detect hash chk fast (sa_blocks file db tlen)) as [det q1]. destruct det.
      - destruct (blocks_loop 0 true (sa_blocks file db tlen)) as [r q2].
        destruct (existsb is_repaired (map snd r)); simpl; intros H; [|right; reflexivity].
        left. assert (X : existsb is_failed (map snd r) = true) by (apply existsb_exists; exists Failed; auto).
        rewrite X. reflexivity.
      - simpl. intros H. apply in_map_iff in H. destruct H as (x & H & _). discriminate.
    Qed.

    (* when the early break is taken nothing was repaired, so the truncated examination never
       reaches an output file: an output file exists only if every block was examined or ... *)
    Theorem sa_file_break_no_output file db tlen :
      In Unexamined (f_verdicts (sa_file file db tlen)) -> f_out (sa_file file db tlen) = None.
    Proof.
      unfold Pipeline.sa_file. set (bl := sa_blocks file db tlen).
      destruct (sa_detect hash chk fast bl) as [det q1]. destruct det; [|reflexivity].
      destruct (loop_split bl 0 true) as (n & Hn & SP).
      destruct (blocks_loop 0 true bl) as [r q2] eqn:L. simpl in SP.
      destruct (existsb is_repaired (map snd r)) eqn:C; simpl; [|reflexivity].
      intros HU. exfalso.
      assert (Hlt : n < length bl).
      { destruct (Nat.eq_dec n (length bl)) as [->|]; [|lia].
        rewrite SP, firstn_all, skipn_all, app_nil_r, map_map in HU.
        apply in_map_iff in HU. destruct HU as (b & Hb & _). exfalso. apply (block_not_unexamined b). exact Hb. }
      pose proof (loop_break_all_failed bl 0 true n) as BK. rewrite L in BK. destruct (BK SP Hlt) as [_ AF].
      rewrite SP, map_app, existsb_app in C. apply orb_true_iff in C. destruct C as [C|C].
      - apply existsb_exists in C. destruct C as (v & Hin & Hv). rewrite map_map in Hin.
        apply in_map_iff in Hin. destruct Hin as (b & <- & Hb).
        rewrite Forall_forall in AF. rewrite (AF b Hb) in Hv. discriminate.
      - apply existsb_exists in C. destruct C as (v & Hin & Hv). rewrite map_map in Hin.
        apply in_map_iff in Hin. destruct Hin as (b & <- & _). discriminate.
    Qed.
  End WholeFile.
End Block.

(* ------------------------------------------------------------------ *)
(* counters and exit status                                            *)
(* ------------------------------------------------------------------ *)
Definition good_class (k : fclass) : bool := match k with Clean | Complete => true | _ => false end.

Lemma tally_from ks : forall c, c_complete c <= c_corrupted c ->
  let c' := fold_left tally1 ks c in
  c_complete c' <= c_corrupted c' /\
  (c_complete c' = c_corrupted c' <-> c_complete c = c_corrupted c /\ forallb good_class ks = true).
Proof.
  induction ks as [|k ks IH]; intros c Hc; simpl.
  - split; [exact Hc|]. tauto.
  - assert (Hc' : c_complete (tally1 c k) <= c_corrupted (tally1 c k)) by (destruct k; simpl; lia).
    destruct (IH (tally1 c k) Hc') as [A B]. split; [exact A|].
    rewrite B. destruct k; simpl; split; intros [X Y]; split; auto; try lia; try discriminate.
Qed.

Theorem exit_zero_iff ks : exit_status (tally ks) = 0 <-> forallb good_class ks = true.
Proof.
  unfold tally, exit_status.
  destruct (tally_from ks (mkc 0 0 0 0) (Nat.le_refl 0)) as [A B]. simpl in A, B.
  set (c := fold_left tally1 ks (mkc 0 0 0 0)) in *.
  destruct (c_complete c =? c_corrupted c) eqn:E.
  - rewrite orb_true_r. apply Nat.eqb_eq in E. tauto.
  - apply Nat.eqb_neq in E. destruct (c_corrupted c =? 0) eqn:Z.
    + apply Nat.eqb_eq in Z. lia.
    + simpl. split; [discriminate|]. intros H. exfalso. apply E. apply B. auto.
Qed.

Theorem exit_nonzero ks k : In k ks -> k = Partial \/ k = NotAtAll -> exit_status (tally ks) = 1.
Proof.
  intros Hin Hk. destruct (exit_status (tally ks)) as [|[|n]] eqn:E.
  - apply exit_zero_iff in E. rewrite forallb_forall in E. specialize (E k Hin). destruct Hk; subst k; discriminate.
  - reflexivity.
  - unfold exit_status in E. destruct (_ || _); discriminate.
Qed.

Theorem exit_is_0_or_1 ks : exit_status (tally ks) = 0 \/ exit_status (tally ks) = 1.
Proof. unfold exit_status. destruct (_ || _); auto. Qed.

(* the displayed counters are consistent *)
Theorem tally_counts ks :
  let c := tally ks in
  c_processed c = length ks /\
  c_corrupted c = length (filter (fun k => match k with Clean => false | _ => true end) ks) /\
  c_complete c = length (filter (fun k => match k with Complete => true | _ => false end) ks) /\
  c_partial c = length (filter (fun k => match k with Partial => true | _ => false end) ks).
Proof.
  unfold tally.
  assert (G : forall c, let c' := fold_left tally1 ks c in
    c_processed c' = c_processed c + length ks /\
    c_corrupted c' = c_corrupted c + length (filter (fun k => match k with Clean => false | _ => true end) ks) /\
    c_complete c' = c_complete c + length (filter (fun k => match k with Complete => true | _ => false end) ks) /\
    c_partial c' = c_partial c + length (filter (fun k => match k with Partial => true | _ => false end) ks)).
  { induction ks as [|k ks IH]; intros c; simpl; [lia|].
    destruct (IH (tally1 c k)) as (A & B & C & D). rewrite A, B, C, D. destruct k; simpl; lia. }
  apply (G (mkc 0 0 0 0)).
Qed.

(* the input tree is never a result *)
Theorem run_files_inputs s rs : fs_in (fst (run_files s rs)) = fs_in s.
Proof.
  unfold run_files. simpl. revert s. induction rs as [|r rs IH]; intros s; simpl; [reflexivity|].
  rewrite IH. unfold commit_file. destruct (f_out (snd r)); reflexivity.
Qed.

(* ================================================================== *)
(* C01: damage within capacity is repaired exactly                     *)
(* ================================================================== *)
Section Repair.
  Variable opts_t : Type.
  Variable hash : list byte -> list byte.
  Variable chk : nat -> list byte -> list byte -> bool.
  Variable dec : nat -> opts_t -> list byte -> list byte -> option (list byte * list byte).
  Variable enc : nat -> list byte -> list byte.
  Variable o : opts_t.
  Variable fast : bool.
  (* cap k o r c: the received (message, parity) r is within the correction capacity of the
     codeword c under the erasure options o;  wf k m: the block geometry on which the codec
     hypotheses are assumed (e.g. 1 <= |m| <= k < n <= 255) *)
  Variable cap : nat -> opts_t -> list byte * list byte -> list byte * list byte -> Prop.
  Variable wf : nat -> list byte -> Prop.

  Definition chk_enc_hyp : Prop := forall k m, wf k m -> chk k m (enc k m) = true.
  Definition dec_complete_hyp : Prop := forall k m p m0,
    wf k m0 -> cap k o (m, p) (m0, enc k m0) ->
    exists c, dec k o m p = Some c /\ chk k (fst c) (snd c) = true /\ cap k o (m, p) c.
  Definition code_dist_hyp : Prop := forall k r m0 c,
    wf k m0 -> cap k o r (m0, enc k m0) -> cap k o r c -> chk k (fst c) (snd c) = true ->
    c = (m0, enc k m0).

  Hypothesis chk_enc : chk_enc_hyp.
  Hypothesis dec_complete : dec_complete_hyp.
  Hypothesis code_dist : code_dist_hyp.

  Notation flag_run := (flag_run hash chk fast).
  Notation block_step := (block_step opts_t hash chk dec o fast).
  Notation blocks_loop := (blocks_loop opts_t hash chk dec o fast).

  (* a received block b against the original message m0 whose parity was stored *)
  Definition recv_ok (m0 : list byte) (b : ablock) : Prop :=
    wf (bk b) m0 /\
    cap (bk b) o (msg b, ecc b) (m0, enc (bk b) m0) /\
    (hash (msg b) = hsh b -> msg b = m0).

  Theorem block_repaired m0 b : recv_ok m0 b ->
    fst (block_step b) = m0 /\ is_failed (snd (block_step b)) = false /\
    snd (block_step b) <> Unexamined /\
    (msg b <> m0 -> is_repaired (snd (block_step b)) = true).
  Proof.
    intros (W & C & NC).
    destruct (block_step_cases opts_t hash chk dec o fast b)
      as [[H F]|[[H F]|(c & p' & hok & eok & H & F & D & Eh & Ee & E)]]; rewrite H; simpl.
    - (* kept: the hash matched *)
      rewrite flag_iff in F. apply orb_false_iff in F. destruct F as [F _].
      apply negb_false_iff, beqb_true in F. specialize (NC F).
      repeat split; auto; try congruence.
    - (* failed: impossible *)
      exfalso. unfold Pipeline.block_step, Pipeline.block_run in H.
      destruct (flag_run b) as [f q]. simpl in F. subst f.
      unfold Pipeline.repair_run in H.
      destruct (dec_complete _ _ _ _ W C) as (c & D & K & CC).
      rewrite D in H. destruct c as [m' p']. simpl in K.
      pose proof (code_dist _ _ _ _ W C CC K) as U. inversion U; subst m' p'.
      rewrite (chk_enc _ _ W), orb_true_r in H. simpl in H. inversion H.
    - destruct (dec_complete _ _ _ _ W C) as (c' & D' & K & CC).
      rewrite D in D'. inversion D'; subst c'. simpl in K.
      pose proof (code_dist _ _ _ _ W C CC K) as U. inversion U; subst c p'.
      repeat split; auto; congruence.
  Qed.

  (* lists of blocks *)
  Lemma loop_all_repaired : forall bl0 bl i e, Forall2 recv_ok bl0 bl ->
    map fst (fst (blocks_loop i e bl)) = bl0 /\
    existsb is_failed (map snd (fst (blocks_loop i e bl))) = false /\
    ~ In Unexamined (map snd (fst (blocks_loop i e bl))) /\
    (map msg bl <> bl0 -> existsb is_repaired (map snd (fst (blocks_loop i e bl))) = true) /\
    existsb is_flagged (map snd (fst (blocks_loop i e bl))) = existsb (fun b => fst (flag_run b)) bl.
  Proof.
    intros bl0 bl i e F. revert i e. induction F as [|m0 b bl0 bl R F IH]; intros i e.
    - simpl. repeat split; auto.
    - destruct (block_repaired m0 b R) as (A & B & NU & D).
      pose proof (block_flagged_verdict opts_t hash chk dec o fast b) as FV.
      simpl. unfold Pipeline.block_step in A, B, NU, D, FV.
      destruct (block_run opts_t hash chk dec o fast b) as [[c v] q]. simpl in A, B, NU, D, FV. subst c.
      destruct v; try discriminate; try congruence.
      + destruct (IH (S i) false) as (I1 & I2 & I3 & I4 & I5).
        destruct (blocks_loop (S i) false bl) as [r q']. simpl in *.
        repeat split; try congruence.
        * intros [X|X]; [discriminate|auto].
        * intros N. apply I4. intros X. apply N. f_equal; auto.
          destruct (beqb_spec (msg b) m0) as [|n]; auto. specialize (D n). discriminate.
        * rewrite <- FV, I5. reflexivity.
      + destruct (IH (S i) false) as (I1 & I2 & I3 & I4 & I5).
        destruct (blocks_loop (S i) false bl) as [r q']. simpl in *.
        repeat split; try congruence.
        * intros [X|X]; [discriminate|auto].
        * rewrite <- FV. reflexivity.
  Qed.
End Repair.

(* ------------------------------------------------------------------ *)
(* shape of a block list, generation, exact re-assembly                *)
(* ------------------------------------------------------------------ *)
Section Shape.
  Variable mu : nat -> nat.
  Variables mb hlen : nat.

  (* blocks laid out from file offset cur on: geometry mu(offset), every block full except
     possibly the last, which is non-empty; hash and parity fields of the stored lengths *)
  Fixpoint shaped (cur : nat) (bl : list ablock) : Prop :=
    match bl with
    | [] => True
    | b :: t => bk b = mu cur /\ 1 <= length (msg b) <= mu cur /\ (t <> [] -> length (msg b) = mu cur) /\
                length (hsh b) = hlen /\ length (ecc b) = mb - mu cur /\
                shaped (cur + length (msg b)) t
    end.

  Definition same_geom (b0 b : ablock) : Prop :=
    bk b = bk b0 /\ length (msg b) = length (msg b0) /\ length (hsh b) = length (hsh b0) /\
    length (ecc b) = length (ecc b0).

  Lemma shaped_transfer : forall bl0 bl cur, Forall2 same_geom bl0 bl -> shaped cur bl0 -> shaped cur bl.
  Proof.
    intros bl0 bl cur F. revert cur.
    induction F as [|b0 b bl0 bl (G1 & G2 & G3 & G4) F IH]; intros cur; simpl; auto.
    intros (S1 & S2 & S3 & S4 & S5 & S6). rewrite G1, G2, G3, G4.
    repeat split; auto; try lia.
    intros N. apply S3. intros ->. inversion F. congruence.
  Qed.

  Lemma firstn_full {A} n (a r : list A) : length a = n \/ (r = [] /\ length a <= n) -> firstn n (a ++ r) = a.
  Proof.
    intros [<-|[-> H]]; [apply firstn_app_length|]. rewrite app_nil_r. apply firstn_all2. exact H.
  Qed.
  Lemma skipn_full {A} n (a r : list A) : length a = n \/ (r = [] /\ length a <= n) -> skipn n (a ++ r) = r.
  Proof.
    intros [<-|[-> H]]; [apply app_skipn_length|]. rewrite app_nil_r. apply skipn_all2. exact H.
  Qed.
  Lemma concat_nil_shaped cur t : shaped cur t -> concat (map msg t) = [] -> t = [].
  Proof.
    destruct t as [|b t]; simpl; auto. intros (_ & L & _) E. apply app_eq_nil in E. destruct E as [E _].
    rewrite E in L. simpl in L. lia.
  Qed.

  Hypothesis track_pos : forall c, 1 <= hlen + (mb - mu c).

  (* stream_entry_assemble recovers exactly the blocks from the file and the stored track,
     whatever follows the track in the ecc file *)
  Lemma sa_asm_exact : forall bl cur fuel junk,
    shaped cur bl -> length bl <= fuel ->
    sa_asm mu mb hlen fuel (concat (map msg bl)) (track_of bl ++ junk) (length (track_of bl)) cur = bl.
  Proof.
    induction bl as [|b t IH]; intros cur fuel junk S Hf.
    - destruct fuel; reflexivity.
    - destruct fuel as [|fuel]; [simpl in Hf; lia|].
      destruct S as (S1 & S2 & S3 & S4 & S5 & S6).
      assert (Full : length (msg b) = mu cur \/ (concat (map msg t) = [] /\ length (msg b) <= mu cur)).
      { destruct t as [|b' t']; [right; simpl; split; [reflexivity|lia]|left; apply S3; discriminate]. }
      unfold track_of in *. cbn [map concat sa_asm].
      rewrite app_length. rewrite app_length, S4, S5.
      pose proof (track_pos cur) as TP.
      replace (0 <? hlen + (mb - mu cur) + length (concat (map (fun b0 => hsh b0 ++ ecc b0) t))) with true
        by (symmetry; apply Nat.ltb_lt; lia).
      rewrite (firstn_full _ _ _ Full), (skipn_full _ _ _ Full).
      destruct (msg b) as [|x m] eqn:M; [simpl in S2; lia|]. rewrite <- M in S2, S3, S6, Full |- *.
      assert (L1 : length (hsh b ++ ecc b) = hlen + (mb - mu cur)) by (rewrite app_length; lia).
      set (X := concat (map (fun b0 => hsh b0 ++ ecc b0) t)) in *.
      rewrite <- (app_assoc (hsh b ++ ecc b) X junk).
      assert (B1 : firstn (hlen + (mb - mu cur)) ((hsh b ++ ecc b) ++ X ++ junk) = hsh b ++ ecc b)
        by (rewrite <- L1; apply firstn_app_length).
      assert (B2 : skipn (hlen + (mb - mu cur)) ((hsh b ++ ecc b) ++ X ++ junk) = X ++ junk)
        by (rewrite <- L1; apply app_skipn_length).
      assert (B3 : firstn hlen (hsh b ++ ecc b) = hsh b) by (rewrite <- S4; apply firstn_app_length).
      assert (B4 : skipn hlen (hsh b ++ ecc b) = ecc b) by (rewrite <- S4; apply app_skipn_length).
      rewrite !B1, B2, B3, B4, L1.
      replace (hlen + (mb - mu cur) + length X - (hlen + (mb - mu cur))) with (length X) by lia.
      rewrite IH; [|exact S6|simpl in Hf; lia].
      rewrite <- S1. destruct b; reflexivity.
  Qed.

  (* generation *)
  Variable hash : list byte -> list byte.
  Variable enc : nat -> list byte -> list byte.
  Hypothesis hash_len : forall m, length (hash m) = hlen.
  Hypothesis mu_pos : forall c, 1 <= mu c.

  Definition stored_ok (b : ablock) : Prop := hsh b = hash (msg b) /\ ecc b = enc (bk b) (msg b).

  Lemma sa_gen_step fuel frest cur : frest <> [] ->
    sa_gen_blocks hash mu enc (S fuel) frest cur =
    mkb (mu cur) (firstn (mu cur) frest) (hash (firstn (mu cur) frest)) (enc (mu cur) (firstn (mu cur) frest))
    :: sa_gen_blocks hash mu enc fuel (skipn (mu cur) frest) (cur + length (firstn (mu cur) frest)).
  Proof. destruct frest; [congruence|reflexivity]. Qed.

  Lemma sa_gen_spec : forall fuel frest cur,
    (forall k m, length (enc k m) = mb - k) -> length frest <= fuel ->
    concat (map msg (sa_gen_blocks hash mu enc fuel frest cur)) = frest /\
    shaped cur (sa_gen_blocks hash mu enc fuel frest cur) /\
    Forall stored_ok (sa_gen_blocks hash mu enc fuel frest cur).
  Proof.
    intros fuel frest cur enc_len. revert frest cur.
    induction fuel as [|fuel IH]; intros frest cur Hf.
    - destruct frest; [simpl; auto|simpl in Hf; lia].
    - destruct (list_eq_dec (fun a b : byte => match byte_eqb_spec a b with ReflectT _ e => left e | ReflectF _ n => right n end)
                  frest []) as [->|NE]; [simpl; auto|].
      rewrite (sa_gen_step _ _ _ NE).
      pose proof (mu_pos cur) as MP.
      assert (LF : 1 <= length frest) by (destruct frest; [congruence|simpl; lia]).
      assert (L : length (skipn (mu cur) frest) <= fuel) by (rewrite skipn_length; lia).
      destruct (IH (skipn (mu cur) frest) (cur + length (firstn (mu cur) frest)) L) as (A & B & C).
      cbn [map concat msg]. rewrite A, firstn_skipn. split; [reflexivity|]. split.
      + cbn [shaped bk msg hsh ecc]. rewrite hash_len, enc_len, firstn_length. rewrite firstn_length in B.
        repeat split; auto; try lia.
        intros N. destruct (Nat.le_gt_cases (mu cur) (length frest)) as [X|X]; [lia|].
        exfalso. apply N. rewrite skipn_all2 by lia. destruct fuel; reflexivity.
      + constructor; [split; reflexivity|exact C].
  Qed.

  (* the header tool generates with the constant geometry *)
  Lemma hdr_gen_is_sa_gen ms : forall fuel buf cur,
    hdr_gen_blocks hash enc fuel ms buf = sa_gen_blocks hash (fun _ => ms) enc fuel buf cur.
  Proof.
    induction fuel as [|fuel IH]; intros buf cur; simpl; [reflexivity|].
    destruct buf; [reflexivity|]. f_equal. apply IH.
  Qed.
End Shape.

(* entry_assemble recovers exactly the blocks of constant geometry from the header and the track *)
Lemma hdr_asm_exact ms mb hlen : 1 <= hlen + (mb - ms) -> forall bl cur fuel,
  shaped (fun _ => ms) mb hlen cur bl -> length bl <= fuel ->
  hdr_asm fuel ms hlen (mb - ms) (concat (map msg bl)) (track_of bl) = bl.
Proof.
  intros TP. induction bl as [|b t IH]; intros cur fuel S Hf.
  - destruct fuel; reflexivity.
  - destruct fuel as [|fuel]; [simpl in Hf; lia|].
    destruct S as (S1 & S2 & S3 & S4 & S5 & S6).
    assert (Full : length (msg b) = ms \/ (concat (map msg t) = [] /\ length (msg b) <= ms)).
    { destruct t as [|b' t']; [right; simpl; split; [reflexivity|lia]|left; apply S3; discriminate]. }
    unfold track_of in *. cbn [map concat hdr_asm].
    destruct (msg b ++ concat (map msg t)) as [|x fh] eqn:FH.
    { apply app_eq_nil in FH. destruct FH as [FH _]. rewrite FH in S2. simpl in S2. lia. }
    destruct ((hsh b ++ ecc b) ++ concat (map (fun b0 => hsh b0 ++ ecc b0) t)) as [|y tr] eqn:TR.
    { apply app_eq_nil in TR. destruct TR as [TR _]. apply (f_equal (@length byte)) in TR.
      rewrite app_length in TR. simpl in TR. lia. }
    rewrite <- FH, <- TR.
    rewrite (firstn_full _ _ _ Full), (skipn_full _ _ _ Full).
    assert (L1 : length (hsh b ++ ecc b) = hlen + (mb - ms)) by (rewrite app_length; lia).
    rewrite <- L1, app_skipn_length. rewrite <- app_assoc. rewrite <- S4 at 1 2.
    rewrite firstn_app_length, app_skipn_length.
    match goal with |- context [firstn (mb - ms) (ecc b ++ ?Y)] =>
      assert (B5 : firstn (mb - ms) (ecc b ++ Y) = ecc b) by (rewrite <- S5; apply firstn_app_length) end.
    rewrite B5.
    rewrite (IH _ _ S6) by (simpl in Hf; lia).
    rewrite <- S1. destruct b; reflexivity.
Qed.

(* ------------------------------------------------------------------ *)
(* whole files, damage within capacity in every block                  *)
(* ------------------------------------------------------------------ *)
Lemma shaped_count mu mb hlen : forall bl cur, shaped mu mb hlen cur bl -> length bl <= length (concat (map msg bl)).
Proof.
  induction bl as [|b t IH]; intros cur S; simpl; [lia|].
  destruct S as (_ & L & _ & _ & _ & S). rewrite app_length. specialize (IH _ S). lia.
Qed.

Lemma flagged_not_failed_repaired vs :
  existsb is_flagged vs = true -> existsb is_failed vs = false -> existsb is_repaired vs = true.
Proof.
  induction vs as [|v vs IH]; simpl; [discriminate|].
  destruct v; simpl; auto; discriminate.
Qed.
Lemma repaired_flagged vs : existsb is_repaired vs = true -> existsb is_flagged vs = true.
Proof. induction vs as [|v vs IH]; simpl; auto. destruct v; simpl; auto. Qed.

Lemma processed_id (res : list (list byte * verdict)) : ~ In Unexamined (map snd res) -> processed res = res.
Proof.
  induction res as [|[c v] res IH]; simpl; auto. intros N.
  destruct v; try (rewrite IH; [reflexivity|tauto]). exfalso. apply N. left. reflexivity.
Qed.

Section C01Files.
  Variable opts_t : Type.
  Variable hash : list byte -> list byte.
  Variable chk : nat -> list byte -> list byte -> bool.
  Variable dec : nat -> opts_t -> list byte -> list byte -> option (list byte * list byte).
  Variable enc : nat -> list byte -> list byte.
  Variable o : opts_t.
  Variable fast : bool.
  Variable cap : nat -> opts_t -> list byte * list byte -> list byte * list byte -> Prop.
  Variable wf : nat -> list byte -> Prop.
  Variables mb hlen : nat.
  Hypothesis chk_enc : chk_enc_hyp chk enc wf.
  Hypothesis dec_complete : dec_complete_hyp opts_t chk dec enc o cap wf.
  Hypothesis code_dist : code_dist_hyp opts_t chk enc o cap wf.
  Hypothesis hash_len : forall m, length (hash m) = hlen.
  Hypothesis enc_len : forall k m, length (enc k m) = mb - k.

  (* a received block against the block stored at generation *)
  Definition damaged_ok (b0 b : ablock) : Prop :=
    same_geom b0 b /\ recv_ok opts_t hash enc o cap wf (msg b0) b.

  Lemma damaged_split bl0 bl : Forall2 damaged_ok bl0 bl ->
    Forall2 same_geom bl0 bl /\ Forall2 (recv_ok opts_t hash enc o cap wf) (map msg bl0) bl.
  Proof. induction 1 as [|b0 b bl0 bl [G R] F [IH1 IH2]]; simpl; split; constructor; auto. Qed.

  Lemma sa_detect_fst bl :
    fst (sa_detect hash chk fast bl) = existsb (fun b => fst (flag_run hash chk fast b)) bl.
  Proof.
    induction bl as [|b t IH]; simpl; [reflexivity|].
    destruct (flag_run hash chk fast b) as [f q]. destruct f; simpl; [reflexivity|].
    destruct (sa_detect hash chk fast t). simpl in *. exact IH.
  Qed.

  Section Whole.
    Variable mu : nat -> nat.
    Hypothesis mu_pos : forall c, 1 <= mu c.
    Hypothesis track_pos : forall c, 1 <= hlen + (mb - mu c).

    Theorem sa_file_repairs F0 bl junk :
      Forall2 damaged_ok (sa_gen hash mu enc F0) bl ->
      let F := concat (map msg bl) in
      let r := sa_file opts_t hash chk dec o fast mu mb hlen F (track_of bl ++ junk) (length (track_of bl)) in
      length F = length F0 /\
      (f_class r = Clean \/ f_class r = Complete) /\
      (forall out, f_out r = Some out -> out = F0) /\
      (F <> F0 -> f_out r = Some F0).
    Proof.
      intros D F r. destruct (damaged_split _ _ D) as [G R].
      destruct (sa_gen_spec mu mb hlen hash enc hash_len mu_pos (length F0) F0 0 enc_len (Nat.le_refl _)) as (C0 & S0 & _).
      fold (sa_gen hash mu enc F0) in C0, S0.
      pose proof (shaped_transfer mu mb hlen _ _ 0 G S0) as S.
      assert (LF : length F = length F0).
      { rewrite <- C0. unfold F. clear - G. induction G as [|b0 b bl0 bl (_ & L & _) G IH]; simpl; [reflexivity|].
        rewrite !app_length. congruence. }
      split; [exact LF|].
      assert (B : sa_blocks mu mb hlen F (track_of bl ++ junk) (length (track_of bl)) = bl).
      { unfold sa_blocks. apply sa_asm_exact; auto. pose proof (shaped_count _ _ _ _ _ S). fold F in H. lia. }
      destruct (loop_all_repaired opts_t hash chk dec enc o fast cap wf chk_enc dec_complete code_dist _ _ 0 true R)
        as (I1 & I2 & I3 & I4 & I5).
      subst r. unfold Pipeline.sa_file. rewrite B.
      pose proof (sa_detect_fst bl) as DF. destruct (sa_detect hash chk fast bl) as [det q1]. simpl in DF.
      pose proof (loop_length opts_t hash chk dec o fast bl 0 true) as LL.
      destruct (blocks_loop opts_t hash chk dec o fast 0 true bl) as [res q2]. simpl in I1, I2, I3, I4, I5, LL.
      assert (NE : F <> F0 -> map msg bl <> map msg (sa_gen hash mu enc F0)).
      { intros N E. apply N. unfold F. rewrite E. exact C0. }
      destruct det.
      - assert (RP : existsb is_repaired (map snd res) = true).
        { apply flagged_not_failed_repaired; [rewrite I5, <- DF; reflexivity|exact I2]. }
        rewrite RP, I2. simpl.
        assert (OUT : concat (map fst (processed res)) ++
                      skipn (length (concat (map msg (firstn (length (processed res)) bl)))) F = F0).
        { rewrite (processed_id _ I3), LL, firstn_all. fold F. rewrite skipn_all, app_nil_r, I1. exact C0. }
        rewrite OUT. split; [right; reflexivity|]. split; [intros out H; inversion H; reflexivity|reflexivity].
      - simpl. split; [left; reflexivity|]. split; [discriminate|].
        intros N. exfalso. specialize (I4 (NE N)). apply repaired_flagged in I4. rewrite I5, <- DF in I4. discriminate.
    Qed.
  End Whole.

  Section Header.
    Variables ms hdr : nat.
    Hypothesis ms_pos : 1 <= ms.
    Hypothesis track_pos : 1 <= hlen + (mb - ms).

    Theorem hdr_file_repairs F0 bl tail :
      Forall2 damaged_ok (hdr_gen hash enc ms hdr F0) bl ->
      length tail = length F0 - hdr ->
      let F := concat (map msg bl) ++ tail in
      let r := hdr_file opts_t hash chk dec o fast ms mb hlen hdr (length F0) F (track_of bl) in
      length F = length F0 /\
      (f_class r = Clean \/ f_class r = Complete) /\
      (forall out, f_out r = Some out -> out = firstn hdr F0 ++ tail) /\
      (concat (map msg bl) <> firstn hdr F0 -> f_out r = Some (firstn hdr F0 ++ tail)).
    Proof.
      intros D LT F r. destruct (damaged_split _ _ D) as [G R].
      assert (FL : length (firstn hdr F0) <= length F0) by (rewrite firstn_length; lia).
      destruct (sa_gen_spec (fun _ => ms) mb hlen hash enc hash_len (fun _ => ms_pos) (length F0) (firstn hdr F0) 0 enc_len FL)
        as (C0 & S0 & _).
      rewrite <- (hdr_gen_is_sa_gen hash enc ms) in C0, S0. fold (hdr_gen hash enc ms hdr F0) in C0, S0.
      pose proof (shaped_transfer (fun _ => ms) mb hlen _ _ 0 G S0) as S.
      assert (LP : length (concat (map msg bl)) = Nat.min hdr (length F0)).
      { rewrite <- (firstn_length hdr F0), <- C0. clear - G.
        induction G as [|b0 b bl0 bl (_ & L & _) G IH]; simpl; [reflexivity|]. rewrite !app_length. congruence. }
      assert (LF : length F = length F0) by (unfold F; rewrite app_length; lia).
      split; [exact LF|].
      assert (FH : firstn (hdr_want hdr (length F0)) F = concat (map msg bl)).
      { unfold hdr_want, F.
        destruct ((0 <? length F0) && (length F0 <? hdr)) eqn:W.
        - apply andb_true_iff in W. destruct W as [W1 W2]. apply Nat.ltb_lt in W1, W2.
          assert (tail = []) by (destruct tail; [reflexivity|simpl in LT; lia]). subst tail.
          rewrite app_nil_r. apply firstn_all2. lia.
        - apply andb_false_iff in W. destruct W as [W|W].
          + apply Nat.ltb_ge in W. assert (Z : length F0 = 0) by lia.
            assert (tail = []) by (destruct tail; [reflexivity|simpl in LT; lia]). subst tail.
            rewrite app_nil_r. apply firstn_all2. lia.
          + apply Nat.ltb_ge in W. replace hdr with (length (concat (map msg bl))) by lia.
            apply firstn_app_length. }
      assert (B : hdr_blocks ms mb hlen hdr (length F0) F (track_of bl) = bl).
      { unfold hdr_blocks. rewrite FH. apply (hdr_asm_exact ms mb hlen track_pos bl 0); auto.
        exact (shaped_count _ _ _ _ _ S). }
      destruct (loop_all_repaired opts_t hash chk dec enc o fast cap wf chk_enc dec_complete code_dist _ _ 0 true R)
        as (I1 & I2 & I3 & I4 & I5).
      subst r. unfold Pipeline.hdr_file. rewrite B.
      destruct (blocks_loop opts_t hash chk dec o fast 0 true bl) as [res q2]. simpl in I1, I2, I3, I4, I5.
      assert (OUT : concat (map fst res) ++ skipn (length (concat (map msg bl))) F = firstn hdr F0 ++ tail).
      { unfold F. rewrite app_skipn_length, I1, C0. reflexivity. }
      destruct (existsb is_flagged (map snd res)) eqn:FL'.
      - rewrite I2, OUT. simpl. split; [right; reflexivity|]. split; [intros out H; inversion H; reflexivity|reflexivity].
      - simpl. split; [left; reflexivity|]. split; [discriminate|].
        intros N. exfalso.
        assert (NE : map msg bl <> map msg (hdr_gen hash enc ms hdr F0)).
        { intros E. apply N. rewrite E. exact C0. }
        specialize (I4 NE). apply repaired_flagged in I4. congruence.
    Qed.
  End Header.
End C01Files.

(* ------------------------------------------------------------------ *)
(* runs                                                                *)
(* ------------------------------------------------------------------ *)
Theorem run_exit_nonzero s rs p r :
  In (p, r) rs -> f_class r = Partial \/ f_class r = NotAtAll -> snd (run_files s rs) = 1.
Proof.
  intros Hin Hc. unfold run_files. simpl. apply (exit_nonzero _ (f_class r)); [|exact Hc].
  apply in_map_iff. exists (p, r). auto.
Qed.

Theorem run_exit_zero s rs :
  Forall (fun pr => f_class (snd pr) = Clean \/ f_class (snd pr) = Complete) rs -> snd (run_files s rs) = 0.
Proof.
  intros H. unfold run_files. simpl. apply exit_zero_iff. apply forallb_forall. intros k Hk.
  apply in_map_iff in Hk. destruct Hk as (pr & <- & Hin). rewrite Forall_forall in H.
  destruct (H pr Hin) as [-> | ->]; reflexivity.
Qed.

(* ------------------------------------------------------------------ *)
(* a toy codec (two extra copies, majority decoding) showing that the  *)
(* codec hypotheses of C01 and C04 are satisfiable together            *)
(* ------------------------------------------------------------------ *)
Definition toy_enc (k : nat) (m : list byte) : list byte := m ++ m.
Definition toy_chk (k : nat) (m p : list byte) : bool := beqb p (m ++ m).
Definition toy_dec (k : nat) (_ : unit) (m p : list byte) : option (list byte * list byte) :=
  let b := firstn (length m) p in
  let c := skipn (length m) p in
  if negb (length p =? 2 * length m) then None
  else if beqb m b || beqb m c then Some (m, m ++ m)
  else if beqb b c then Some (b, b ++ b) else None.
(* within capacity: the received word has the right lengths and at least two of its three
   copies are the codeword's message *)
Definition toy_cap (k : nat) (_ : unit) (r c : list byte * list byte) : Prop :=
  snd c = fst c ++ fst c /\ length (fst r) = length (fst c) /\ length (snd r) = 2 * length (fst c) /\
  let a := fst r in let b := firstn (length (fst c)) (snd r) in let d := skipn (length (fst c)) (snd r) in
  (a = fst c /\ b = fst c) \/ (a = fst c /\ d = fst c) \/ (b = fst c /\ d = fst c).
Definition toy_hash (m : list byte) : list byte := match m with [] => [x00] | x :: _ => [x] end.
Definition toy_wf (k : nat) (m : list byte) : Prop := True.

Lemma toy_chk_enc : chk_enc_hyp toy_chk toy_enc toy_wf.
Proof. intros k m _. apply beqb_refl. Qed.

Lemma toy_cap_intro k m p m0 :
  length m = length m0 -> length p = 2 * length m0 ->
  ((m = m0 /\ firstn (length m0) p = m0) \/ (m = m0 /\ skipn (length m0) p = m0) \/
   (firstn (length m0) p = m0 /\ skipn (length m0) p = m0)) ->
  toy_cap k tt (m, p) (m0, m0 ++ m0).
Proof. intros L1 L2 H. unfold toy_cap. simpl fst. simpl snd. auto. Qed.

Lemma toy_dec_complete : dec_complete_hyp unit toy_chk toy_dec toy_enc tt toy_cap toy_wf.
Proof.
  intros k m p m0 _ (E & L1 & L2 & H). simpl fst in *. simpl snd in *. unfold toy_dec. rewrite L1.
  replace (length p =? 2 * length m0) with true by (symmetry; apply Nat.eqb_eq; exact L2). simpl negb.
  destruct (beqb_spec m (firstn (length m0) p)) as [A|A]; simpl orb.
  - exists (m, m ++ m). split; [reflexivity|]. split; [apply beqb_refl|].
    assert (Hm : m = m0) by (destruct H as [[X _]|[[X _]|[X Y]]]; congruence).
    clear A. rewrite Hm in H |- *. apply toy_cap_intro; auto.
  - destruct (beqb_spec m (skipn (length m0) p)) as [B|B]; simpl orb.
    + exists (m, m ++ m). split; [reflexivity|]. split; [apply beqb_refl|].
      assert (Hm : m = m0) by (destruct H as [[X _]|[[X _]|[X Y]]]; congruence).
      clear B. rewrite Hm in H |- *. apply toy_cap_intro; auto.
    + destruct H as [[X Y]|[[X Y]|[X Y]]]; try congruence.
      rewrite X, Y, beqb_refl. exists (m0, m0 ++ m0). split; [reflexivity|]. split; [apply beqb_refl|].
      apply toy_cap_intro; auto.
Qed.

Lemma toy_code_dist : code_dist_hyp unit toy_chk toy_enc tt toy_cap toy_wf.
Proof.
  intros k [m p] m0 [m1 p1] _ (E0 & L1 & L2 & H0) (E1 & L1' & L2' & H1) K. simpl in *.
  assert (LL : length m1 = length m0) by lia. rewrite LL in H1.
  assert (m1 = m0) by (destruct H0 as [[X Y]|[[X Y]|[X Y]]], H1 as [[X' Y']|[[X' Y']|[X' Y']]]; congruence).
  subst m1. unfold toy_enc. congruence.
Qed.


Lemma toy_dec_len : dec_len_hyp unit toy_dec tt.
Proof.
  intros k m p m' p'. unfold toy_dec.
  destruct (length p =? 2 * length m) eqn:G; simpl negb; [|discriminate]. apply Nat.eqb_eq in G.
  destruct (beqb m (firstn (length m) p) || beqb m (skipn (length m) p)); [intros H; inversion H; reflexivity|].
  destruct (beqb (firstn (length m) p) (skipn (length m) p)); [|discriminate].
  intros H. inversion H. rewrite firstn_length. lia.
Qed.

(* whatever the toy decoder answers is within the radius of what it was given *)
Lemma toy_dec_bounded k m p c p' :
  toy_dec k tt m p = Some (c, p') -> toy_cap k tt (m, p) (c, toy_enc k c).
Proof.
  unfold toy_dec.
  destruct (length p =? 2 * length m) eqn:G; simpl negb; [|discriminate]. apply Nat.eqb_eq in G.
  destruct (beqb_spec m (firstn (length m) p)) as [A|A]; simpl orb.
  - intros H. inversion H; subst c p'. apply toy_cap_intro; auto.
  - destruct (beqb_spec m (skipn (length m) p)) as [B|B]; simpl orb.
    + intros H. inversion H; subst c p'. apply toy_cap_intro; auto.
    + destruct (beqb_spec (firstn (length m) p) (skipn (length m) p)) as [E|E]; [|discriminate].
      intros H. inversion H as [[H1 H2]]. clear H H2. rewrite H1.
      assert (L : length c = length m) by (rewrite <- H1, firstn_length; lia).
      unfold toy_enc. apply toy_cap_intro; try lia. rewrite L. right. right. split; congruence.
Qed.
