(* Proofs/HashUpdP.v — invariants and proofs about the HashUpd model (property C16). *)
From Coq Require Import List Bool NArith Permutation.
From Coq Require Import Strings.Byte.
From PFF Require Import Bytes HashUpd.
Import ListNotations.

(* ---- generic list facts ---- *)
Lemma filter_all_true {A} (f : A -> bool) l : (forall x, In x l -> f x = true) -> filter f l = l.
Proof.
  induction l as [|a l IH]; intros H; simpl; [reflexivity|].
  rewrite (H a (or_introl eq_refl)). f_equal. apply IH. intros x Hx. apply H. right. exact Hx.
Qed.

Lemma NoDup_map_filter {A B} (g : A -> B) (f : A -> bool) l : NoDup (map g l) -> NoDup (map g (filter f l)).
Proof.
  induction l as [|a l IH]; simpl; intros H; [constructor|].
  inversion H as [|x xs Hn Hd]; subst.
  destruct (f a); simpl; [|apply IH; exact Hd].
  constructor; [|apply IH; exact Hd].
  intros Hin. apply Hn. apply in_map_iff in Hin. destruct Hin as (y & Hy & Hin).
  apply filter_In in Hin. apply in_map_iff. exists y. tauto.
Qed.

Lemma NoDup_app_intro {A} (a b : list A) :
  NoDup a -> NoDup b -> (forall x, In x a -> ~ In x b) -> NoDup (a ++ b).
Proof.
  induction a as [|x a IH]; simpl; intros Ha Hb Hd; [exact Hb|].
  inversion Ha as [|y ys Hn Ha']; subst. constructor.
  - intros Hin. apply in_app_or in Hin. destruct Hin as [Hin|Hin]; [tauto|].
    exact (Hd x (or_introl eq_refl) Hin).
  - apply IH; auto.
Qed.

Lemma Permutation_flat_map_l {A B} (f : A -> list B) l l' :
  Permutation l l' -> Permutation (flat_map f l) (flat_map f l').
Proof.
  induction 1; simpl.
  - constructor.
  - apply Permutation_app_head. assumption.
  - rewrite !app_assoc. apply Permutation_app_tail. apply Permutation_app_comm.
  - eapply Permutation_trans; eassumption.
Qed.

Section HashUpdP.
  Variables Path Content Digest Ext : Type.
  Variable path_eqb : Path -> Path -> bool.
  Variable path_leb : Path -> Path -> bool.
  Variable hash : Content -> Digest.
  Variable size : Content -> N.
  Variable ext : Path -> Ext.
  Hypothesis path_eqb_spec : forall x y, reflect (x = y) (path_eqb x y).

  Notation FS := (FS Path Content).
  Notation Row := (Row Path Digest Ext).
  Notation DB := (DB Path Digest Ext).
  Notation State := (State Path Content Digest Ext).
  Notation op := (op Path Content).
  Notation rpath := (rpath Path Digest Ext).
  Notation paths := (paths Path Digest Ext).
  Notation keys := (keys Path Content).
  Notation mkrow := (mkrow Path Content Digest Ext hash size ext).
  Notation fs_get := (fs_get Path Content path_eqb).
  Notation fs_del := (fs_del Path Content path_eqb).
  Notation fs_add := (fs_add Path Content path_eqb).
  Notation exists_file := (exists_file Path Content path_eqb).
  Notation insert := (insert Path path_leb).
  Notation isort := (isort Path path_leb).
  Notation walk := (walk Path Content path_leb).
  Notation tgt_ok := (tgt_ok Path Content path_eqb).
  Notation walk_tgt := (walk_tgt Path Content path_leb).
  Notation rem_keep := (rem_keep Path Content Digest Ext path_eqb).
  Notation upd_remove := (upd_remove Path Content Digest Ext path_eqb).
  Notation mem := (mem Path path_eqb).
  Notation row_of := (row_of Path Content Digest Ext path_eqb hash size ext).
  Notation new_rows := (new_rows Path Content Digest Ext path_eqb path_leb hash size ext).
  Notation upd_append := (upd_append Path Content Digest Ext path_eqb path_leb hash size ext).
  Notation gen_db := (gen_db Path Content Digest Ext path_eqb path_leb hash size ext).
  Notation step := (step Path Content Digest Ext path_eqb path_leb hash size ext).
  Notation run := (run Path Content Digest Ext path_eqb path_leb hash size ext).
  Notation op_clean_for := (op_clean_for Path Content Digest Ext hash size ext).
  Notation clean_for := (clean_for Path Content Digest Ext path_eqb path_leb hash size ext).

  Lemma eqb_refl p : path_eqb p p = true.
  Proof. destruct (path_eqb_spec p p); congruence. Qed.

  Lemma eqb_neq p q : p <> q -> path_eqb p q = false.
  Proof. destruct (path_eqb_spec p q); congruence. Qed.

  Lemma rpath_mkrow p c : rpath (mkrow p c) = p.
  Proof. reflexivity. Qed.

  (* ---- file tree ---- *)
  Lemma fs_get_some_in p c fs : fs_get p fs = Some c -> In p (keys fs).
  Proof.
    induction fs as [|[q d] t IH]; simpl; [discriminate|].
    destruct (path_eqb_spec p q); [subst; auto|]. intros H. right. exact (IH H).
  Qed.

  Lemma fs_get_in_some p fs : In p (keys fs) -> exists c, fs_get p fs = Some c.
  Proof.
    induction fs as [|[q d] t IH]; simpl; [tauto|].
    intros H. destruct (path_eqb_spec p q); [eexists; reflexivity|].
    destruct H as [H|H]; [congruence|]. exact (IH H).
  Qed.

  Lemma exists_file_iff fs p : exists_file fs p = true <-> In p (keys fs).
  Proof.
    unfold HashUpd.exists_file. split.
    - destruct (fs_get p fs) eqn:E; [intros _; eapply fs_get_some_in; eauto|discriminate].
    - intros H. destruct (fs_get_in_some _ _ H) as [c ->]. reflexivity.
  Qed.

  Lemma fs_get_del q p fs : fs_get q (fs_del p fs) = if path_eqb q p then None else fs_get q fs.
  Proof.
    induction fs as [|[k d] t IH]; simpl; [destruct (path_eqb q p); reflexivity|].
    destruct (path_eqb_spec p k); simpl.
    - subst k. rewrite IH. destruct (path_eqb_spec q p); reflexivity.
    - rewrite IH. destruct (path_eqb_spec q k); [|reflexivity].
      subst k. rewrite eqb_neq by congruence. reflexivity.
  Qed.

  Lemma fs_get_add q p c fs : fs_get q (fs_add p c fs) = if path_eqb q p then Some c else fs_get q fs.
  Proof.
    unfold HashUpd.fs_add. simpl. destruct (path_eqb_spec q p); [reflexivity|].
    rewrite fs_get_del. rewrite eqb_neq by assumption. reflexivity.
  Qed.

  Lemma keys_del_in q p fs : In q (keys (fs_del p fs)) <-> In q (keys fs) /\ q <> p.
  Proof.
    unfold HashUpd.keys, HashUpd.fs_del. rewrite !in_map_iff. split.
    - intros ([k d] & Hk & Hin). apply filter_In in Hin. simpl in *. destruct Hin as [Hin Hf]. subst k.
      split; [exists (q, d); auto|]. intros ->. rewrite eqb_refl in Hf. discriminate.
    - intros (([k d] & Hk & Hin) & Hne). simpl in Hk. subst k. exists (q, d). split; [reflexivity|].
      apply filter_In. split; [exact Hin|]. simpl. rewrite eqb_neq by congruence. reflexivity.
  Qed.

  Lemma keys_del_nodup p fs : NoDup (keys fs) -> NoDup (keys (fs_del p fs)).
  Proof. apply NoDup_map_filter. Qed.

  Lemma keys_add_nodup p c fs : NoDup (keys fs) -> NoDup (keys (fs_add p c fs)).
  Proof.
    intros H. unfold HashUpd.fs_add. simpl. constructor; [|apply keys_del_nodup; exact H].
    intros Hin. apply keys_del_in in Hin. tauto.
  Qed.

  (* ---- sorted walk: a permutation of the paths of the tree ---- *)
  Lemma insert_perm p l : Permutation (insert p l) (p :: l).
  Proof.
    induction l as [|q t IH]; simpl; [apply Permutation_refl|].
    destruct (path_leb p q); [apply Permutation_refl|].
    eapply Permutation_trans; [apply perm_skip; exact IH|apply perm_swap].
  Qed.

  Lemma isort_perm l : Permutation (isort l) l.
  Proof.
    induction l as [|p t IH]; simpl; [constructor|].
    eapply Permutation_trans; [apply insert_perm|apply perm_skip; exact IH].
  Qed.

  Lemma walk_perm fs : Permutation (walk fs) (keys fs).
  Proof. apply isort_perm. Qed.

  Lemma walk_in fs p : In p (walk fs) <-> In p (keys fs).
  Proof.
    split; apply Permutation_in; [apply walk_perm|apply Permutation_sym, walk_perm].
  Qed.

  Lemma walk_nodup fs : NoDup (keys fs) -> NoDup (walk fs).
  Proof. intros H. eapply Permutation_NoDup; [apply Permutation_sym, walk_perm|exact H]. Qed.

  Lemma walk_tgt_nodup t fs : NoDup (keys fs) -> NoDup (walk_tgt t fs).
  Proof.
    destruct t; simpl; [apply walk_nodup|]. intros _. constructor; [simpl; tauto|constructor].
  Qed.

  Lemma mem_iff p l : mem p l = true <-> In p l.
  Proof.
    induction l as [|q t IH]; simpl; [split; [discriminate|tauto]|].
    rewrite orb_true_iff, IH. destruct (path_eqb_spec p q); split; intros H; auto.
    - destruct H; [discriminate|auto].
    - destruct H; [congruence|auto].
  Qed.

  (* ---- remove ---- *)
  Lemma remove_in t fs db r : In r (upd_remove t fs db) <-> In r db /\ rem_keep t fs r = true.
  Proof. apply filter_In. Qed.

  (* never a row of an existing file, whatever the input *)
  Lemma remove_keeps_existing t fs db r :
    In r db -> In (rpath r) (keys fs) -> In r (upd_remove t fs db).
  Proof.
    intros Hin Hex. apply remove_in. split; [exact Hin|].
    apply exists_file_iff in Hex. destruct t; simpl; [exact Hex|].
    destruct (path_eqb p (rpath r)); [exact Hex|reflexivity].
  Qed.

  (* folder input: exactly the rows whose file exists stay, in their order *)
  Lemma remove_folder_in fs db r :
    In r (upd_remove Folder fs db) <-> In r db /\ In (rpath r) (keys fs).
  Proof. rewrite remove_in. simpl. rewrite exists_file_iff. tauto. Qed.

  (* single-file input (which must exist): nothing is dropped *)
  Lemma remove_file_id q fs db : In q (keys fs) -> upd_remove (File q) fs db = db.
  Proof.
    intros Hq. apply filter_all_true. intros r _. simpl.
    destruct (path_eqb_spec q (rpath r)); [|reflexivity]. subst q. apply exists_file_iff. exact Hq.
  Qed.

  Lemma remove_sub t fs db r : In r (upd_remove t fs db) -> In r db.
  Proof. intros H. apply remove_in in H. tauto. Qed.

  Lemma remove_nodup t fs db : NoDup (paths db) -> NoDup (paths (upd_remove t fs db)).
  Proof. apply NoDup_map_filter. Qed.

  (* ---- append ---- *)
  Lemma row_of_in fs p r : In r (row_of fs p) <-> exists c, fs_get p fs = Some c /\ r = mkrow p c.
  Proof.
    unfold HashUpd.row_of. destruct (fs_get p fs) as [c|]; simpl.
    - split; [intros [H|[]]; eauto|]. intros (c' & H & ->). inversion H. auto.
    - split; [tauto|]. intros (c' & H & _). discriminate.
  Qed.

  Lemma new_rows_in t fs db r :
    In r (new_rows t fs db) <->
    exists p c, In p (walk_tgt t fs) /\ ~ In p (paths db) /\ fs_get p fs = Some c /\ r = mkrow p c.
  Proof.
    unfold HashUpd.new_rows. rewrite in_flat_map. split.
    - intros (p & Hp & Hr). destruct (mem p (paths db)) eqn:E; [destruct Hr|].
      apply row_of_in in Hr. destruct Hr as (c & Hc & ->). exists p, c. repeat split; auto.
      intros Hin. apply mem_iff in Hin. congruence.
    - intros (p & c & Hp & Hn & Hc & ->). exists p. split; [exact Hp|].
      destruct (mem p (paths db)) eqn:E; [apply mem_iff in E; tauto|].
      apply row_of_in. eauto.
  Qed.

  Lemma paths_rows (P : list Path) fs l :
    map rpath (flat_map (fun p => if mem p P then [] else row_of fs p) l)
    = filter (fun p => negb (mem p P) && exists_file fs p) l.
  Proof.
    induction l as [|p l IH]; simpl; [reflexivity|].
    rewrite map_app, IH. unfold HashUpd.row_of, HashUpd.exists_file.
    destruct (mem p P); simpl; [reflexivity|].
    destruct (fs_get p fs); reflexivity.
  Qed.

  Lemma new_rows_paths t fs db :
    paths (new_rows t fs db) = filter (fun p => negb (mem p (paths db)) && exists_file fs p) (walk_tgt t fs).
  Proof. apply paths_rows. Qed.

  Lemma new_rows_nodup t fs db : NoDup (keys fs) -> NoDup (paths (new_rows t fs db)).
  Proof. intros H. rewrite new_rows_paths. apply NoDup_filter. apply walk_tgt_nodup. exact H. Qed.

  Lemma append_nodup t fs db :
    NoDup (keys fs) -> NoDup (paths db) -> NoDup (paths (upd_append t fs db)).
  Proof.
    intros Hf Hd. unfold HashUpd.upd_append, HashUpd.paths. rewrite map_app.
    apply NoDup_app_intro; [exact Hd|apply new_rows_nodup; exact Hf|].
    intros p Hp Hq. fold (paths (new_rows t fs db)) in Hq. rewrite new_rows_paths in Hq.
    apply filter_In in Hq. destruct Hq as [_ Hq]. apply andb_true_iff in Hq. destruct Hq as [Hq _].
    apply negb_true_iff in Hq. apply mem_iff in Hp. unfold HashUpd.paths in Hq. congruence.
  Qed.

  Lemma gen_db_new fs : gen_db fs = new_rows Folder fs [].
  Proof. reflexivity. Qed.

  Lemma gen_db_nodup fs : NoDup (keys fs) -> NoDup (paths (gen_db fs)).
  Proof. rewrite gen_db_new. apply new_rows_nodup. Qed.

  Lemma gen_db_in fs r : In r (gen_db fs) <-> exists p c, fs_get p fs = Some c /\ r = mkrow p c.
  Proof.
    rewrite gen_db_new, new_rows_in. split.
    - intros (p & c & _ & _ & H & ->). eauto.
    - intros (p & c & H & ->). exists p, c. repeat split; auto.
      simpl. apply walk_in. eapply fs_get_some_in; eauto.
  Qed.

  (* ---- the invariant: one entry per path in the tree, one row per path in the database ---- *)
  Definition inv (st : State) : Prop := NoDup (keys (fst st)) /\ NoDup (paths (snd st)).

  Lemma step_inv st o : inv st -> inv (step st o).
  Proof.
    destruct st as [fs db]. unfold inv. simpl. intros [Hf Hd].
    destruct o as [p c|p|t|t|t]; simpl.
    - split; [exact (keys_add_nodup p c fs Hf)|exact Hd].
    - split; [exact (keys_del_nodup p fs Hf)|exact Hd].
    - destruct (tgt_ok t fs); simpl; split; auto. apply append_nodup; auto.
    - destruct (tgt_ok t fs); simpl; split; auto. apply remove_nodup; auto.
    - destruct (tgt_ok t fs); simpl; split; auto. apply append_nodup; auto. apply remove_nodup; auto.
  Qed.

  Lemma run_inv ops : forall st, inv st -> inv (run st ops).
  Proof.
    induction ops as [|o t IH]; intros st H; simpl; [exact H|]. apply IH. apply step_inv. exact H.
  Qed.

  Lemma run_app st ops o : run st (ops ++ [o]) = step (run st ops) o.
  Proof. unfold HashUpd.run. rewrite fold_left_app. reflexivity. Qed.

  (* ---- rows well formed: each row is the row of its path for some content ---- *)
  Definition rows_wf (db : DB) : Prop := forall r, In r db -> exists c, r = mkrow (rpath r) c.

  Lemma step_wf st o : rows_wf (snd st) -> rows_wf (snd (step st o)).
  Proof.
    destruct st as [fs db]. simpl. intros H.
    assert (Ha : forall t d, rows_wf d -> rows_wf (upd_append t fs d)).
    { intros t d Hd r Hr. apply in_app_or in Hr. destruct Hr as [Hr|Hr]; [auto|].
      apply new_rows_in in Hr. destruct Hr as (p & c & _ & _ & _ & ->). exists c. reflexivity. }
    assert (Hr : forall t d, rows_wf d -> rows_wf (upd_remove t fs d)).
    { intros t d Hd r Hr. apply Hd. eapply remove_sub; eauto. }
    destruct o as [p c|p|t|t|t]; simpl.
    - exact H.
    - exact H.
    - destruct (tgt_ok t fs); simpl; auto.
    - destruct (tgt_ok t fs); simpl; auto.
    - destruct (tgt_ok t fs); simpl; auto.
  Qed.

  Lemma run_wf ops : forall st, rows_wf (snd st) -> rows_wf (snd (run st ops)).
  Proof.
    induction ops as [|o t IH]; intros st H; simpl; [exact H|]. apply IH. apply step_wf. exact H.
  Qed.

  Lemma gen_db_wf fs : rows_wf (gen_db fs).
  Proof. intros r Hr. apply gen_db_in in Hr. destruct Hr as (p & c & _ & ->). exists c. reflexivity. Qed.

  (* ---- freshness of the rows of path p: they describe the current content of p ---- *)
  Definition fresh_at (p : Path) (st : State) : Prop :=
    forall r c, In r (snd st) -> rpath r = p -> fs_get p (fst st) = Some c -> r = mkrow p c.

  Lemma step_fresh p st o : op_clean_for p st o -> fresh_at p st -> fresh_at p (step st o).
  Proof.
    destruct st as [fs db]. unfold fresh_at. simpl. intros Hc H.
    assert (Ha : forall t d, (forall r c, In r d -> rpath r = p -> fs_get p fs = Some c -> r = mkrow p c) ->
                 forall r c, In r (upd_append t fs d) -> rpath r = p -> fs_get p fs = Some c -> r = mkrow p c).
    { intros t d Hd r c Hr Hp Hg. apply in_app_or in Hr. destruct Hr as [Hr|Hr]; [eauto|].
      apply new_rows_in in Hr. destruct Hr as (p' & c' & _ & _ & Hg' & ->).
      rewrite rpath_mkrow in Hp. subst p'. congruence. }
    assert (Hr : forall t d, (forall r c, In r d -> rpath r = p -> fs_get p fs = Some c -> r = mkrow p c) ->
                 forall r c, In r (upd_remove t fs d) -> rpath r = p -> fs_get p fs = Some c -> r = mkrow p c).
    { intros t d Hd r c Hin. apply Hd. eapply remove_sub; eauto. }
    destruct o as [q c|q|t|t|t]; cbn [HashUpd.step HashUpd.op_clean_for fst snd] in *.
    - intros r c' Hin Hp. rewrite fs_get_add. destruct (path_eqb_spec p q).
      + intros Hg. inversion Hg; subst c'. subst q. apply Hc; auto.
      + apply H; auto.
    - intros r c' Hin Hp. rewrite fs_get_del. destruct (path_eqb p q); [discriminate|]. apply H; auto.
    - destruct (tgt_ok t fs); cbn [fst snd]; [apply Ha; exact H|exact H].
    - destruct (tgt_ok t fs); cbn [fst snd]; [apply Hr; exact H|exact H].
    - destruct (tgt_ok t fs); cbn [fst snd]; [apply Ha; apply Hr; exact H|exact H].
  Qed.

  Lemma run_fresh p ops : forall st, clean_for p st ops -> fresh_at p st -> fresh_at p (run st ops).
  Proof.
    induction ops as [|o t IH]; intros st Hc H; simpl; [exact H|].
    destruct Hc as [Hc1 Hc2]. apply IH; [exact Hc2|]. apply step_fresh; assumption.
  Qed.

  Lemma gen_db_fresh p fs : fresh_at p (fs, gen_db fs).
  Proof.
    intros r c Hr Hp Hg. simpl in *. apply gen_db_in in Hr. destruct Hr as (p' & c' & Hg' & ->).
    rewrite rpath_mkrow in Hp. subst p'. congruence.
  Qed.

  (* ---- the final folder update -a -r ---- *)
  Lemma final_paths fs db p :
    In p (paths (upd_append Folder fs (upd_remove Folder fs db))) <-> In p (keys fs).
  Proof.
    unfold HashUpd.upd_append, HashUpd.paths. rewrite map_app, in_app_iff. split.
    - intros [H|H].
      + apply in_map_iff in H. destruct H as (r & <- & Hr). apply remove_folder_in in Hr. tauto.
      + apply in_map_iff in H. destruct H as (r & <- & Hr). apply new_rows_in in Hr.
        destruct Hr as (q & c & _ & _ & Hg & ->). rewrite rpath_mkrow. eapply fs_get_some_in; eauto.
    - intros H. destruct (mem p (map rpath (upd_remove Folder fs db))) eqn:E.
      + left. apply mem_iff. exact E.
      + right. destruct (fs_get_in_some _ _ H) as [c Hc]. apply in_map_iff. exists (mkrow p c).
        split; [reflexivity|]. apply new_rows_in. exists p, c. repeat split; auto.
        * simpl. apply walk_in. exact H.
        * intros Hin. apply mem_iff in Hin. unfold HashUpd.paths in Hin. congruence.
  Qed.

  Lemma flat_map_rows fs (l : DB) :
    (forall r, In r l -> row_of fs (rpath r) = [r]) -> flat_map (row_of fs) (map rpath l) = l.
  Proof.
    induction l as [|r l IH]; simpl; intros H; [reflexivity|].
    rewrite (H r (or_introl eq_refl)). simpl. f_equal. apply IH. intros x Hx. apply H. right. exact Hx.
  Qed.

  (* a database with one row per file of the tree, every row fresh, is a permutation of gen_db *)
  Lemma fresh_db_perm fs (db : DB) :
    NoDup (keys fs) -> NoDup (paths db) -> (forall p, In p (paths db) <-> In p (keys fs)) ->
    (forall r c, In r db -> fs_get (rpath r) fs = Some c -> r = mkrow (rpath r) c) ->
    Permutation db (gen_db fs).
  Proof.
    intros Hf Hd Hp Hfr.
    assert (E : flat_map (row_of fs) (paths db) = db).
    { apply flat_map_rows. intros r Hr.
      assert (Hk : In (rpath r) (keys fs)) by (apply Hp; apply in_map; exact Hr).
      destruct (fs_get_in_some _ _ Hk) as [c Hc]. unfold HashUpd.row_of. rewrite Hc.
      rewrite (Hfr r c Hr Hc) at 2. reflexivity. }
    rewrite <- E. unfold HashUpd.gen_db. apply Permutation_flat_map_l.
    apply NoDup_Permutation; [exact Hd|apply walk_nodup; exact Hf|].
    intros p. rewrite Hp, walk_in. tauto.
  Qed.

  (* ---- main results, from any well-formed initial tree with its generated database ---- *)
  Definition final (fs0 : FS) (ops : list op) : State := run (fs0, gen_db fs0) (ops ++ [UpdAR Folder]).

  Lemma final_eq fs0 ops :
    final fs0 ops =
    let st := run (fs0, gen_db fs0) ops in
    (fst st, upd_append Folder (fst st) (upd_remove Folder (fst st) (snd st))).
  Proof.
    unfold final. rewrite run_app. destruct (run (fs0, gen_db fs0) ops) as [fs db]. reflexivity.
  Qed.

  Lemma reach_inv fs0 ops : NoDup (keys fs0) -> inv (run (fs0, gen_db fs0) ops).
  Proof. intros H. apply run_inv. split; simpl; [exact H|apply gen_db_nodup; exact H]. Qed.

  Theorem converge_paths fs0 ops : NoDup (keys fs0) ->
    let st := final fs0 ops in
    NoDup (paths (snd st)) /\ (forall p, In p (paths (snd st)) <-> In p (keys (fst st))) /\
    rows_wf (snd st).
  Proof.
    intros H. split; [|split].
    - apply (reach_inv fs0 (ops ++ [UpdAR Folder]) H).
    - rewrite final_eq. simpl. intros p. apply final_paths.
    - apply run_wf. simpl. apply gen_db_wf.
  Qed.

  Theorem converge_row_fresh fs0 ops r c : NoDup (keys fs0) ->
    let st := final fs0 ops in
    In r (snd st) -> clean_for (rpath r) (fs0, gen_db fs0) ops ->
    fs_get (rpath r) (fst st) = Some c -> r = mkrow (rpath r) c.
  Proof.
    intros H st Hr Hc Hg. subst st. unfold final in *. rewrite run_app in *.
    assert (F : fresh_at (rpath r) (step (run (fs0, gen_db fs0) ops) (UpdAR Folder))).
    { apply step_fresh; [exact I|]. apply run_fresh; [exact Hc|apply gen_db_fresh]. }
    apply F; auto.
  Qed.

  Theorem converge_partial fs0 ops : NoDup (keys fs0) ->
    (forall p, clean_for p (fs0, gen_db fs0) ops) ->
    let st := final fs0 ops in Permutation (snd st) (gen_db (fst st)).
  Proof.
    intros H Hc st. destruct (converge_paths fs0 ops H) as (Hd & Hp & _). fold st in Hd, Hp.
    apply fresh_db_perm; auto.
    - apply (reach_inv fs0 (ops ++ [UpdAR Folder]) H).
    - intros r c Hr Hg. apply (converge_row_fresh fs0 ops r c H Hr (Hc _) Hg).
  Qed.

  (* append: the old rows stay as a prefix, the new rows are one per walked new file *)
  Theorem append_spec t fs db : NoDup (keys fs) ->
    exists new, upd_append t fs db = db ++ new /\ NoDup (paths new) /\
      (forall r, In r new <-> exists p c, In p (walk_tgt t fs) /\ ~ In p (paths db) /\
                                         fs_get p fs = Some c /\ r = mkrow p c) /\
      (NoDup (paths db) -> NoDup (paths (db ++ new))).
  Proof.
    intros H. exists (new_rows t fs db). split; [reflexivity|]. split; [apply new_rows_nodup; exact H|].
    split; [apply new_rows_in|]. intros Hd. apply (append_nodup t fs db H Hd).
  Qed.
End HashUpdP.

(* ---- the byte-string instance ---- *)
Lemma bytes_eqb_spec (a b : list byte) : reflect (a = b) (bytes_eqb a b).
Proof.
  revert b. induction a as [|x a IH]; intros [|y b]; simpl; try (constructor; congruence).
  destruct (byte_eqb_spec x y); simpl; [|constructor; congruence].
  destruct (IH b); constructor; congruence.
Qed.
