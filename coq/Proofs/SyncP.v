(* SyncP.v — the comparison used by the (fixed) code is the walk order; composition of
   walk_sorted, merge_correct and the vote theorems of C06. *)
From Coq Require Import List Arith Bool Sorted Permutation Lia.
From PFF Require Import Vote Walk Merge Proofs.VoteP Proofs.WalkP Proofs.MergeP.
Import ListNotations.

(* ---------- the key of the code: padding is invisible, valid paths have distinct keys ---------- *)
Section CodeOrderP.
  Context {name : Type} (is_empty : name -> bool) (empty : name).
  Context (is_empty_spec : forall x, is_empty x = true <-> x = empty).

  (* a real relative path: at least one part, no part is '' (PurePath.parts) *)
  Definition valid (p : list name) : Prop := p <> [] /\ Forall (fun x => x <> empty) p.

  Lemma strip_valid p : valid p -> strip is_empty p = p.
  Proof.
    intros [_ F]. destruct p as [|x [|y t]]; try reflexivity. simpl.
    inversion F as [|? ? Hx _]; subst. destruct (is_empty x) eqn:E; [|reflexivity].
    apply is_empty_spec in E. contradiction.
  Qed.

  Lemma code_key_parts d n : valid (d ++ [n]) -> code_key is_empty empty (d ++ [n]) = (d, n).
  Proof.
    intros V. unfold code_key. rewrite (strip_valid _ V). rewrite removelast_last, last_last. reflexivity.
  Qed.

  Lemma code_key_inj p q : valid p -> valid q ->
    code_key is_empty empty p = code_key is_empty empty q -> p = q.
  Proof.
    intros Vp Vq. unfold code_key. rewrite (strip_valid _ Vp), (strip_valid _ Vq). intros E.
    inversion E as [[E1 E2]].
    rewrite (app_removelast_last empty (proj1 Vp)), (app_removelast_last empty (proj1 Vq)).
    rewrite E1, E2. reflexivity.
  Qed.

  (* sort_dict_of_paths pads with '' on the left; the key ignores it *)
  Lemma strip_repeat k p : valid p -> strip is_empty (repeat empty k ++ p) = p.
  Proof.
    intros V. induction k as [|k IH]; simpl; [apply strip_valid; exact V|].
    destruct (repeat empty k ++ p) as [|y t] eqn:E.
    - destruct k; simpl in E; [|discriminate]. destruct V as [V _]. contradiction.
    - rewrite (proj2 (is_empty_spec empty) eq_refl). exact IH.
  Qed.

  Lemma code_key_pad k p : valid p ->
    code_key is_empty empty (pad empty k p) = code_key is_empty empty p.
  Proof.
    intros V. unfold code_key, pad. rewrite strip_repeat by exact V. rewrite strip_valid by exact V. reflexivity.
  Qed.

  (* padded to a common length, equal lists <=> equal paths (the grouping test of sort_group) *)
  Lemma pad_inj k p q : valid p -> valid q -> pad empty k p = pad empty k q -> p = q.
  Proof.
    intros Vp Vq E. rewrite <- (strip_repeat (k - length p) p Vp), <- (strip_repeat (k - length q) q Vq).
    unfold pad in E. rewrite E. reflexivity.
  Qed.
End CodeOrderP.

(* ---------- contents ---------- *)
Section SyncP.
  Context {name B : Type} (nltb : name -> name -> bool) (neqb : name -> name -> bool)
          (is_empty : name -> bool) (empty : name) (beqb : B -> B -> bool).
  Context (NST : strict_total nltb)
          (neqb_spec : forall x y, reflect (x = y) (neqb x y))
          (is_empty_spec : forall x, is_empty x = true <-> x = empty)
          (beqb_spec : forall x y, reflect (x = y) (beqb x y)).

  Notation path := (list name).
  Notation replica := (list (path * list B)).
  Notation ckey := (code_key is_empty empty).
  Notation peqb := (parts_eqb neqb).

  Lemma parts_eqb_spec (p q : path) : reflect (p = q) (peqb p q).
  Proof.
    revert q. induction p as [|x a IH]; intros [|y b]; simpl; try (constructor; congruence).
    destruct (neqb_spec x y) as [->|N]; simpl.
    - destruct (IH b) as [->|N']; constructor; congruence.
    - constructor. congruence.
  Qed.

  (* the order on paths induced by the key of the code *)
  Definition path_lt (p q : path) : Prop := walk_ltb nltb (ckey p) (ckey q) = true.

  (* a replica as walked: strictly increasing valid paths *)
  Definition walked (w : replica) : Prop :=
    StronglySorted path_lt (map fst w) /\ Forall (valid empty) (map fst w).

  (* the copies of p, one per replica holding it, in replica order *)
  Definition copies (p : path) (ws : list replica) : list (list B) :=
    flat_map (fun w => match lookup neqb p w with Some c => [c] | None => [] end) ws.

  (* what is written for a path whose copies are cs: a single copy is copied, otherwise the vote *)
  Definition out_spec (bs : nat) (cs : list (list B)) : list B * nat :=
    match cs with [c] => (c, 0) | _ => vote_chunked beqb bs cs end.

  Definition rpath (r : row (name := name) (B := B)) : path := fst (fst (fst r)).

  Lemma mem_lookup p (w : replica) :
    mem peqb p (map fst w) = match lookup neqb p w with Some _ => true | None => false end.
  Proof.
    induction w as [|[q c] t IH]; simpl; [reflexivity|]. destruct (peqb p q); [reflexivity|exact IH].
  Qed.

  Lemma lookup_In p c (w : replica) : lookup neqb p w = Some c -> In (p, c) w.
  Proof.
    induction w as [|[q c'] t IH]; simpl; [discriminate|].
    destruct (parts_eqb_spec p q) as [->|N].
    - intros E. inversion E; subst. left. reflexivity.
    - intros E. right. apply IH. exact E.
  Qed.

  Lemma In_lookup p c (w : replica) : NoDup (map fst w) -> In (p, c) w -> lookup neqb p w = Some c.
  Proof.
    induction w as [|[q c'] t IH]; simpl; intros N H; [destruct H|].
    inversion N as [|? ? Nh Nt]; subst.
    destruct H as [E|H].
    - inversion E; subst. destruct (parts_eqb_spec p p); [reflexivity|congruence].
    - destruct (parts_eqb_spec p q) as [->|_].
      + exfalso. apply Nh. apply in_map_iff. exists (q, c). auto.
      + apply IH; assumption.
  Qed.

  Lemma copies_of_holders p (rs : list replica) : forall pre : list replica,
    copies_of neqb p (pre ++ rs) (select (mem peqb p) (length pre) (map (map fst) rs)) = copies p rs /\
    length (select (mem peqb p) (length pre) (map (map fst) rs)) = length (copies p rs).
  Proof.
    induction rs as [|w t IH]; intros pre; [split; reflexivity|].
    simpl map. rewrite select_cons. rewrite mem_lookup.
    destruct (IH (pre ++ [w])) as [IH1 IH2]. rewrite app_length in IH1, IH2. simpl in IH1, IH2.
    rewrite Nat.add_1_r in IH1, IH2. rewrite <- app_assoc in IH1. simpl in IH1.
    unfold copies. simpl flat_map. fold (copies p t).
    destruct (lookup neqb p w) as [c|] eqn:L.
    - split.
      + unfold copies_of. simpl flat_map. fold (copies_of neqb p (pre ++ w :: t)).
        rewrite app_nth2 by lia. rewrite Nat.sub_diag. simpl nth. rewrite L.
        unfold copies_of in IH1 |- *. rewrite IH1. reflexivity.
      + simpl. rewrite IH2. reflexivity.
    - simpl. split; [exact IH1|exact IH2].
  Qed.

  Lemma process_spec bs (ws : list replica) p :
    process neqb beqb bs ws (p, holders peqb p (map (map fst) ws))
    = (p, holders peqb p (map (map fst) ws), fst (out_spec bs (copies p ws)), snd (out_spec bs (copies p ws))).
  Proof.
    unfold process, holders. destruct (copies_of_holders p ws []) as [E1 E2]. simpl in E1, E2.
    rewrite E1. unfold out_spec.
    destruct (select (mem peqb p) 0 (map (map fst) ws)) as [|h [|h2 t]];
      destruct (copies p ws) as [|c [|c2 cs]]; simpl in E2; try discriminate; try reflexivity.
    all: repeat match goal with |- context [vote_chunked ?a ?b ?c] => destruct (vote_chunked a b c) end; reflexivity.
  Qed.

  Lemma path_lt_irrefl p : ~ path_lt p p.
  Proof.
    unfold path_lt. rewrite (st_irrefl _ (walk_ltb_strict_total nltb NST)). discriminate.
  Qed.

  (* synchronize_files on walked replicas *)
  Theorem sync_correct bs (ws : list replica) :
    Forall walked ws ->
    exists rows, sync nltb neqb is_empty empty beqb bs ws = (rows, Done) /\
      length rows <= total_len (map (map fst) ws) /\
      StronglySorted path_lt (map rpath rows) /\
      (forall p, In p (map rpath rows) <-> exists w, In w ws /\ In p (map fst w)) /\
      (forall p hs c s, In (p, hs, c, s) rows ->
         hs = holders peqb p (map (map fst) ws) /\ (c, s) = out_spec bs (copies p ws)).
  Proof.
    intros Hw.
    destruct (merge_correct ckey (walk_ltb nltb) peqb (valid empty)
                (walk_ltb_strict_total nltb NST)
                (code_key_inj is_empty empty is_empty_spec) parts_eqb_spec (map (map fst) ws))
      as (mrows & Em & Hlen & Hsorted & Hmem & Hhold).
    { rewrite Forall_forall in *. intros l Hl. apply in_map_iff in Hl. destruct Hl as (w & <- & Hin).
      exact (proj1 (Hw w Hin)). }
    { rewrite Forall_forall in *. intros l Hl. apply in_map_iff in Hl. destruct Hl as (w & <- & Hin).
      exact (proj2 (Hw w Hin)). }
    unfold sync. rewrite Em.
    assert (Hrows : forall e, In e mrows -> process neqb beqb bs ws e =
              (fst e, snd e, fst (out_spec bs (copies (fst e) ws)), snd (out_spec bs (copies (fst e) ws)))
              /\ snd e = holders peqb (fst e) (map (map fst) ws)).
    { intros [p hs] Hin. simpl. rewrite (Hhold p hs Hin). split; [apply process_spec|reflexivity]. }
    assert (Hpaths : map rpath (map (process neqb beqb bs ws) mrows) = map fst mrows).
    { rewrite map_map. apply map_ext_in. intros e He. rewrite (proj1 (Hrows e He)). reflexivity. }
    eexists. split; [reflexivity|]. split; [rewrite map_length; exact Hlen|].
    split; [rewrite Hpaths; exact Hsorted|]. split.
    - intros p. rewrite Hpaths, Hmem. split.
      + intros (l & Hl & Hp). apply in_map_iff in Hl. destruct Hl as (w & <- & Hin). eauto.
      + intros (w & Hin & Hp). exists (map fst w). split; [apply in_map; exact Hin|exact Hp].
    - intros p hs c s Hin. apply in_map_iff in Hin. destruct Hin as (e & E & He).
      destruct (Hrows e He) as [E1 E2]. rewrite E1 in E. inversion E; subst.
      split; [exact E2|]. destruct (out_spec bs (copies (fst e) ws)); reflexivity.
  Qed.

  (* a path held by >= 3 replicas whose copies have a strict majority for orig's byte at every
     offset (and none longer than orig) is restored exactly, by exactly one row *)
  Theorem sync_restore bs (ws : list replica) p orig :
    Forall walked ws -> 0 < bs ->
    3 <= length (copies p ws) ->
    length orig = maxlen (copies p ws) ->
    (forall i x, nth_error orig i = Some x ->
       length (column i (copies p ws)) < 2 * cnt beqb x (column i (copies p ws))) ->
    exists rows hs, sync nltb neqb is_empty empty beqb bs ws = (rows, Done) /\
      In (p, hs, orig, 0) rows /\
      (forall r, In r rows -> rpath r = p -> r = (p, hs, orig, 0)).
  Proof.
    intros Hw Hbs H3 Hlen Hmaj.
    destruct (sync_correct bs ws Hw) as (rows & E & _ & Hsorted & Hmem & Hrow).
    assert (Hp : exists w, In w ws /\ In p (map fst w)).
    { unfold copies in H3. destruct (flat_map _ ws) as [|c t] eqn:F; [simpl in H3; lia|].
      assert (Hc : In c (flat_map (fun w : replica => match lookup neqb p w with Some c => [c] | None => [] end) ws))
        by (rewrite F; left; reflexivity).
      apply in_flat_map in Hc. destruct Hc as (w & Hin & Hc). exists w. split; [exact Hin|].
      destruct (lookup neqb p w) as [c'|] eqn:L; [|destruct Hc].
      apply lookup_In in L. apply in_map_iff. exists (p, c'). auto. }
    apply Hmem in Hp. apply in_map_iff in Hp. destruct Hp as ([[[p' hs] c] s] & Ep & Hin).
    unfold rpath in Ep. simpl in Ep. subst p'.
    destruct (Hrow p hs c s Hin) as [_ Eout].
    assert (Hout : out_spec bs (copies p ws) = (orig, 0)).
    { unfold out_spec. destruct (copies p ws) as [|c1 [|c2 t]] eqn:C; try (simpl in H3; lia).
      rewrite <- C in *. rewrite (vote_chunked_spec beqb bs _ Hbs H3).
      destruct (vote_spec_majority beqb beqb_spec _ orig Hlen Hmaj) as [-> ->]. reflexivity. }
    rewrite Hout in Eout. inversion Eout; subst.
    exists rows, hs. split; [exact E|]. split; [exact Hin|].
    intros r Hr Hpr.
    assert (N : NoDup (map rpath rows)).
    { apply (StronglySorted_NoDup path_lt); [exact path_lt_irrefl|exact Hsorted]. }
    apply (NoDup_map_eq rpath rows r (p, hs, orig, 0) N Hr Hin). exact Hpr.
  Qed.
End SyncP.

(* ---------- the instance: names are byte strings ---------- *)
From Coq Require Import NArith Strings.Byte.
From PFF Require Import Bytes.

Lemma byte_ltb_strict_total : strict_total byte_ltb.
Proof.
  unfold byte_ltb. constructor.
  - intros x. apply N.ltb_irrefl.
  - intros x y z H1 H2. apply N.ltb_lt in H1, H2. apply N.ltb_lt. exact (N.lt_trans _ _ _ H1 H2).
  - intros x y H1 H2. apply N.ltb_ge in H1, H2.
    assert (E : Byte.to_N x = Byte.to_N y) by (apply N.le_antisymm; assumption).
    assert (E2 : Byte.of_N (Byte.to_N x) = Byte.of_N (Byte.to_N y)) by (rewrite E; reflexivity).
    rewrite !Byte.of_to_N in E2. inversion E2. reflexivity.
Qed.

Lemma bname_ltb_strict_total : strict_total bname_ltb.
Proof. apply lex_strict_total. exact byte_ltb_strict_total. Qed.

Lemma bname_eqb_spec (x y : bname) : reflect (x = y) (bname_eqb x y).
Proof. apply parts_eqb_spec. exact byte_eqb_spec. Qed.

Lemma bname_empty_spec (x : bname) : bname_empty x = true <-> x = [].
Proof. destruct x; simpl; split; congruence. Qed.

(* every part of every walked path is a non-empty name *)
Definition valid_names (t : btree) : Prop :=
  forall e, In e (walk bname_ltb t) -> Forall (fun x : bname => x <> []) (parts_of e).

(* replica t holds a file with relative path p (as parts) and content c *)
Definition holds (t : btree) (p : list bname) (c : list byte) : Prop :=
  exists d n, p = d ++ [n] /\ file_at d n c t.

Lemma StronglySorted_map_in {T U} (R : T -> T -> Prop) (Q : U -> U -> Prop) (g : T -> U) l :
  (forall a b, In a l -> In b l -> R a b -> Q (g a) (g b)) -> StronglySorted R l -> StronglySorted Q (map g l).
Proof.
  intros H S. induction S as [|h t S IH F]; simpl; constructor.
  - apply IH. intros a b Ha Hb. apply H; right; assumption.
  - rewrite Forall_forall in *. intros x Hx. apply in_map_iff in Hx. destruct Hx as (y & <- & Hy).
    apply H; [left; reflexivity|right; exact Hy|]. apply F. exact Hy.
Qed.

Lemma replica_paths (t : btree) : map fst (replica_of t) = map parts_of (walk bname_ltb t).
Proof. unfold replica_of. rewrite map_map. reflexivity. Qed.

Lemma parts_valid (t : btree) e : valid_names t -> In e (walk bname_ltb t) -> valid [] (parts_of e).
Proof.
  intros V H. split; [|exact (V e H)]. destruct e as [[d n] a]. simpl. destruct d; discriminate.
Qed.

Lemma replica_walked (t : btree) : wf t -> valid_names t -> walked bname_ltb bname_empty [] (replica_of t).
Proof.
  intros W V. unfold walked. rewrite replica_paths. split.
  - apply (StronglySorted_map_in (entry_lt bname_ltb)); [|apply walk_sorted; [exact bname_ltb_strict_total|exact W]].
    intros a b Ha Hb. pose proof (parts_valid t a V Ha) as Va. pose proof (parts_valid t b V Hb) as Vb.
    destruct a as [[d n] pa], b as [[d' n'] pb]. unfold entry_lt, path_lt, ekey. simpl in *.
    rewrite (code_key_parts bname_empty [] bname_empty_spec d n Va).
    rewrite (code_key_parts bname_empty [] bname_empty_spec d' n' Vb). exact (fun H => H).
  - rewrite Forall_forall. intros p Hp. apply in_map_iff in Hp. destruct Hp as (e & <- & He).
    exact (parts_valid t e V He).
Qed.

Lemma replica_In (t : btree) p c : In (p, c) (replica_of t) <-> holds t p c.
Proof.
  unfold replica_of, holds. rewrite in_map_iff. split.
  - intros ([[d n] a] & E & H). simpl in E. inversion E; subst. exists d, n. split; [reflexivity|].
    apply (walk_In bname_ltb). exact H.
  - intros (d & n & -> & H). exists (d, n, c). split; [reflexivity|]. apply (walk_In bname_ltb). exact H.
Qed.

Lemma replica_lookup (t : btree) p c : wf t -> valid_names t ->
  (lookup bname_eqb p (replica_of t) = Some c <-> holds t p c).
Proof.
  intros W V. rewrite <- replica_In. split.
  - apply (lookup_In bname_eqb bname_eqb_spec).
  - apply (In_lookup bname_eqb bname_eqb_spec).
    destruct (replica_walked t W V) as [S _].
    apply (StronglySorted_NoDup (path_lt bname_ltb bname_empty [])); [|exact S].
    apply path_lt_irrefl. exact bname_ltb_strict_total.
Qed.

Lemma replica_has (t : btree) p : In p (map fst (replica_of t)) <-> exists c, holds t p c.
Proof.
  rewrite in_map_iff. split.
  - intros ([q c] & <- & H). exists c. apply replica_In. exact H.
  - intros (c & H). exists (p, c). split; [reflexivity|]. apply replica_In. exact H.
Qed.

(* the copies of p over the replicas, one per replica holding it, in replica order *)
Definition copies_in (p : list bname) (ts : list btree) : list (list byte) :=
  copies bname_eqb p (map replica_of ts).

Definition total_files (ts : list btree) : nat := total_len (map (fun t => map fst (replica_of t)) ts).

Theorem dup_aligned bs (ts : list btree) :
  Forall wf ts -> Forall valid_names ts ->
  exists rows, dup bs ts = (rows, Done) /\
    length rows <= total_files ts /\
    NoDup (map rpath rows) /\
    (forall p, In p (map rpath rows) <-> exists t c, In t ts /\ holds t p c) /\
    (forall p hs c s, In (p, hs, c, s) rows ->
       (forall i, In i hs <-> exists t c', nth_error ts i = Some t /\ holds t p c') /\
       StronglySorted lt hs /\
       (c, s) = out_spec byte_eqb bs (copies_in p ts)).
Proof.
  intros W V.
  destruct (sync_correct bname_ltb bname_eqb bname_empty [] byte_eqb bname_ltb_strict_total
              bname_eqb_spec bname_empty_spec bs (map replica_of ts))
    as (rows & E & Hlen & Hsorted & Hmem & Hrow).
  { rewrite Forall_forall in *. intros w Hw. apply in_map_iff in Hw. destruct Hw as (t & <- & Ht).
    apply replica_walked; [apply W|apply V]; exact Ht. }
  exists rows. split; [exact E|]. split.
  { unfold total_files. rewrite map_map in Hlen. exact Hlen. }
  split.
  { apply (StronglySorted_NoDup (path_lt bname_ltb bname_empty [])); [|exact Hsorted].
    apply path_lt_irrefl. exact bname_ltb_strict_total. }
  split.
  - intros p. rewrite Hmem. split.
    + intros (w & Hw & Hp). apply in_map_iff in Hw. destruct Hw as (t & <- & Ht).
      apply replica_has in Hp. destruct Hp as (c & Hc). eauto.
    + intros (t & c & Ht & Hc). exists (replica_of t). split; [apply in_map; exact Ht|].
      apply replica_has. eauto.
  - intros p hs c s Hin. destruct (Hrow p hs c s Hin) as [Eh Eo]. split; [|split].
    + intros i. rewrite Eh. rewrite (holders_In (parts_eqb bname_eqb) (parts_eqb_spec bname_eqb bname_eqb_spec)).
      rewrite map_map. split.
      * intros (w & Hn & Hp). rewrite nth_error_map in Hn. destruct (nth_error ts i) as [t|] eqn:Nt; [|discriminate].
        simpl in Hn. inversion Hn; subst. apply replica_has in Hp. destruct Hp as (c' & Hc'). eauto.
      * intros (t & c' & Hn & Hc'). exists (map fst (replica_of t)). split.
        -- rewrite nth_error_map, Hn. reflexivity.
        -- apply replica_has. eauto.
    + rewrite Eh. apply holders_sorted.
    + exact Eo.
Qed.

Theorem dup_restore bs (ts : list btree) p orig :
  Forall wf ts -> Forall valid_names ts -> 0 < bs ->
  3 <= length (copies_in p ts) ->
  length orig = maxlen (copies_in p ts) ->
  (forall i x, nth_error orig i = Some x ->
     length (column i (copies_in p ts)) < 2 * cnt byte_eqb x (column i (copies_in p ts))) ->
  exists rows hs, dup bs ts = (rows, Done) /\
    In (p, hs, orig, 0) rows /\
    (forall r, In r rows -> rpath r = p -> r = (p, hs, orig, 0)).
Proof.
  intros W V. apply (sync_restore bname_ltb bname_eqb bname_empty [] byte_eqb bname_ltb_strict_total
                       bname_eqb_spec bname_empty_spec byte_eqb_spec).
  rewrite Forall_forall in *. intros w Hw. apply in_map_iff in Hw. destruct Hw as (t & <- & Ht).
  apply replica_walked; [apply W|apply V]; exact Ht.
Qed.

(* what copies_in lists: the contents held by the replicas, in order *)
Lemma copies_in_cons p (t : btree) ts c : wf t -> valid_names t -> holds t p c ->
  copies_in p (t :: ts) = c :: copies_in p ts.
Proof.
  intros W V H. unfold copies_in, copies. simpl. apply (replica_lookup t p c W V) in H. rewrite H. reflexivity.
Qed.

Lemma copies_in_skip p (t : btree) ts : wf t -> valid_names t -> (forall c, ~ holds t p c) ->
  copies_in p (t :: ts) = copies_in p ts.
Proof.
  intros W V H. unfold copies_in, copies. simpl.
  destruct (lookup bname_eqb p (replica_of t)) as [c|] eqn:L; [|reflexivity].
  apply (replica_lookup t p c W V) in L. destruct (H c L).
Qed.
