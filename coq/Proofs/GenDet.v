(* C12, tool level: the body of a generated ecc file is a function of the set of (relative path, content) pairs and of
   the parameters only.  The generation loop of both tools is  for (dirpath, filename) in recwalk(inputpath):  -- the
   sorted walk of Walk.v (C07) -- followed by the size / extension filters and, per kept file, one entry
   marker ++ relpath ++ delim ++ size ++ delim ++ intra(relpath) ++ delim ++ intra(size) ++ delim ++ track(content)
   (Stream.generate).  Two directory trees that hold the same files (whatever the order in which the file system lists
   each directory, wherever the root is, whatever the timestamps: none of these is an input of the model) produce the
   same entries in the same order; the ecc files differ at most in the comment preamble. *)
From Coq Require Import List Bool Arith Sorting.Sorted.
From Coq Require Import Strings.Byte.
From PFF Require Import Bytes Walk Proofs.WalkP Stream Proofs.StreamP.
Import ListNotations.

Section SortedExt.
  Context {T : Type} (lt : T -> T -> Prop).
  Hypothesis lt_irrefl : forall x, ~ lt x x.
  Hypothesis lt_trans : forall x y z, lt x y -> lt y z -> lt x z.

  Lemma sorted_head_notin a l : StronglySorted lt (a :: l) -> ~ In a l.
  Proof.
    intros S H. inversion S as [|? ? _ F]; subst. rewrite Forall_forall in F. exact (lt_irrefl a (F a H)).
  Qed.

  (* a strictly sorted list is determined by its set of elements *)
  Lemma sorted_ext : forall l1 l2, StronglySorted lt l1 -> StronglySorted lt l2 ->
    (forall x, In x l1 <-> In x l2) -> l1 = l2.
  Proof.
    induction l1 as [|a l1 IH]; intros [|b l2] S1 S2 E.
    - reflexivity.
    - exfalso. apply (proj2 (E b)). left. reflexivity.
    - exfalso. apply (proj1 (E a)). left. reflexivity.
    - pose proof S1 as S1'. pose proof S2 as S2'.
      inversion S1 as [|? ? T1 F1]; subst. inversion S2 as [|? ? T2 F2]; subst.
      rewrite Forall_forall in F1, F2.
      assert (a = b) as <-.
      { destruct (proj1 (E a) (or_introl eq_refl)) as [Hb|Hb]; [symmetry; exact Hb|].
        destruct (proj2 (E b) (or_introl eq_refl)) as [Ha|Ha]; [exact Ha|].
        exfalso. apply (lt_irrefl a). apply (lt_trans a b a); [apply F1; exact Ha|apply F2; exact Hb]. }
      f_equal. apply IH; [exact T1|exact T2|].
      intros x. split; intros H.
      + destruct (proj1 (E x) (or_intror H)) as [<-|H']; [|exact H'].
        exfalso. exact (sorted_head_notin _ _ S1' H).
      + destruct (proj2 (E x) (or_intror H)) as [<-|H']; [|exact H'].
        exfalso. exact (sorted_head_notin _ _ S2' H).
  Qed.
End SortedExt.

Lemma skipn_len_app {A} (a r : list A) : skipn (length a) (a ++ r) = r.
Proof. induction a as [|x a IH]; [reflexivity|exact IH]. Qed.

Section GenDet.
  Variable nltb : list byte -> list byte -> bool.            (* Python's str < on names *)
  Hypothesis NST : strict_total nltb.
  Notation tree := (@tree (list byte) (list byte)).          (* names; payload = file content *)
  Notation entry := (@entry (list byte) (list byte)).

  Definition same_files (t1 t2 : tree) : Prop := forall d n a, file_at d n a t1 <-> file_at d n a t2.

  (* the sorted walk depends only on which files the tree holds *)
  Theorem walk_ext t1 t2 : wf t1 -> wf t2 -> same_files t1 t2 -> walk nltb t1 = walk nltb t2.
  Proof.
    intros W1 W2 E.
    apply (sorted_ext (entry_lt nltb)).
    - intros [[d n] a] H. unfold entry_lt in H.
      rewrite (st_irrefl _ (walk_ltb_strict_total nltb NST)) in H. discriminate.
    - intros x y z. unfold entry_lt. apply (st_trans _ (walk_ltb_strict_total nltb NST)).
    - apply walk_sorted; assumption.
    - apply walk_sorted; assumption.
    - intros [[d n] a]. split; intros H; apply (walk_In nltb); apply (walk_In nltb) in H; apply E; exact H.
  Qed.

  Variables marker delim : list byte.
  Variable enc track : list byte -> list byte.               (* intra-ecc of a field; hash+parity track of a content *)
  Variable keep : list byte * list byte -> bool.             (* --skip_size_below / --always_include_ext, on (relpath, content) *)

  Definition relpath (e : entry) : list byte := join [x2f] (parts_of e).    (* posix relative path *)
  Definition protected (t : tree) : list (list byte * list byte) :=
    filter keep (map (fun e => (relpath e, payload e)) (walk nltb t)).
  Definition ecc_file (preamble : list byte) (t : tree) : list byte :=
    generate marker delim enc track preamble (protected t).
  Definition ecc_body (t : tree) : list byte :=
    concat (map (fun f => marker ++ gen_entry delim enc track f) (protected t)).

  Lemma ecc_file_split preamble t : ecc_file preamble t = preamble ++ ecc_body t.
  Proof. reflexivity. Qed.

  Theorem body_deterministic t1 t2 : wf t1 -> wf t2 -> same_files t1 t2 ->
    forall pre1 pre2,
      skipn (length pre1) (ecc_file pre1 t1) = skipn (length pre2) (ecc_file pre2 t2) /\
      (pre1 = pre2 -> ecc_file pre1 t1 = ecc_file pre2 t2).
  Proof.
    intros W1 W2 E pre1 pre2. rewrite !ecc_file_split.
    assert (B : ecc_body t1 = ecc_body t2) by (unfold ecc_body, protected; rewrite (walk_ext t1 t2 W1 W2 E); reflexivity).
    split.
    - rewrite !skipn_len_app. exact B.
    - intros ->. rewrite B. reflexivity.
  Qed.

  (* in particular: any re-listing of the same directories (permuted files / sub-directories at every level) *)
  Inductive relisted : tree -> tree -> Prop :=
  | relist files files' subs subs' :
      Permutation.Permutation files files' ->
      Forall2 (fun s s' => fst s = fst s' /\ relisted (snd s) (snd s')) subs subs' ->
      forall subs'', Permutation.Permutation subs' subs'' ->
      relisted (Dir files subs) (Dir files' subs'').

  Lemma relisted_ind' (Q : tree -> tree -> Prop) :
    (forall files files' subs subs' subs'', Permutation.Permutation files files' ->
       Forall2 (fun s s' => fst s = fst s' /\ relisted (snd s) (snd s') /\ Q (snd s) (snd s')) subs subs' ->
       Permutation.Permutation subs' subs'' -> Q (Dir files subs) (Dir files' subs'')) ->
    forall t1 t2, relisted t1 t2 -> Q t1 t2.
  Proof.
    intros H. fix IH 3. intros t1 t2 [files files' subs subs' P F subs'' P2].
    apply (H files files' subs subs' subs'' P); [|exact P2].
    clear P P2. induction F as [|s s' l l' [E R] F IHF]; constructor.
    - split; [exact E|]. split; [exact R|]. apply IH. exact R.
    - exact IHF.
  Qed.

  Lemma Forall2_In_l {X Y} (R : X -> Y -> Prop) l l' : Forall2 R l l' -> forall a, In a l -> exists b, In b l' /\ R a b.
  Proof. induction 1 as [|x y l l' Hxy F IH]; intros a Ha; [destruct Ha|].
         destruct Ha as [<-|Ha]; [exists y; split; [left; reflexivity|exact Hxy]|].
         destruct (IH a Ha) as (b & Hb & Rb). exists b. split; [right; exact Hb|exact Rb]. Qed.
  Lemma Forall2_In_r {X Y} (R : X -> Y -> Prop) l l' : Forall2 R l l' -> forall b, In b l' -> exists a, In a l /\ R a b.
  Proof. induction 1 as [|x y l l' Hxy F IH]; intros b Hb; [destruct Hb|].
         destruct Hb as [<-|Hb]; [exists x; split; [left; reflexivity|exact Hxy]|].
         destruct (IH b Hb) as (a & Ha & Ra). exists a. split; [right; exact Ha|exact Ra]. Qed.

  (* a re-listing holds the same files and stays well formed *)
  Theorem relisted_same t1 t2 : relisted t1 t2 -> same_files t1 t2 /\ (wf t1 -> wf t2).
  Proof.
    induction 1 as [files files' subs subs' subs'' P F P2] using relisted_ind'. split.
    - intros d n a. destruct d as [|x d]; cbn [file_at].
      + split; intros H; [apply (Permutation.Permutation_in _ P H)|apply (Permutation.Permutation_in _ (Permutation.Permutation_sym P) H)].
      + split; intros (sub & Hin & Hf).
        * destruct (Forall2_In_l _ _ _ F _ Hin) as ([x' sub'] & Hin' & E & _ & IHs). simpl in E, IHs. subst x'.
          exists sub'. split; [apply (Permutation.Permutation_in _ P2 Hin')|apply (proj1 IHs); exact Hf].
        * apply (Permutation.Permutation_in _ (Permutation.Permutation_sym P2)) in Hin.
          destruct (Forall2_In_r _ _ _ F _ Hin) as ([x' sub'] & Hin' & E & _ & IHs). simpl in E, IHs. subst x'.
          exists sub'. split; [exact Hin'|apply (proj1 IHs); exact Hf].
    - intros W. apply wf_unfold in W. destruct W as (Nf & Ns & Ws). apply wf_unfold. split; [|split].
      + apply (Permutation.Permutation_NoDup (l := map fst files)); [apply Permutation.Permutation_map; exact P|exact Nf].
      + assert (M : map fst subs = map fst subs').
        { clear - F. induction F as [|s s' l l' [E _] F IH]; simpl; [reflexivity|]. rewrite E, IH. reflexivity. }
        apply (Permutation.Permutation_NoDup (l := map fst subs')); [apply Permutation.Permutation_map; exact P2|].
        rewrite <- M. exact Ns.
      + apply (perm_Forall _ subs' subs'' P2). rewrite Forall_forall in Ws |- *. intros [x' sub'] Hin'.
        destruct (Forall2_In_r _ _ _ F _ Hin') as ([x sub] & Hin & _ & _ & IHs). simpl in *.
        apply (proj2 IHs). exact (Ws _ Hin).
  Qed.

  Theorem relisted_same_ecc t1 t2 : wf t1 -> relisted t1 t2 ->
    forall pre1 pre2, skipn (length pre1) (ecc_file pre1 t1) = skipn (length pre2) (ecc_file pre2 t2).
  Proof.
    intros W R pre1 pre2. destruct (relisted_same t1 t2 R) as [E W2].
    exact (proj1 (body_deterministic t1 t2 W (W2 W) E pre1 pre2)).
  Qed.
End GenDet.
