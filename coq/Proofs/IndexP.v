(* Proofs/IndexP.v — lemmas about the Index model: big-endian round trip, the offsets listed by
   the index are where the markers are, the index loop restores exactly the spans of the
   accepted records and touches nothing else, the Hamming stage is the identity at threshold 0. *)
From Coq Require Import List NArith Bool Arith Lia.
From Coq Require Import Strings.Byte.
From PFF Require Import Bytes Index.
Import ListNotations.

(* ------------------------------------------------------------------ be64 *)
Lemma N_of_byte_lt b : (N_of_byte b < 256)%N.
Proof. unfold N_of_byte. pose proof (Byte.to_N_bounded b). lia. Qed.

Lemma N_of_byte_of_N x : (x < 256)%N -> N_of_byte (byte_of_N x) = x.
Proof.
  intros Hx. unfold byte_of_N, N_of_byte.
  destruct (Byte.of_N x) eqn:E.
  - apply Byte.to_of_N. exact E.
  - apply Byte.of_N_None_iff in E. lia.
Qed.

Lemma be_bytes_length n v : length (be_bytes n v) = n.
Proof.
  revert v. induction n as [|n IH]; intros v; simpl; [reflexivity|].
  rewrite app_length, IH. simpl. lia.
Qed.

Lemma unbe_snoc l b : unbe (l ++ [b]) = (unbe l * 256 + N_of_byte b)%N.
Proof. unfold unbe. rewrite fold_left_app. reflexivity. Qed.

Lemma unbe_be_bytes n v : unbe (be_bytes n v) = (v mod 256 ^ N.of_nat n)%N.
Proof.
  revert v. induction n as [|n IH]; intros v.
  - simpl. rewrite N.mod_1_r. reflexivity.
  - cbn [be_bytes]. rewrite unbe_snoc, IH.
    rewrite N_of_byte_of_N by (apply N.mod_lt; lia).
    rewrite Nat2N.inj_succ, N.pow_succ_r'.
    rewrite (N.mod_mul_r v 256 (256 ^ N.of_nat n)) by (try apply N.pow_nonzero; lia).
    lia.
Qed.

Lemma unbe_be64 v : (v < 2 ^ 64)%N -> unbe (be64 v) = v.
Proof.
  intros Hv. unfold be64. rewrite unbe_be_bytes.
  apply N.mod_small. change (256 ^ N.of_nat 8)%N with (2 ^ 64)%N. exact Hv.
Qed.

Lemma be_bytes_unbe l : be_bytes (length l) (unbe l) = l.
Proof.
  induction l as [|b l IH] using rev_ind; [reflexivity|].
  rewrite app_length. simpl length. rewrite Nat.add_1_r. cbn [be_bytes].
  rewrite unbe_snoc.
  pose proof (N_of_byte_lt b) as Hb.
  replace ((unbe l * 256 + N_of_byte b) / 256)%N with (unbe l).
  2:{ rewrite N.add_comm.
      rewrite N.div_add by lia. rewrite N.div_small by exact Hb. reflexivity. }
  replace ((unbe l * 256 + N_of_byte b) mod 256)%N with (N_of_byte b).
  2:{ rewrite N.add_comm, N.mod_add by lia. rewrite N.mod_small by exact Hb. reflexivity. }
  rewrite IH, byte_of_N_of_byte. reflexivity.
Qed.

Lemma be64_unbe l : length l = 8 -> be64 (unbe l) = l.
Proof. intros H. unfold be64. rewrite <- H. apply be_bytes_unbe. Qed.

Lemma be64_length v : length (be64 v) = 8.
Proof. apply be_bytes_length. Qed.

(* ------------------------------------------------------------------ offsets *)
Lemma lenN_app a b : lenN (a ++ b) = (lenN a + lenN b)%N.
Proof. unfold lenN. rewrite app_length. lia. Qed.

Lemma lenN_nat a : N.to_nat (lenN a) = length a.
Proof. unfold lenN. lia. Qed.

Local Opaque entrymarker field_delim.

Definition marker_len (k : byte) : nat :=
  match marker_of_kind k with Some mk => length mk | None => 0 end.

(* position i lies inside the marker/delimiter the record (kind, offset) describes *)
Definition in_span (i : nat) (ko : byte * N) : Prop :=
  N.to_nat (snd ko) <= i < N.to_nat (snd ko) + marker_len (fst ko).

(* s starts at offset o of l *)
Definition occurs_at (l : list byte) (o : N) (s : list byte) : Prop :=
  exists a b, l = a ++ s ++ b /\ lenN a = o.

Lemma entry_offsets_sa_eq pos e : entry_offsets_sa pos e = entry_offsets pos e.
Proof.
  unfold entry_offsets_sa, entry_offsets. repeat rewrite lenN_app.
  do 4 f_equal. f_equal. f_equal. lia.
Qed.

Lemma index_offsets_sa_eq pos es : index_offsets_sa pos es = index_offsets pos es.
Proof.
  unfold index_offsets_sa, index_offsets. revert pos.
  induction es as [|e t IH]; intros pos; cbn [index_offsets_gen]; [reflexivity|].
  rewrite entry_offsets_sa_eq, IH. reflexivity.
Qed.

Lemma index_offsets_app pos es1 es2 :
  index_offsets pos (es1 ++ es2) =
  index_offsets pos es1 ++ index_offsets (pos + lenN (flat_map ix_format_entry es1))%N es2.
Proof.
  unfold index_offsets. revert pos. induction es1 as [|e t IH]; intros pos; cbn [app index_offsets_gen flat_map].
  - f_equal. unfold lenN. simpl. lia.
  - rewrite IH, <- app_assoc. do 2 f_equal. rewrite lenN_app. f_equal. lia.
Qed.

(* the five records of one entry, and where they point, spelled out on the literal layout *)
Lemma entry_offsets_layout (base : list byte) (e : ientry) :
  entry_offsets (lenN base) e =
  [ (kind_marker, lenN base);
    (kind_delim, lenN (base ++ entrymarker ++ e_path e));
    (kind_delim, lenN (base ++ entrymarker ++ e_path e ++ field_delim ++ e_size e));
    (kind_delim, lenN (base ++ entrymarker ++ e_path e ++ field_delim ++ e_size e ++ field_delim ++ e_pecc e));
    (kind_delim, lenN (base ++ entrymarker ++ e_path e ++ field_delim ++ e_size e ++ field_delim ++ e_pecc e
                            ++ field_delim ++ e_secc e)) ].
Proof.
  unfold entry_offsets. repeat rewrite lenN_app. cbv zeta. repeat (f_equal; try lia).
Qed.

Lemma offsets_layout pre es1 e es2 :
  let base := pre ++ flat_map ix_format_entry es1 in
  index_offsets (lenN pre) (es1 ++ e :: es2) =
    index_offsets (lenN pre) es1 ++ entry_offsets (lenN base) e
    ++ index_offsets (lenN (base ++ ix_format_entry e)) es2
  /\ ecc_file pre (es1 ++ e :: es2) =
     base ++ entrymarker ++ e_path e ++ field_delim ++ e_size e ++ field_delim ++ e_pecc e ++ field_delim
          ++ e_secc e ++ field_delim ++ e_track e ++ flat_map ix_format_entry es2.
Proof.
  intros base. split.
  - rewrite index_offsets_app. f_equal. unfold index_offsets. cbn [index_offsets_gen].
    unfold base. rewrite !lenN_app. reflexivity.
  - unfold ecc_file, base. rewrite flat_map_app. cbn [flat_map]. unfold ix_format_entry.
    repeat rewrite <- app_assoc. reflexivity.
Qed.

Lemma entry_offsets_sound pos e k o :
  In (k, o) (entry_offsets pos e) ->
  exists mk a b, marker_of_kind k = Some mk /\ ix_format_entry e = a ++ mk ++ b /\ (pos + lenN a = o)%N.
Proof.
  unfold entry_offsets. intros H. simpl in H.
  destruct H as [H|[H|[H|[H|[H|[]]]]]]; inversion H; subst k o; clear H.
  - exists entrymarker, [], (e_path e ++ field_delim ++ e_size e ++ field_delim ++ e_pecc e ++ field_delim
                              ++ e_secc e ++ field_delim ++ e_track e).
    split; [reflexivity|]. split; [reflexivity|]. unfold lenN. simpl. lia.
  - exists field_delim, (entrymarker ++ e_path e),
      (e_size e ++ field_delim ++ e_pecc e ++ field_delim ++ e_secc e ++ field_delim ++ e_track e).
    split; [reflexivity|]. split.
    + unfold ix_format_entry. repeat rewrite <- app_assoc. reflexivity.
    + repeat rewrite lenN_app. lia.
  - exists field_delim, (entrymarker ++ e_path e ++ field_delim ++ e_size e),
      (e_pecc e ++ field_delim ++ e_secc e ++ field_delim ++ e_track e).
    split; [reflexivity|]. split.
    + unfold ix_format_entry. repeat rewrite <- app_assoc. reflexivity.
    + repeat rewrite lenN_app. lia.
  - exists field_delim, (entrymarker ++ e_path e ++ field_delim ++ e_size e ++ field_delim ++ e_pecc e),
      (e_secc e ++ field_delim ++ e_track e).
    split; [reflexivity|]. split.
    + unfold ix_format_entry. repeat rewrite <- app_assoc. reflexivity.
    + repeat rewrite lenN_app. lia.
  - exists field_delim,
      (entrymarker ++ e_path e ++ field_delim ++ e_size e ++ field_delim ++ e_pecc e ++ field_delim ++ e_secc e),
      (e_track e).
    split; [reflexivity|]. split.
    + unfold ix_format_entry. repeat rewrite <- app_assoc. reflexivity.
    + repeat rewrite lenN_app. lia.
Qed.

Lemma offsets_sound es : forall pre k o,
  In (k, o) (index_offsets (lenN pre) es) ->
  exists mk, marker_of_kind k = Some mk /\ occurs_at (ecc_file pre es) o mk.
Proof.
  induction es as [|e t IH]; intros pre k o H; [destruct H|].
  unfold index_offsets in H. cbn [index_offsets_gen] in H. apply in_app_or in H. destruct H as [H|H].
  - destruct (entry_offsets_sound _ _ _ _ H) as (mk & a & b & Hk & He & Ho).
    exists mk. split; [exact Hk|].
    exists (pre ++ a), (b ++ flat_map ix_format_entry t). split.
    + unfold ecc_file. cbn [flat_map]. rewrite He. repeat rewrite <- app_assoc. reflexivity.
    + rewrite lenN_app. exact Ho.
  - rewrite <- lenN_app in H. destruct (IH _ _ _ H) as (mk & Hk & a & b & He & Ho).
    exists mk. split; [exact Hk|]. exists a, b. split; [|exact Ho].
    rewrite <- He. unfold ecc_file. cbn [flat_map]. rewrite <- app_assoc. reflexivity.
Qed.

Lemma index_offsets_length pos es : length (index_offsets pos es) = 5 * length es.
Proof.
  unfold index_offsets. revert pos. induction es as [|e t IH]; intros pos; [reflexivity|].
  cbn [index_offsets_gen]. rewrite app_length, IH. unfold entry_offsets. simpl length. lia.
Qed.

(* ------------------------------------------------------------------ chunks *)
Lemma chunks_fuel_indep n : 0 < n -> forall f1 f2 l,
  length l <= f1 -> length l <= f2 -> chunks_fuel f1 n l = chunks_fuel f2 n l.
Proof.
  intros Hn. induction f1 as [|f1 IH]; intros f2 l H1 H2.
  - destruct l; [|simpl in H1; lia]. destruct f2; reflexivity.
  - destruct l as [|x l].
    + destruct f2; reflexivity.
    + destruct f2 as [|f2]; [simpl in H2; lia|].
      cbn [chunks_fuel]. f_equal.
      assert (HL : length (skipn n (x :: l)) <= length l).
      { rewrite skipn_length. cbn [length]. lia. }
      apply IH; simpl in H1, H2; lia.
Qed.

Lemma chunks_nil n : chunks n [] = [].
Proof. reflexivity. Qed.

Lemma chunks_cons n b l : 0 < n -> length b = n -> chunks n (b ++ l) = b :: chunks n l.
Proof.
  intros Hn Hb. unfold chunks. rewrite app_length, Hb.
  destruct n as [|n]; [lia|]. cbn [Nat.add chunks_fuel].
  destruct (b ++ l) eqn:E.
  - destruct b; simpl in Hb; [lia|discriminate].
  - rewrite <- E. rewrite <- Hb at 1 3.
    rewrite firstn_app, Nat.sub_diag, firstn_all, firstn_O, app_nil_r.
    rewrite skipn_app, Nat.sub_diag, skipn_all. simpl skipn. f_equal.
    apply chunks_fuel_indep; lia.
Qed.

Lemma chunks_concat n bl t : 0 < n -> Forall (fun b => length b = n) bl ->
  chunks n (concat bl ++ t) = bl ++ chunks n t.
Proof.
  intros Hn H. induction H as [|b bl Hb _ IH]; [reflexivity|].
  simpl. rewrite <- app_assoc, chunks_cons by assumption. rewrite IH. reflexivity.
Qed.

Lemma chunks_short n t : t <> [] -> length t <= n -> chunks n t = [t].
Proof.
  intros Ht Hl. unfold chunks. destruct t as [|x t]; [congruence|].
  cbn [length chunks_fuel]. rewrite firstn_all2 by exact Hl.
  rewrite skipn_all2 by exact Hl. destruct (length t); reflexivity.
Qed.

(* ------------------------------------------------------------------ write_at *)
Lemma nth_skipn (l : list byte) : forall n i, nth_error (skipn n l) i = nth_error l (n + i).
Proof.
  induction l as [|x l IH]; intros [|n] i; simpl; try reflexivity.
  - destruct i; reflexivity.
  - apply IH.
Qed.

Lemma nth_firstn (l : list byte) : forall n i, i < n -> nth_error (firstn n l) i = nth_error l i.
Proof.
  induction l as [|x l IH]; intros [|n] [|i] H; simpl; try reflexivity; try lia.
  apply IH. lia.
Qed.

Lemma write_at_length ecc o m : o + length m <= length ecc -> length (write_at ecc o m) = length ecc.
Proof.
  intros H. unfold write_at. repeat rewrite app_length.
  rewrite firstn_length, skipn_length. lia.
Qed.

Lemma write_at_nth ecc o m i : o + length m <= length ecc ->
  nth_error (write_at ecc o m) i =
  if (o <=? i) && (i <? o + length m) then nth_error m (i - o) else nth_error ecc i.
Proof.
  intros H. unfold write_at.
  assert (Hf : length (firstn o ecc) = o) by (rewrite firstn_length; lia).
  destruct (o <=? i) eqn:E1; simpl.
  - apply Nat.leb_le in E1.
    rewrite nth_error_app2 by lia. rewrite Hf.
    destruct (i <? o + length m) eqn:E2.
    + apply Nat.ltb_lt in E2. rewrite nth_error_app1 by lia. reflexivity.
    + apply Nat.ltb_ge in E2. rewrite nth_error_app2 by lia.
      rewrite nth_skipn. f_equal. lia.
  - apply Nat.leb_gt in E1. rewrite nth_error_app1 by lia.
    apply nth_firstn. exact E1.
Qed.

Lemma occurs_at_nth l o s : occurs_at l o s ->
  N.to_nat o + length s <= length l /\
  forall i, N.to_nat o <= i < N.to_nat o + length s -> nth_error s (i - N.to_nat o) = nth_error l i.
Proof.
  intros (a & b & -> & <-). rewrite lenN_nat. split.
  - repeat rewrite app_length. lia.
  - intros i Hi. rewrite nth_error_app2 by lia. rewrite nth_error_app1 by lia. reflexivity.
Qed.

(* ------------------------------------------------------------------ applying a list of writes *)
Definition apply_writes (W : list (nat * list byte)) (cur : list byte) : list byte :=
  fold_left (fun c w => write_at c (fst w) (snd w)) W cur.

Definition covers (i : nat) (w : nat * list byte) : bool :=
  (fst w <=? i) && (i <? fst w + length (snd w)).

(* w writes bytes the pristine file already has there *)
Definition pristine_write (ecc : list byte) (w : nat * list byte) : Prop :=
  fst w + length (snd w) <= length ecc /\
  forall i, covers i w = true -> nth_error (snd w) (i - fst w) = nth_error ecc i.

Lemma apply_writes_spec ecc W : Forall (pristine_write ecc) W -> forall cur,
  length cur = length ecc ->
  length (apply_writes W cur) = length ecc /\
  forall i, nth_error (apply_writes W cur) i =
            if existsb (covers i) W then nth_error ecc i else nth_error cur i.
Proof.
  induction 1 as [|w W Hw _ IH]; intros cur Hl.
  - split; [exact Hl|reflexivity].
  - destruct Hw as [Hr Hb]. cbn [apply_writes fold_left].
    assert (Hl' : length (write_at cur (fst w) (snd w)) = length ecc).
    { rewrite write_at_length; lia. }
    destruct (IH _ Hl') as [IH1 IH2]. split; [exact IH1|].
    intros i. unfold apply_writes in IH2. rewrite IH2. cbn [existsb].
    destruct (existsb (covers i) W); [rewrite orb_true_r; reflexivity|].
    rewrite orb_false_r. rewrite write_at_nth by lia.
    fold (covers i w). destruct (covers i w) eqn:E; [apply Hb; exact E|reflexivity].
Qed.

Lemma option_byte_eq_dec (a b : option byte) : {a = b} + {a <> b}.
Proof.
  destruct a as [x|], b as [y|]; try (right; discriminate); [|left; reflexivity].
  destruct (byte_eqb_spec x y) as [->|Hn]; [left; reflexivity|right; congruence].
Qed.

(* ------------------------------------------------------------------ hamming *)
Lemma app_eq_length (a : list byte) : forall c b d,
  a ++ b = c ++ d -> length a = length c -> a = c /\ b = d.
Proof.
  induction a as [|x a IH]; intros [|y c] b d H Hl; simpl in *; try discriminate.
  - split; [reflexivity|exact H].
  - inversion H; subst. destruct (IH c b d) as [-> ->]; [assumption|lia|]. split; reflexivity.
Qed.

Lemma hamming_zero_eq a : forall b, length a = length b -> hamming a b = 0 -> a = b.
Proof.
  induction a as [|x a IH]; intros [|y b] Hl H; try discriminate; [reflexivity|].
  simpl in H. destruct (byte_eqb_spec x y) as [->|]; [|lia].
  f_equal. apply IH; [simpl in Hl; lia|lia].
Qed.

Lemma hamming_refl a : hamming a a = 0.
Proof.
  induction a as [|x a IH]; [reflexivity|]. simpl.
  destruct (byte_eqb_spec x x); [exact IH|congruence].
Qed.

(* ------------------------------------------------------------------ the index loop *)
Section Codec.
  Variable enc : list byte -> list byte.
  Variable chk : list byte -> list byte -> bool.
  Variable dec : list byte -> list byte -> option (list byte * list byte).

  Notation block_infos := (block_infos chk dec).
  Notation block_write := (block_write chk dec).
  Notation recover_block := (recover_block chk dec).
  Notation recover_index := (recover_index chk dec).
  Notation mk_record := (mk_record enc).

  Lemma valid_infos_range size m off mk :
    valid_infos size m = Some (off, mk) -> off + length mk <= size.
  Proof.
    unfold valid_infos. destruct m as [|k posb]; [discriminate|].
    destruct (negb (length (k :: posb) =? msz)); [discriminate|].
    destruct (marker_of_kind k) as [mk'|]; [|discriminate].
    destruct (unbe posb + lenN mk' <=? N.of_nat size)%N eqn:E; [|discriminate].
    intros H. inversion H; subst. apply N.leb_le in E. unfold lenN in E. lia.
  Qed.

  Lemma recover_block_length cur b : length (recover_block cur b) = length cur.
  Proof.
    unfold recover_block, Index.recover_block, Index.block_write.
    destruct (Index.block_infos chk dec b) as [m|]; [|reflexivity].
    destruct (valid_infos (length cur) m) as [[off mk]|] eqn:E; [|reflexivity].
    apply write_at_length. eapply valid_infos_range. exact E.
  Qed.

  Lemma fold_recover_length bl : forall cur, length (fold_left recover_block bl cur) = length cur.
  Proof.
    induction bl as [|b bl IH]; intros cur; [reflexivity|].
    simpl. rewrite IH. apply recover_block_length.
  Qed.

  Lemma recover_index_length cur idx : length (recover_index cur idx) = length cur.
  Proof. apply fold_recover_length. Qed.

  (* the writes the blocks of an index perform on a file of the given size *)
  Definition writes_of (size : nat) (bl : list (list byte)) : list (nat * list byte) :=
    flat_map (fun b => match block_write size b with Some w => [w] | None => [] end) bl.

  Lemma fold_recover_writes bl : forall cur,
    fold_left recover_block bl cur = apply_writes (writes_of (length cur) bl) cur.
  Proof.
    induction bl as [|b bl IH]; intros cur; [reflexivity|].
    cbn [fold_left]. rewrite IH, recover_block_length.
    unfold writes_of at 2. cbn [flat_map]. fold (writes_of (length cur) bl).
    unfold recover_block, Index.recover_block.
    destruct (Index.block_write chk dec (length cur) b) as [[off mk]|]; reflexivity.
  Qed.

  (* ---- hypotheses on the codec ---- *)
  Definition chk_enc_hyp := forall m, length m = msz -> chk m (enc m) = true.
  Definition enc_len_hyp := forall m, length m = msz -> length (enc m) = esz.
  (* two parity-valid words of the right shape that differ in at most 18 places are equal *)
  Definition code_dist_hyp := forall m1 p1 m2 p2,
    length m1 = msz -> length p1 = esz -> length m2 = msz -> length p2 = esz ->
    chk m1 p1 = true -> chk m2 p2 = true ->
    hamming (m1 ++ p1) (m2 ++ p2) <= esz -> m1 ++ p1 = m2 ++ p2.
  (* at most 9 wrong bytes: the decoder returns the codeword *)
  Definition dec_complete_hyp := forall m p m0,
    length m = msz -> length p = esz -> length m0 = msz ->
    hamming (m ++ p) (m0 ++ enc m0) <= 9 -> dec m p = Some (m0, enc m0).

  Lemma record_msg_length ko : length (record_msg ko) = msz.
  Proof. unfold record_msg. cbn [length]. rewrite be64_length. reflexivity. Qed.

  Lemma mk_record_length ko : enc_len_hyp -> length (mk_record ko) = rsz.
  Proof.
    intros He. unfold mk_record, Index.mk_record. rewrite app_length, record_msg_length.
    rewrite He by apply record_msg_length. reflexivity.
  Qed.

  Lemma gen_index_chunks pre es : enc_len_hyp ->
    chunks rsz (gen_index enc pre es) = map mk_record (index_offsets (lenN pre) es).
  Proof.
    intros He. unfold gen_index. rewrite flat_map_concat_map.
    rewrite <- (app_nil_r (concat _)). rewrite chunks_concat.
    - rewrite chunks_nil, app_nil_r. reflexivity.
    - unfold rsz. lia.
    - apply Forall_forall. intros b Hb. apply in_map_iff in Hb. destruct Hb as (ko & <- & _).
      apply mk_record_length. exact He.
  Qed.

  (* a block within 9 bytes of a genuine record yields that record's message *)
  Lemma close_block_infos b ko :
    chk_enc_hyp -> enc_len_hyp -> code_dist_hyp -> dec_complete_hyp ->
    length b = rsz -> hamming b (mk_record ko) <= 9 ->
    block_infos b = Some (record_msg ko).
  Proof.
    intros Hce Hel Hcd Hdc Hb Hh.
    unfold block_infos, Index.block_infos.
    set (m := firstn msz b). set (p := skipn msz b).
    assert (Hm : length m = msz) by (unfold m; rewrite firstn_length; unfold msz, rsz in *; lia).
    assert (Hp : length p = esz) by (unfold p; rewrite skipn_length; unfold msz, esz, rsz in *; lia).
    assert (Hbp : b = m ++ p) by (unfold m, p; symmetry; apply firstn_skipn).
    pose proof (record_msg_length ko) as Hr.
    unfold mk_record, Index.mk_record in Hh. cbv zeta in Hh. rewrite Hbp in Hh.
    destruct (chk m p) eqn:Ec.
    - assert (E : m ++ p = record_msg ko ++ enc (record_msg ko)).
      { apply Hcd; auto. unfold esz. lia. }
      apply app_eq_length in E; [|lia]. destruct E as [-> _]. reflexivity.
    - rewrite (Hdc m p (record_msg ko)) by assumption.
      rewrite Hce by exact Hr. reflexivity.
  Qed.
End Codec.

(* ------------------------------------------------------------------ the Hamming stage at threshold 0 *)
Lemma scan_marker_zero marker i p w sk :
  fst (fst (scan_marker 0 marker i p w sk [])) = [].
Proof.
  unfold scan_marker. cbn [near tl].
  destruct (hamming (firstn (length marker) w) marker =? 0) eqn:E; [reflexivity|].
  destruct (hamming (firstn (length marker) w) marker <=? 0) eqn:E2; [|reflexivity].
  apply Nat.leb_le in E2. apply Nat.eqb_neq in E. lia.
Qed.

Definition no_detection (st : hstate) : Prop := h_mp1 st = [] /\ h_mp2 st = [].

Lemma scan_pos_zero i p w st : no_detection st -> no_detection (scan_pos 0 0 i p w st).
Proof.
  intros [H1 H2]. unfold scan_pos. destruct (i <? h_skip st); [split; assumption|].
  rewrite H1, H2.
  pose proof (scan_marker_zero entrymarker i p w (h_skip st)) as Ha.
  destruct (scan_marker 0 entrymarker i p w (h_skip st) []) as [[mp1 sk1] brk]. simpl in Ha. subst mp1.
  destruct brk; [split; reflexivity|].
  pose proof (scan_marker_zero field_delim i p w sk1) as Hb.
  destruct (scan_marker 0 field_delim i p w sk1 []) as [[mp2 sk2] brk2]. simpl in Hb. subst mp2.
  split; reflexivity.
Qed.

Lemma scan_buf_zero count : forall i p rest st,
  no_detection st -> no_detection (scan_buf 0 0 count i p rest st).
Proof.
  induction count as [|c IH]; intros i p rest st H; [exact H|].
  cbn [scan_buf]. apply IH. apply scan_pos_zero. exact H.
Qed.

Lemma scan_file_zero fuel bs ecc : forall curpos st,
  no_detection st -> no_detection (scan_file fuel 0 0 bs ecc curpos st).
Proof.
  induction fuel as [|f IH]; intros curpos st H; [exact H|].
  cbn [scan_file]. destruct (firstn bs (skipn curpos ecc)) eqn:E; [exact H|].
  apply IH. apply scan_buf_zero. exact H.
Qed.

Lemma hamming_stage_zero bs ecc : hamming_stage 0 0 bs ecc = ecc.
Proof.
  unfold hamming_stage.
  destruct (scan_file_zero (S (length ecc)) bs ecc 0 (mk_hstate 0 [] [])) as [H1 H2]; [split; reflexivity|].
  rewrite H1, H2. reflexivity.
Qed.

Lemma recover_zero chk dec bs ecc idx :
  recover chk dec 0 0 bs ecc idx = recover_index chk dec ecc idx.
Proof. unfold recover. apply hamming_stage_zero. Qed.

(* ------------------------------------------------------------------ recovery theorems *)
Section Recover.
  Variable enc : list byte -> list byte.
  Variable chk : list byte -> list byte -> bool.
  Variable dec : list byte -> list byte -> option (list byte * list byte).
  Variables (pre : list byte) (es : list ientry).

  Let ecc := ecc_file pre es.
  Let offs := index_offsets (lenN pre) es.

  (* block b is accepted by check / decode / re-check and yields the message of record ko *)
  Definition accepted_as (b : list byte) (ko : byte * N) : Prop :=
    block_infos chk dec b = Some (record_msg ko).

  (* block b is either skipped or yields a genuine record of this ecc file *)
  Definition block_ok (b : list byte) : Prop :=
    block_write chk dec (length ecc) b = None \/ exists ko, In ko offs /\ accepted_as b ko.

  Definition write_of (ko : byte * N) : nat * list byte :=
    (N.to_nat (snd ko), match marker_of_kind (fst ko) with Some mk => mk | None => [] end).

  Lemma in_span_covers i ko : in_span i ko <-> covers i (write_of ko) = true.
  Proof.
    unfold in_span, covers, write_of, marker_len. cbn [fst snd].
    rewrite andb_true_iff, Nat.leb_le, Nat.ltb_lt.
    destruct (marker_of_kind (fst ko)); reflexivity.
  Qed.

  Hypothesis Hsize : (lenN ecc < 2 ^ 64)%N.

  Lemma genuine_valid ko : In ko offs ->
    valid_infos (length ecc) (record_msg ko) = Some (write_of ko) /\ pristine_write ecc (write_of ko).
  Proof.
    destruct ko as [k o]. intros Hin.
    destruct (offsets_sound es pre k o Hin) as (mk & Hk & Hocc).
    fold ecc in Hocc. destruct (occurs_at_nth _ _ _ Hocc) as [Hr Hn].
    assert (Ho : (o + lenN mk <= lenN ecc)%N) by (unfold lenN; lia).
    assert (Ho64 : (o < 2 ^ 64)%N) by lia.
    unfold write_of. cbn [fst snd]. rewrite Hk. split.
    - unfold valid_infos, record_msg. cbn [fst snd].
      replace (length (k :: be64 o) =? msz) with true
        by (cbn [length]; rewrite be64_length; reflexivity).
      cbn [negb]. rewrite Hk. rewrite unbe_be64 by exact Ho64.
      fold (lenN ecc). apply N.leb_le in Ho. rewrite Ho. reflexivity.
    - split; cbn [fst snd]; [exact Hr|].
      intros i Hc. unfold covers in Hc. cbn [fst snd] in Hc.
      apply andb_true_iff in Hc. destruct Hc as [H1 H2].
      apply Nat.leb_le in H1. apply Nat.ltb_lt in H2. apply Hn. lia.
  Qed.

  Lemma writes_of_blocks bl : Forall block_ok bl ->
    Forall (pristine_write ecc) (writes_of chk dec (length ecc) bl) /\
    (forall w, In w (writes_of chk dec (length ecc) bl) ->
               exists b ko, In b bl /\ In ko offs /\ accepted_as b ko /\ w = write_of ko) /\
    (forall b ko, In b bl -> In ko offs -> accepted_as b ko ->
                  In (write_of ko) (writes_of chk dec (length ecc) bl)).
  Proof.
    assert (Hacc : forall b ko, In ko offs -> accepted_as b ko ->
                   block_write chk dec (length ecc) b = Some (write_of ko)).
    { intros b ko Hin Ha. unfold block_write. unfold accepted_as in Ha. rewrite Ha.
      apply genuine_valid. exact Hin. }
    induction 1 as [|b bl Hb _ IH].
    - split; [constructor|]. split; [intros w []|intros b ko []].
    - destruct IH as (IH1 & IH2 & IH3). unfold writes_of. cbn [flat_map]. fold (writes_of chk dec (length ecc) bl).
      destruct Hb as [Hb|(ko & Hin & Ha)].
      + rewrite Hb. cbn [app]. split; [exact IH1|]. split.
        * intros w Hw. destruct (IH2 w Hw) as (b' & ko & H1 & H2). exists b', ko. split; [right; exact H1|exact H2].
        * intros b' ko [<-|Hb'] Hin Ha; [|apply IH3 with b'; assumption].
          rewrite (Hacc _ _ Hin Ha) in Hb. discriminate.
      + rewrite (Hacc _ _ Hin Ha). cbn [app]. split.
        * constructor; [apply genuine_valid; exact Hin|exact IH1].
        * split.
          -- intros w [<-|Hw].
             ++ exists b, ko. repeat split; try assumption. left. reflexivity.
             ++ destruct (IH2 w Hw) as (b' & ko' & H1 & H2). exists b', ko'. split; [right; exact H1|exact H2].
          -- intros b' ko' [<-|Hb'] Hin' Ha'.
             ++ left. pose proof (Hacc _ _ Hin' Ha') as E. rewrite (Hacc _ _ Hin Ha) in E.
                congruence.
             ++ right. apply IH3 with b'; assumption.
  Qed.

  (* the index loop: the span of every accepted genuine record is restored, nothing else changes *)
  Theorem recover_index_spec ecc' idx' :
    length ecc' = length ecc ->
    Forall block_ok (chunks rsz idx') ->
    let r := recover_index chk dec ecc' idx' in
    length r = length ecc /\
    (forall i ko b, In b (chunks rsz idx') -> In ko offs -> accepted_as b ko -> in_span i ko ->
                    nth_error r i = nth_error ecc i) /\
    (forall i, (forall ko b, In b (chunks rsz idx') -> In ko offs -> accepted_as b ko -> ~ in_span i ko) ->
               nth_error r i = nth_error ecc' i).
  Proof.
    intros Hl Hok r. subst r. unfold recover_index.
    rewrite fold_recover_writes. rewrite Hl.
    destruct (writes_of_blocks _ Hok) as (W1 & W2 & W3).
    destruct (apply_writes_spec ecc _ W1 ecc' Hl) as [S1 S2].
    split; [exact S1|]. split.
    - intros i ko b Hb Hin Ha Hs. rewrite S2.
      replace (existsb (covers i) (writes_of chk dec (length ecc) (chunks rsz idx'))) with true; [reflexivity|].
      symmetry. apply existsb_exists. exists (write_of ko). split.
      + apply W3 with b; assumption.
      + apply in_span_covers. exact Hs.
    - intros i Hno. rewrite S2.
      destruct (existsb (covers i) (writes_of chk dec (length ecc) (chunks rsz idx'))) eqn:E; [|reflexivity].
      apply existsb_exists in E. destruct E as (w & Hw & Hc).
      destruct (W2 w Hw) as (b & ko & Hb & Hin & Ha & ->).
      exfalso. apply (Hno ko b Hb Hin Ha). apply in_span_covers. exact Hc.
  Qed.

  Lemma nth_error_ext (a b : list byte) :
    length a = length b -> (forall i, nth_error a i = nth_error b i) -> a = b.
  Proof.
    revert b. induction a as [|x a IH]; intros [|y b] Hl H; try discriminate; [reflexivity|].
    pose proof (H 0) as H0. simpl in H0. inversion H0; subst. f_equal.
    apply IH; [simpl in Hl; lia|]. intros i. apply (H (S i)).
  Qed.

  Hypothesis Hce : chk_enc_hyp enc chk.
  Hypothesis Hel : enc_len_hyp enc.
  Hypothesis Hcd : code_dist_hyp chk.
  Hypothesis Hdc : dec_complete_hyp enc dec.

  Lemma close_all (L : list (byte * N)) recs' :
    Forall2 (fun r' ko => length r' = rsz /\ hamming r' (mk_record enc ko) <= 9) recs' L ->
    Forall (fun b => length b = rsz) recs' /\
    (forall ko, In ko L -> exists b, In b recs' /\ accepted_as b ko) /\
    Forall (fun b => exists ko, In ko L /\ accepted_as b ko) recs'.
  Proof.
    induction 1 as [|r' ko rs os [H1 H2] _ (IH1 & IH2 & IH3)].
    - split; [constructor|]. split; [intros ko []|constructor].
    - assert (Ha : accepted_as r' ko) by (apply (close_block_infos enc chk dec); assumption).
      split; [constructor; assumption|]. split.
      + intros ko' [<-|Hin].
        * exists r'. split; [left; reflexivity|exact Ha].
        * destruct (IH2 _ Hin) as (b & Hb & Hab). exists b. split; [right; exact Hb|exact Hab].
      + constructor.
        * exists ko. split; [left; reflexivity|exact Ha].
        * eapply Forall_impl; [|exact IH3]. intros b (ko' & Hin & Hab).
          exists ko'. split; [right; exact Hin|exact Hab].
  Qed.

  (* every record within 9 wrong bytes, damage of the ecc file confined to the marker spans:
     the pristine file comes back *)
  Theorem recover_index_exact ecc' recs' :
    length ecc' = length ecc ->
    (forall i, nth_error ecc' i <> nth_error ecc i -> exists ko, In ko offs /\ in_span i ko) ->
    Forall2 (fun r' ko => length r' = rsz /\ hamming r' (mk_record enc ko) <= 9) recs' offs ->
    recover_index chk dec ecc' (concat recs') = ecc.
  Proof.
    intros Hl Hdiff HF.
    destruct (close_all _ _ HF) as (Hlen & Hacc & Hall).
    assert (Hch : chunks rsz (concat recs') = recs').
    { rewrite <- (app_nil_r (concat recs')). rewrite chunks_concat; [|unfold rsz; lia|exact Hlen].
      rewrite chunks_nil. apply app_nil_r. }
    assert (Hok : Forall block_ok (chunks rsz (concat recs'))).
    { rewrite Hch. eapply Forall_impl; [|exact Hall]. intros b H. right. exact H. }
    destruct (recover_index_spec ecc' (concat recs') Hl Hok) as (R1 & R2 & R3).
    apply nth_error_ext; [exact R1|]. intros i.
    destruct (existsb (fun ko => covers i (write_of ko)) offs) eqn:E.
    - apply existsb_exists in E. destruct E as (ko & Hin & Hc).
      destruct (Hacc ko Hin) as (b & Hb & Ha). rewrite Hch in R2.
      apply (R2 i ko b Hb Hin Ha). apply in_span_covers. exact Hc.
    - rewrite R3.
      + destruct (option_byte_eq_dec (nth_error ecc' i) (nth_error ecc i)) as [Heq|Hne]; [exact Heq|].
        destruct (Hdiff i Hne) as (ko & Hin & Hs). exfalso.
        assert (existsb (fun ko => covers i (write_of ko)) offs = true).
        { apply existsb_exists. exists ko. split; [exact Hin|]. apply in_span_covers. exact Hs. }
        congruence.
      + intros ko b _ Hin _ Hs.
        assert (existsb (fun ko => covers i (write_of ko)) offs = true).
        { apply existsb_exists. exists ko. split; [exact Hin|]. apply in_span_covers. exact Hs. }
        congruence.
  Qed.
End Recover.

(* a last block the codec rejects (truncated record, stray bytes) changes nothing *)
Lemma recover_index_tail_skipped chk dec ecc' bl tail :
  Forall (fun b => length b = rsz) bl -> tail <> [] -> length tail <= rsz ->
  block_write chk dec (length ecc') tail = None ->
  recover_index chk dec ecc' (concat bl ++ tail) = recover_index chk dec ecc' (concat bl).
Proof.
  intros Hbl Ht Hl Hrej. unfold recover_index.
  rewrite chunks_concat; [|unfold rsz; lia|exact Hbl].
  rewrite (chunks_short _ _ Ht Hl), fold_left_app. cbn [fold_left].
  rewrite <- (app_nil_r (concat bl)). rewrite chunks_concat; [|unfold rsz; lia|exact Hbl].
  rewrite chunks_nil, app_nil_r.
  unfold recover_block at 1. rewrite fold_recover_length, Hrej. reflexivity.
Qed.

(* each generated record carries a valid parity *)
Lemma record_parity_valid enc chk ko : chk_enc_hyp enc chk ->
  chk (firstn msz (mk_record enc ko)) (skipn msz (mk_record enc ko)) = true.
Proof.
  intros H. unfold mk_record. pose proof (record_msg_length ko) as Hr.
  rewrite <- Hr. rewrite firstn_app, skipn_app, Nat.sub_diag, firstn_all, skipn_all.
  cbn [firstn skipn app]. rewrite app_nil_r.
  apply H. exact Hr.
Qed.

(* decoder completeness is necessary: with a decoder that refuses, a record with even one wrong
   byte is skipped (the check cannot accept it: it is too close to a codeword) *)
Lemma refusing_decoder_skips enc chk :
  chk_enc_hyp enc chk -> enc_len_hyp enc -> code_dist_hyp chk ->
  forall b ko, length b = rsz -> 0 < hamming b (mk_record enc ko) <= esz ->
  block_infos chk (fun _ _ => None) b = None.
Proof.
  intros Hce Hel Hcd b ko Hb [Hpos Hle]. unfold block_infos.
  set (m := firstn msz b). set (p := skipn msz b).
  assert (Hm : length m = msz) by (unfold m; rewrite firstn_length; unfold msz, rsz in *; lia).
  assert (Hp : length p = esz) by (unfold p; rewrite skipn_length; unfold msz, esz, rsz in *; lia).
  assert (Hbp : b = m ++ p) by (unfold m, p; symmetry; apply firstn_skipn).
  pose proof (record_msg_length ko) as Hr.
  destruct (chk m p) eqn:Ec; [|reflexivity]. exfalso.
  unfold mk_record in Hpos, Hle. rewrite Hbp in Hpos, Hle.
  assert (E : m ++ p = record_msg ko ++ enc (record_msg ko)) by (apply Hcd; auto).
  rewrite E, hamming_refl in Hpos. lia.
Qed.

Lemma hamming_first_byte x y l : x <> y -> hamming (x :: l) (y :: l) = 1.
Proof.
  intros Hn. simpl. destruct (byte_eqb_spec x y); [congruence|]. rewrite hamming_refl. reflexivity.
Qed.
