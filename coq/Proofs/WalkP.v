(* WalkP.v — proofs about Walk.v: the stable sort, the lexicographic order, and
   walk_sorted: the sorted recursive walk returns its files strictly increasing for walk_ltb. *)
From Coq Require Import List Arith Bool Sorted Permutation Lia.
From PFF Require Import Walk.
Import ListNotations.

(* ---------- strict total orders given by a boolean test ---------- *)
Record strict_total {K : Type} (klt : K -> K -> bool) : Prop := {
  st_irrefl : forall x, klt x x = false;
  st_trans : forall x y z, klt x y = true -> klt y z = true -> klt x z = true;
  st_total : forall x y, klt x y = false -> klt y x = false -> x = y }.

Section Order.
  Context {K : Type} (klt : K -> K -> bool) (ST : strict_total klt).

  Lemma st_asym x y : klt x y = true -> klt y x = false.
  Proof.
    intros H. destruct (klt y x) eqn:E; [|reflexivity].
    rewrite <- (st_irrefl klt ST x). symmetry. exact (st_trans klt ST _ _ _ H E).
  Qed.

  (* "not greater" is transitive *)
  Lemma st_le_trans x y z : klt y x = false -> klt z y = false -> klt z x = false.
  Proof.
    intros H1 H2. destruct (klt z x) eqn:E; [|reflexivity].
    destruct (klt x y) eqn:E2.
    - rewrite (st_trans klt ST _ _ _ E E2) in H2. discriminate.
    - assert (x = y) by (apply (st_total klt ST); assumption). subst. congruence.
  Qed.

  Lemma st_le_lt_trans x y z : klt y x = false -> klt y z = true -> klt x z = true.
  Proof.
    intros H1 H2. destruct (klt x y) eqn:E.
    - exact (st_trans klt ST _ _ _ E H2).
    - assert (x = y) by (apply (st_total klt ST); assumption). subst. exact H2.
  Qed.

  Lemma st_lt_le_trans x y z : klt x y = true -> klt z y = false -> klt x z = true.
  Proof.
    intros H1 H2. destruct (klt y z) eqn:E.
    - exact (st_trans klt ST _ _ _ H1 E).
    - assert (y = z) by (apply (st_total klt ST); assumption). subst. exact H1.
  Qed.

  Lemma st_neq_lt x y : x <> y -> klt y x = false -> klt x y = true.
  Proof.
    intros N H. destruct (klt x y) eqn:E; [reflexivity|].
    exfalso. apply N. apply (st_total klt ST); assumption.
  Qed.
End Order.

Lemma perm_Forall {T} (Q : T -> Prop) l1 l2 : Permutation l1 l2 -> Forall Q l1 -> Forall Q l2.
Proof.
  intros Hp F. rewrite Forall_forall in *. intros x Hx. apply F.
  apply (Permutation_in (l := l2)); [symmetry; exact Hp|exact Hx].
Qed.

(* ---------- the stable insertion sort ---------- *)
Section SortP.
  Context {E K : Type} (key : E -> K) (klt : K -> K -> bool) (ST : strict_total klt).

  Definition kle (a b : E) : Prop := klt (key b) (key a) = false.
  Definition klt' (a b : E) : Prop := klt (key a) (key b) = true.

  Lemma ins_by_perm e l : Permutation (ins_by key klt e l) (e :: l).
  Proof.
    induction l as [|h t IH]; simpl; [reflexivity|].
    destruct (klt (key h) (key e)).
    - rewrite IH. apply perm_swap.
    - reflexivity.
  Qed.

  Lemma sort_by_perm l : Permutation (sort_by key klt l) l.
  Proof.
    induction l as [|h t IH]; simpl; [constructor|].
    rewrite ins_by_perm. constructor. exact IH.
  Qed.

  Lemma ins_by_sorted e l : StronglySorted kle l -> StronglySorted kle (ins_by key klt e l).
  Proof.
    induction l as [|h t IH]; intros S; simpl.
    - constructor; constructor.
    - inversion S as [|? ? S' F]; subst.
      destruct (klt (key h) (key e)) eqn:C.
      + constructor; [apply IH; exact S'|].
        apply (perm_Forall _ (e :: t)); [symmetry; apply ins_by_perm|].
        constructor; [|exact F]. unfold kle. apply (st_asym klt ST). exact C.
      + constructor; [exact S|]. constructor; [exact C|].
        rewrite Forall_forall in *. intros x Hx. unfold kle in *.
        apply (st_le_trans klt ST _ (key h)); [exact C|]. apply F. exact Hx.
  Qed.

  Lemma sort_by_sorted l : StronglySorted kle (sort_by key klt l).
  Proof.
    induction l as [|h t IH]; simpl; [constructor|]. apply ins_by_sorted. exact IH.
  Qed.

  (* with pairwise distinct keys the result is strictly increasing *)
  Lemma sorted_strict l : NoDup (map key l) -> StronglySorted kle l -> StronglySorted klt' l.
  Proof.
    induction l as [|h t IH]; intros N S; [constructor|].
    inversion S as [|? ? S' F]; subst. simpl in N. inversion N as [|? ? Nh Nt]; subst.
    constructor; [apply IH; assumption|].
    rewrite Forall_forall in *. intros x Hx. unfold klt'.
    apply (st_neq_lt klt ST); [|apply F; exact Hx].
    intros Eq. apply Nh. rewrite Eq. apply in_map. exact Hx.
  Qed.

  Lemma sort_by_strict l : NoDup (map key l) -> StronglySorted klt' (sort_by key klt l).
  Proof.
    intros N. apply sorted_strict; [|apply sort_by_sorted].
    apply (Permutation_NoDup (l := map key l)); [|exact N].
    apply Permutation_map. symmetry. apply sort_by_perm.
  Qed.

  (* stability: the elements of one key class keep their order *)
  Lemma ins_by_filter (f : E -> bool) e l :
    (forall a b, f a = true -> f b = true -> klt (key a) (key b) = false) ->
    filter f (ins_by key klt e l) = if f e then e :: filter f l else filter f l.
  Proof.
    intros Hf. induction l as [|h t IH]; simpl; [reflexivity|].
    destruct (klt (key h) (key e)) eqn:C; simpl.
    - rewrite IH. destruct (f e) eqn:Fe; [|reflexivity].
      destruct (f h) eqn:Fh; [|reflexivity].
      rewrite (Hf h e Fh Fe) in C. discriminate.
    - reflexivity.
  Qed.

  Lemma sort_by_filter (f : E -> bool) l :
    (forall a b, f a = true -> f b = true -> klt (key a) (key b) = false) ->
    filter f (sort_by key klt l) = filter f l.
  Proof.
    intros Hf. induction l as [|h t IH]; simpl; [reflexivity|].
    rewrite ins_by_filter by exact Hf. rewrite IH. reflexivity.
  Qed.
End SortP.

(* ---------- generic list facts ---------- *)
Lemma StronglySorted_app {T} (R : T -> T -> Prop) l1 l2 :
  StronglySorted R l1 -> StronglySorted R l2 ->
  (forall a b, In a l1 -> In b l2 -> R a b) -> StronglySorted R (l1 ++ l2).
Proof.
  induction l1 as [|h t IH]; intros S1 S2 H; simpl; [exact S2|].
  inversion S1 as [|? ? S' F]; subst. constructor.
  - apply IH; [exact S'|exact S2|]. intros a b Ha Hb. apply H; [right; exact Ha|exact Hb].
  - rewrite Forall_forall in *. intros x Hx. apply in_app_or in Hx. destruct Hx as [Hx|Hx].
    + apply F. exact Hx.
    + apply H; [left; reflexivity|exact Hx].
Qed.

Lemma StronglySorted_concat {T} (R : T -> T -> Prop) ls :
  Forall (StronglySorted R) ls ->
  StronglySorted (fun l l' => forall a b, In a l -> In b l' -> R a b) ls ->
  StronglySorted R (concat ls).
Proof.
  induction ls as [|l t IH]; intros F S; simpl; [constructor|].
  inversion F as [|? ? Fl Ft]; subst. inversion S as [|? ? S' Fs]; subst.
  apply StronglySorted_app; [exact Fl|apply IH; assumption|].
  intros a b Ha Hb. apply in_concat in Hb. destruct Hb as (l' & Hl' & Hb).
  rewrite Forall_forall in Fs. exact (Fs l' Hl' a b Ha Hb).
Qed.

Lemma StronglySorted_map {T U} (R : T -> T -> Prop) (Q : U -> U -> Prop) (g : T -> U) l :
  (forall a b, R a b -> Q (g a) (g b)) -> StronglySorted R l -> StronglySorted Q (map g l).
Proof.
  intros H. induction 1 as [|h t S IH F]; simpl; constructor; [exact IH|].
  rewrite Forall_forall in *. intros x Hx. apply in_map_iff in Hx. destruct Hx as (y & <- & Hy).
  apply H. apply F. exact Hy.
Qed.

Lemma StronglySorted_In_tail {T} (R : T -> T -> Prop) h t x :
  StronglySorted R (h :: t) -> In x t -> R h x.
Proof. intros S Hx. inversion S as [|? ? _ F]; subst. rewrite Forall_forall in F. apply F. exact Hx. Qed.

Lemma StronglySorted_NoDup {T} (R : T -> T -> Prop) l :
  (forall x, ~ R x x) -> StronglySorted R l -> NoDup l.
Proof.
  intros Irr. induction 1 as [|h t S IH F]; constructor; [|exact IH].
  intros Hin. rewrite Forall_forall in F. exact (Irr h (F h Hin)).
Qed.

(* ---------- the lexicographic order ---------- *)
Section Lex.
  Context {name : Type} (nltb : name -> name -> bool) (NST : strict_total nltb).

  Lemma lex_irrefl l : lex_ltb nltb l l = false.
  Proof. induction l as [|x t IH]; simpl; [reflexivity|]. rewrite (st_irrefl nltb NST). exact IH. Qed.

  Lemma lex_trans l1 : forall l2 l3,
    lex_ltb nltb l1 l2 = true -> lex_ltb nltb l2 l3 = true -> lex_ltb nltb l1 l3 = true.
  Proof.
    induction l1 as [|x a IH]; intros [|y b] [|z c]; simpl; try congruence.
    destruct (nltb x y) eqn:Exy.
    - intros _. destruct (nltb y z) eqn:Eyz.
      + intros _. rewrite (st_trans nltb NST _ _ _ Exy Eyz). reflexivity.
      + destruct (nltb z y) eqn:Ezy; [discriminate|].
        assert (y = z) by (apply (st_total nltb NST); assumption). subst.
        rewrite Exy. reflexivity.
    - destruct (nltb y x) eqn:Eyx; [discriminate|].
      assert (x = y) by (apply (st_total nltb NST); assumption). subst.
      intros H1. destruct (nltb y z); [reflexivity|]. destruct (nltb z y); [discriminate|].
      apply IH. exact H1.
  Qed.

  Lemma lex_total l1 : forall l2, lex_ltb nltb l1 l2 = false -> lex_ltb nltb l2 l1 = false -> l1 = l2.
  Proof.
    induction l1 as [|x a IH]; intros [|y b]; simpl; try congruence.
    destruct (nltb x y) eqn:Exy; [discriminate|]. destruct (nltb y x) eqn:Eyx; [discriminate|].
    assert (x = y) by (apply (st_total nltb NST); assumption). subst.
    intros H1 H2. f_equal. apply IH; assumption.
  Qed.

  Lemma lex_strict_total : strict_total (lex_ltb nltb).
  Proof. constructor; [exact lex_irrefl|exact lex_trans|exact lex_total]. Qed.

  Lemma lex_cons_same x a b : lex_ltb nltb (x :: a) (x :: b) = lex_ltb nltb a b.
  Proof. simpl. rewrite (st_irrefl nltb NST). reflexivity. Qed.

  (* the order of the walk on (directory parts, name) *)
  Lemma walk_ltb_strict_total : strict_total (walk_ltb nltb).
  Proof.
    pose proof lex_strict_total as LST.
    constructor.
    - intros [d n]. unfold walk_ltb. simpl. rewrite lex_irrefl. apply (st_irrefl nltb NST).
    - intros [d1 n1] [d2 n2] [d3 n3]. unfold walk_ltb. simpl.
      destruct (lex_ltb nltb d1 d2) eqn:E12.
      + intros _. destruct (lex_ltb nltb d2 d3) eqn:E23.
        * intros _. rewrite (lex_trans _ _ _ E12 E23). reflexivity.
        * destruct (lex_ltb nltb d3 d2) eqn:E32; [discriminate|].
          assert (d2 = d3) by (apply lex_total; assumption). subst. rewrite E12. reflexivity.
      + destruct (lex_ltb nltb d2 d1) eqn:E21; [discriminate|].
        assert (d1 = d2) by (apply lex_total; assumption). subst.
        intros H1. destruct (lex_ltb nltb d2 d3); [reflexivity|].
        destruct (lex_ltb nltb d3 d2); [discriminate|].
        intros H2. exact (st_trans nltb NST _ _ _ H1 H2).
    - intros [d1 n1] [d2 n2]. unfold walk_ltb. simpl.
      destruct (lex_ltb nltb d1 d2) eqn:E12; [discriminate|].
      destruct (lex_ltb nltb d2 d1) eqn:E21; [discriminate|].
      assert (d1 = d2) by (apply lex_total; assumption). subst.
      intros H1 H2. f_equal. apply (st_total nltb NST); assumption.
  Qed.
End Lex.

(* ---------- the walk ---------- *)
Section WalkP.
  Context {name A : Type} (nltb : name -> name -> bool) (NST : strict_total nltb).
  Notation tree := (@tree name A).
  Notation entry := (@entry name A).

  Definition ekey (e : entry) : list name * name := (fst (fst e), snd (fst e)).
  Definition entry_lt (a b : entry) : Prop := walk_ltb nltb (ekey a) (ekey b) = true.

  (* induction principle for the nested inductive *)
  Lemma tree_rect' (Q : tree -> Prop) :
    (forall files subs, Forall (fun s => Q (snd s)) subs -> Q (Dir files subs)) -> forall t, Q t.
  Proof.
    intros H. fix IH 1. intros [files subs]. apply H.
    induction subs as [|[x s] r IHr]; constructor; [apply IH|exact IHr].
  Qed.

  Lemma wf_unfold (files : list (name * A)) (subs : list (name * tree)) :
    wf (Dir files subs) <->
    NoDup (map fst files) /\ NoDup (map fst subs) /\ Forall (fun s => wf (snd s)) subs.
  Proof.
    simpl. split; intros (H1 & H2 & H3); (split; [exact H1|split; [exact H2|]]).
    - induction subs as [|[x s] r IHr]; constructor.
      + exact (proj1 H3).
      + apply IHr; [|exact (proj2 H3)]. simpl in H2. inversion H2; assumption.
    - induction subs as [|[x s] r IHr]; [exact I|]. inversion H3 as [|? ? Ha Hb]; subst.
      split; [exact Ha|]. apply IHr; [|exact Hb]. simpl in H2. inversion H2; assumption.
  Qed.

  Lemma under_lt x a b : entry_lt a b -> entry_lt (under x a) (under x b).
  Proof.
    destruct a as [[d n] pa], b as [[d' n'] pb]. unfold entry_lt, ekey, walk_ltb. simpl.
    rewrite (st_irrefl nltb NST). exact (fun H => H).
  Qed.

  Theorem walk_sorted t : wf t -> StronglySorted entry_lt (walk nltb t).
  Proof.
    induction t as [files subs IH] using tree_rect'. intros W.
    apply wf_unfold in W. destruct W as (Nf & Ns & Ws).
    cbn [walk]. apply StronglySorted_app.
    - (* the files of this directory *)
      apply (StronglySorted_map (klt' fst nltb)).
      + intros a b H. unfold entry_lt, ekey, walk_ltb. simpl. exact H.
      + apply sort_by_strict; assumption.
    - (* the sub-directories *)
      set (pre := map (fun s : name * tree => let (x, sub) := s in (x, map (under x) (walk nltb sub))) subs).
      assert (Hk : map fst pre = map fst subs).
      { unfold pre. rewrite map_map. apply map_ext. intros [x s]. reflexivity. }
      assert (Sp : StronglySorted (klt' fst nltb) (sort_by_name nltb pre)).
      { apply sort_by_strict; [exact NST|]. rewrite Hk. exact Ns. }
      assert (Fp : Forall (fun e : name * list entry =>
                     StronglySorted entry_lt (snd e) /\
                     forall a, In a (snd e) -> exists d, fst (ekey a) = fst e :: d) pre).
      { unfold pre. rewrite Forall_forall. intros e He. apply in_map_iff in He.
        destruct He as ([x s] & <- & Hs). simpl. split.
        - apply (StronglySorted_map entry_lt); [apply under_lt|].
          rewrite Forall_forall in IH, Ws. apply (IH _ Hs). apply (Ws _ Hs).
        - intros a Ha. apply in_map_iff in Ha. destruct Ha as ([[d n] p] & <- & _). simpl. eauto. }
      assert (Fs : Forall (fun e : name * list entry =>
                     StronglySorted entry_lt (snd e) /\
                     forall a, In a (snd e) -> exists d, fst (ekey a) = fst e :: d) (sort_by_name nltb pre)).
      { apply (perm_Forall _ pre); [symmetry; apply sort_by_perm|exact Fp]. }
      clearbody pre. clear Fp Hk.
      apply StronglySorted_concat.
      + rewrite Forall_forall in *. intros l Hl. apply in_map_iff in Hl. destruct Hl as (e & <- & He).
        apply (Fs e He).
      + induction Sp as [|e r Sr IHr Fr]; simpl; [constructor|].
        inversion Fs as [|? ? Fe Fr']; subst. constructor; [apply IHr; exact Fr'|].
        rewrite Forall_forall in *. intros l Hl. apply in_map_iff in Hl. destruct Hl as (e' & <- & He').
        intros a b Ha Hb. destruct Fe as [_ Fe]. destruct (Fe a Ha) as (da & Hda).
        destruct (Fr' e' He') as [_ Fe']. destruct (Fe' b Hb) as (db & Hdb).
        specialize (Fr e' He'). unfold klt' in Fr.
        unfold entry_lt, walk_ltb. rewrite Hda, Hdb. simpl. rewrite Fr. reflexivity.
    - (* files before the content of sub-directories *)
      intros a b Ha Hb. apply in_map_iff in Ha. destruct Ha as (f & <- & _).
      apply in_concat in Hb. destruct Hb as (l & Hl & Hb). apply in_map_iff in Hl.
      destruct Hl as (e & <- & He).
      apply (Permutation_in (l' := map (fun s : name * tree => let (x, sub) := s in (x, map (under x) (walk nltb sub))) subs))
        in He; [|apply sort_by_perm].
      apply in_map_iff in He. destruct He as ([x s] & <- & _). simpl in Hb.
      apply in_map_iff in Hb. destruct Hb as ([[d n] p] & <- & _).
      unfold entry_lt, ekey, walk_ltb. simpl. reflexivity.
  Qed.

  (* the walk lists exactly the files of the tree *)
  Theorem walk_In (t : tree) : forall d n (a : A), In (d, n, a) (walk nltb t) <-> file_at d n a t.
  Proof.
    induction t as [files subs IH] using tree_rect'. intros d n a.
    cbn [walk]. rewrite in_app_iff. split.
    - intros [H|H].
      + apply in_map_iff in H. destruct H as ([n' a'] & E & Hin). simpl in E. inversion E; subst.
        simpl. apply (Permutation_in (l := sort_by_name nltb files)); [apply sort_by_perm|exact Hin].
      + apply in_concat in H. destruct H as (l & Hl & H). apply in_map_iff in Hl.
        destruct Hl as (e & <- & He).
        apply (Permutation_in (l' := map (fun s : name * tree => let (x, sub) := s in (x, map (under x) (walk nltb sub))) subs))
          in He; [|apply sort_by_perm].
        apply in_map_iff in He. destruct He as ([x s] & <- & Hs). simpl in H.
        apply in_map_iff in H. destruct H as ([[d' n'] a'] & E & H). simpl in E. inversion E; subst.
        simpl. exists s. split; [exact Hs|]. rewrite Forall_forall in IH. apply (IH _ Hs). exact H.
    - destruct d as [|x d']; simpl.
      + intros H. left. apply in_map_iff. exists (n, a). split; [reflexivity|].
        apply (Permutation_in (l := files)); [symmetry; apply sort_by_perm|exact H].
      + intros (s & Hs & H). right. apply in_concat.
        exists (map (under x) (walk nltb s)). split.
        * apply in_map_iff. exists (x, map (under x) (walk nltb s)). split; [reflexivity|].
          apply (Permutation_in (l := map (fun s : name * tree => let (x, sub) := s in (x, map (under x) (walk nltb sub))) subs));
            [symmetry; apply sort_by_perm|].
          apply in_map_iff. exists (x, s). split; [reflexivity|exact Hs].
        * apply in_map_iff. exists (d', n, a). split; [reflexivity|].
          rewrite Forall_forall in IH. apply (IH _ Hs). exact H.
  Qed.
End WalkP.
