(* VoteP.v — proofs about the majority-vote model (Vote.v). *)
From Coq Require Import List Arith Bool Lia.
From PFF Require Import Vote.
Import ListNotations.

Section VoteP.
  Context {A : Type} (eqb : A -> A -> bool).
  Hypothesis eqb_spec : forall x y, reflect (x = y) (eqb x y).

  Notation column := (@column A).
  Notation maxlen := (@maxlen A).
  Notation vote_cols := (vote_cols eqb).
  Notation vote_col := (vote_col eqb).
  Notation hist := (hist eqb).
  Notation hist_add := (hist_add eqb).

  (* ------------------------------------------------------------------ *)
  (* columns and chunking                                                *)
  (* ------------------------------------------------------------------ *)

  Lemma nth_error_firstn_lt (l : list A) i n : i < n -> nth_error (firstn n l) i = nth_error l i.
  Proof.
    revert i n; induction l as [|x l IH]; intros i n Hi.
    - rewrite firstn_nil. reflexivity.
    - destruct n as [|n]; [lia|]. destruct i as [|i]; cbn; [reflexivity|]. apply IH; lia.
  Qed.

  Lemma nth_error_skipn (l : list A) i n : nth_error (skipn n l) i = nth_error l (n + i).
  Proof.
    revert l; induction n as [|n IH]; intros l; cbn; [reflexivity|].
    destruct l as [|x l]; cbn; [destruct i; reflexivity|]. apply IH.
  Qed.

  Lemma column_firstn i bs cs : i < bs -> column i (map (firstn bs) cs) = column i cs.
  Proof.
    intros Hi. unfold Vote.column. induction cs as [|c cs IH]; cbn; [reflexivity|].
    rewrite nth_error_firstn_lt by exact Hi. f_equal. exact IH.
  Qed.

  Lemma column_skipn i bs cs : column i (map (skipn bs) cs) = column (bs + i) cs.
  Proof.
    unfold Vote.column. induction cs as [|c cs IH]; cbn; [reflexivity|].
    rewrite nth_error_skipn. f_equal. exact IH.
  Qed.

  Lemma maxlen_firstn bs cs : maxlen (map (firstn bs) cs) = Nat.min bs (maxlen cs).
  Proof.
    unfold Vote.maxlen. induction cs as [|c cs IH]; cbn [map fold_right]; [lia|].
    rewrite IH, firstn_length. lia.
  Qed.

  Lemma maxlen_skipn bs cs : maxlen (map (skipn bs) cs) = maxlen cs - bs.
  Proof.
    unfold Vote.maxlen. induction cs as [|c cs IH]; cbn [map fold_right]; [reflexivity|].
    rewrite IH, skipn_length. lia.
  Qed.

  Lemma flat_map_ext_seq {B} (f g : nat -> list B) a n :
    (forall i, a <= i < a + n -> f i = g i) -> flat_map f (seq a n) = flat_map g (seq a n).
  Proof.
    revert a; induction n as [|n IH]; intros a H; cbn; [reflexivity|].
    rewrite H by lia. f_equal. apply IH. intros i Hi. apply H. lia.
  Qed.

  Lemma flat_map_seq_shift {B} (f : nat -> list B) a b n :
    flat_map f (seq (a + b) n) = flat_map (fun i => f (a + i)) (seq b n).
  Proof.
    revert b; induction n as [|n IH]; intros b; cbn; [reflexivity|].
    f_equal. replace (S (a + b)) with (a + S b) by lia. apply IH.
  Qed.

  Definition colf (cs : list (list A)) (i : nat) : list (A * bool) :=
    match vote_col (column i cs) with Some r => [r] | None => [] end.

  Lemma vote_cols_unfold cs : vote_cols cs = flat_map (colf cs) (seq 0 (maxlen cs)).
  Proof. reflexivity. Qed.

  (* the vote over the whole copies splits at any chunk boundary *)
  Lemma vote_cols_split bs cs :
    vote_cols cs = vote_cols (map (firstn bs) cs) ++ vote_cols (map (skipn bs) cs).
  Proof.
    rewrite !vote_cols_unfold, maxlen_firstn, maxlen_skipn.
    set (m := maxlen cs).
    replace m with (Nat.min bs m + (m - bs)) at 1 by lia.
    rewrite seq_app, flat_map_app. f_equal.
    - apply flat_map_ext_seq. intros i Hi. unfold colf.
      rewrite column_firstn by lia. reflexivity.
    - cbn [plus]. destruct (Nat.le_gt_cases m bs) as [Hle|Hgt].
      + replace (m - bs) with 0 by lia. reflexivity.
      + replace (Nat.min bs m) with (bs + 0) by lia.
        rewrite flat_map_seq_shift. apply flat_map_ext_seq. intros i Hi. unfold colf.
        rewrite column_skipn. reflexivity.
  Qed.

  (* ------------------------------------------------------------------ *)
  (* the single-survivor shortcut is the vote                            *)
  (* ------------------------------------------------------------------ *)

  Lemma hist_single x : hist [x] = [(x, 1)].
  Proof. reflexivity. Qed.

  Lemma vote_col_single x : vote_col [x] = Some (x, false).
  Proof. reflexivity. Qed.

  Lemma vote_col_nil : vote_col [] = None.
  Proof. reflexivity. Qed.

  Lemma count_nonempty_cons (e : list A) es :
    count_nonempty (e :: es) = (if is_nil e then 0 else 1) + count_nonempty es.
  Proof. unfold count_nonempty. cbn. destruct e; reflexivity. Qed.

  Lemma column_all_nil i es : count_nonempty es = 0 -> column i es = [].
  Proof.
    induction es as [|e es IH]; intros H; [reflexivity|].
    rewrite count_nonempty_cons in H. destruct e as [|x e]; cbn in H; [|lia].
    unfold Vote.column in *. cbn. destruct i; cbn; apply IH; exact H.
  Qed.

  Lemma maxlen_all_nil es : count_nonempty es = 0 -> maxlen es = 0.
  Proof.
    induction es as [|e es IH]; intros H; [reflexivity|].
    rewrite count_nonempty_cons in H. destruct e as [|x e]; cbn in H; [|lia].
    cbn. apply IH; exact H.
  Qed.

  Lemma concat_all_nil (es : list (list A)) : count_nonempty es = 0 -> concat es = [].
  Proof.
    induction es as [|e es IH]; intros H; [reflexivity|].
    rewrite count_nonempty_cons in H. destruct e as [|x e]; cbn in H; [|lia].
    cbn. apply IH; exact H.
  Qed.

  Lemma column_one i es :
    count_nonempty es = 1 ->
    column i es = match nth_error (concat es) i with Some x => [x] | None => [] end.
  Proof.
    induction es as [|e es IH]; intros H; [discriminate|].
    rewrite count_nonempty_cons in H. destruct e as [|x e].
    - cbn in H. cbn [concat app]. unfold Vote.column in *. cbn [flat_map].
      replace (nth_error (@nil A) i) with (@None A) by (destruct i; reflexivity).
      cbn. apply IH; exact H.
    - cbn in H. assert (H0 : count_nonempty es = 0) by lia.
      cbn [concat]. rewrite (concat_all_nil es H0), app_nil_r.
      unfold Vote.column. cbn [flat_map]. fold (column i es).
      rewrite (column_all_nil i es H0), app_nil_r. reflexivity.
  Qed.

  Lemma maxlen_one es : count_nonempty es = 1 -> maxlen es = length (concat es).
  Proof.
    induction es as [|e es IH]; intros H; [discriminate|].
    rewrite count_nonempty_cons in H. destruct e as [|x e].
    - cbn in H. cbn. apply IH; exact H.
    - cbn in H. assert (H0 : count_nonempty es = 0) by lia.
      cbn [concat Vote.maxlen fold_right]. fold (maxlen es).
      rewrite (concat_all_nil es H0), (maxlen_all_nil es H0), app_nil_r. lia.
  Qed.

  Lemma flat_map_nth_seq {B} (g : A -> B) (l : list A) a :
    flat_map (fun i => match match nth_error l (i - a) with Some x => [x] | None => [] end with
                       | [x] => [g x] | _ => [] end) (seq a (length l)) = map g l.
  Proof.
    revert a; induction l as [|x l IH]; intros a; cbn [length seq flat_map map]; [reflexivity|].
    replace (a - a) with 0 by lia. cbn [nth_error app]. f_equal.
    rewrite <- (IH (S a)). apply flat_map_ext_seq. intros i Hi.
    replace (i - a) with (S (i - S a)) by lia. reflexivity.
  Qed.

  Lemma vote_cols_one es :
    count_nonempty es = 1 -> vote_cols es = map (fun x => (x, false)) (concat es).
  Proof.
    intros H. rewrite vote_cols_unfold, (maxlen_one es H).
    rewrite <- (flat_map_nth_seq (fun x => (x, false)) (concat es) 0).
    apply flat_map_ext_seq. intros i _. unfold colf. rewrite (column_one i es H), Nat.sub_0_r.
    destruct (nth_error (concat es) i); reflexivity.
  Qed.

  Lemma round_out_spec es :
    round_out eqb es = (map fst (vote_cols es), existsb snd (vote_cols es)).
  Proof.
    unfold round_out. destruct (count_nonempty es =? 1) eqn:E; [|reflexivity].
    apply Nat.eqb_eq in E. rewrite (vote_cols_one es E), map_map. cbn [fst].
    rewrite map_id. f_equal. induction (concat es) as [|x l IH]; [reflexivity|exact IH].
  Qed.

  (* ------------------------------------------------------------------ *)
  (* the loop                                                            *)
  (* ------------------------------------------------------------------ *)

  Lemma forallb_nil_firstn bs (cs : list (list A)) :
    0 < bs -> forallb is_nil (map (firstn bs) cs) = true -> maxlen cs = 0.
  Proof.
    intros Hbs. induction cs as [|c cs IH]; cbn [map forallb]; intros H; [reflexivity|].
    apply andb_true_iff in H. destruct H as [H1 H2]. unfold Vote.maxlen in *.
    cbn [fold_right]. rewrite (IH H2).
    destruct c as [|x c]; [reflexivity|]. destruct bs; [lia|]. discriminate.
  Qed.

  Lemma vote_loop_spec fuel bs cs :
    0 < bs -> maxlen cs < fuel ->
    vote_loop eqb fuel bs cs = (map fst (vote_cols cs), existsb snd (vote_cols cs)).
  Proof.
    intros Hbs. revert cs; induction fuel as [|f IH]; intros cs Hf; [lia|].
    cbn [vote_loop]. destruct (forallb is_nil (map (firstn bs) cs)) eqn:E.
    - apply (forallb_nil_firstn bs cs Hbs) in E. rewrite vote_cols_unfold, E. reflexivity.
    - rewrite round_out_spec.
      assert (Hm : 0 < maxlen cs).
      { destruct (maxlen cs) eqn:M; [|lia]. exfalso.
        assert (forallb is_nil (map (firstn bs) cs) = true); [|congruence].
        clear -M. unfold Vote.maxlen in M. induction cs as [|c cs IHc]; [reflexivity|].
        cbn [fold_right] in M. destruct c as [|x c]; cbn [length] in M; [|lia].
        cbn [map forallb]. rewrite firstn_nil. cbn [is_nil andb]. apply IHc. lia. }
      rewrite IH by (rewrite maxlen_skipn; lia).
      rewrite (vote_cols_split bs cs), map_app, existsb_app. reflexivity.
  Qed.

  Theorem vote_chunked_spec bs cs :
    0 < bs -> 3 <= length cs ->
    vote_chunked eqb bs cs = (vote_spec eqb cs, status_spec eqb cs).
  Proof.
    intros Hbs Hn. unfold vote_chunked, vote_spec, status_spec.
    destruct (length cs <? 3) eqn:E; [apply Nat.ltb_lt in E; lia|].
    rewrite vote_loop_spec by lia. reflexivity.
  Qed.

  Theorem vote_chunk_independent bs1 bs2 cs :
    0 < bs1 -> 0 < bs2 -> vote_chunked eqb bs1 cs = vote_chunked eqb bs2 cs.
  Proof.
    intros H1 H2. unfold vote_chunked. destruct (length cs <? 3); [reflexivity|].
    rewrite !vote_loop_spec by lia. reflexivity.
  Qed.

  Theorem vote_few bs cs :
    length cs < 3 -> vote_chunked eqb bs cs = (hd [] cs, 1).
  Proof.
    intros H. unfold vote_chunked. apply Nat.ltb_lt in H. rewrite H. destruct cs; reflexivity.
  Qed.

  (* ------------------------------------------------------------------ *)
  (* what one column's vote means                                        *)
  (* ------------------------------------------------------------------ *)

  Definition cnt (x : A) (l : list A) : nat := length (filter (eqb x) l).

  Fixpoint hcount (x : A) (h : list (A * nat)) : nat :=
    match h with [] => 0 | (y, c) :: t => if eqb x y then c else hcount x t end.

  Definition keys (h : list (A * nat)) : list A := map fst h.

  Lemma eqb_refl x : eqb x x = true.
  Proof. destruct (eqb_spec x x); congruence. Qed.

  Lemma eqb_sym x y : eqb x y = eqb y x.
  Proof. destruct (eqb_spec x y), (eqb_spec y x); congruence. Qed.

  Lemma hcount_hist_add x y h :
    hcount x (hist_add h y) = (if eqb x y then 1 else 0) + hcount x h.
  Proof.
    induction h as [|[z c] t IH]; cbn.
    - destruct (eqb x y); reflexivity.
    - destruct (eqb_spec y z) as [->|Hyz]; cbn.
      + destruct (eqb x z); reflexivity.
      + destruct (eqb_spec x z) as [->|Hxz].
        * destruct (eqb_spec z y); [congruence|reflexivity].
        * exact IH.
  Qed.

  Lemma fold_hist_add_count x col h :
    hcount x (fold_left hist_add col h) = cnt x col + hcount x h.
  Proof.
    revert h; induction col as [|y col IH]; intros h; cbn; [reflexivity|].
    rewrite IH, hcount_hist_add. unfold cnt. cbn. destruct (eqb x y); cbn; lia.
  Qed.

  Lemma hcount_hist x col : hcount x (hist col) = cnt x col.
  Proof. unfold Vote.hist. rewrite fold_hist_add_count. cbn. lia. Qed.

  (* keys: insertion order = order of first occurrence; no duplicates *)
  Fixpoint first_occ (seen col : list A) : list A :=
    match col with
    | [] => []
    | x :: t => if existsb (eqb x) seen then first_occ seen t else x :: first_occ (seen ++ [x]) t
    end.

  Lemma keys_hist_add h x :
    keys (hist_add h x) = if existsb (eqb x) (keys h) then keys h else keys h ++ [x].
  Proof.
    unfold keys. induction h as [|[y c] t IH]; cbn [Vote.hist_add map fst existsb]; [reflexivity|].
    destruct (eqb x y); cbn [map fst orb]; [reflexivity|]. rewrite IH.
    destruct (existsb (eqb x) (map fst t)); reflexivity.
  Qed.

  Lemma keys_fold col h :
    keys (fold_left hist_add col h) = keys h ++ first_occ (keys h) col.
  Proof.
    revert h; induction col as [|x col IH]; intros h; cbn; [rewrite app_nil_r; reflexivity|].
    rewrite IH, keys_hist_add. destruct (existsb (eqb x) (keys h)); [reflexivity|].
    rewrite <- app_assoc. reflexivity.
  Qed.

  Lemma keys_hist col : keys (hist col) = first_occ [] col.
  Proof. unfold Vote.hist. rewrite keys_fold. reflexivity. Qed.

  (* first_max returns an entry of h with maximal count, the earliest such *)
  Lemma first_max_in (h : list (A * nat)) x c : first_max h = Some (x, c) -> In (x, c) h.
  Proof.
    revert x c; induction h as [|[y d] t IH]; intros x c; cbn [first_max]; [discriminate|].
    destruct (first_max t) as [[z e]|].
    - destruct (d <? e); intros [= <- <-]; [right; apply IH; reflexivity|left; reflexivity].
    - intros [= <- <-]. left; reflexivity.
  Qed.

  Lemma first_max_ge (h : list (A * nat)) x c : first_max h = Some (x, c) -> forall y d, In (y, d) h -> d <= c.
  Proof.
    revert x c; induction h as [|[y0 d0] t IH]; intros x c; cbn [first_max]; [discriminate|].
    destruct (first_max t) as [[z e]|] eqn:E.
    - destruct (d0 <? e) eqn:L; intros [= <- <-] y d [[= <- <-]|Hin].
      + apply Nat.ltb_lt in L. lia.
      + eapply IH; [reflexivity|exact Hin].
      + lia.
      + apply Nat.ltb_ge in L. specialize (IH z e eq_refl y d Hin). lia.
    - intros [= <- <-] y d [[= <- <-]|Hin]; [lia|].
      destruct t as [|[a b] t]; [destruct Hin|]. cbn [first_max] in E.
      destruct (first_max t) as [[? ?]|]; [destruct (b <? _)|]; discriminate.
  Qed.

  Lemma first_max_none (h : list (A * nat)) : first_max h = None -> h = [].
  Proof.
    destruct h as [|[y d] t]; [reflexivity|]. cbn [first_max].
    destruct (first_max t) as [[? ?]|]; [destruct (d <? _)|]; discriminate.
  Qed.

  (* earliest: everything strictly before the winner in h has a strictly smaller count *)
  Lemma first_max_first (h : list (A * nat)) x c :
    first_max h = Some (x, c) ->
    exists h1 h2, h = h1 ++ (x, c) :: h2 /\ forall y d, In (y, d) h1 -> d < c.
  Proof.
    revert x c; induction h as [|[y0 d0] t IH]; intros x c; cbn [first_max]; [discriminate|].
    destruct (first_max t) as [[z e]|] eqn:E.
    - destruct (d0 <? e) eqn:L; intros [= <- <-].
      + destruct (IH z e eq_refl) as (h1 & h2 & -> & Hlt).
        exists ((y0, d0) :: h1), h2. split; [reflexivity|].
        intros y d [[= <- <-]|Hin]; [apply Nat.ltb_lt in L; exact L|eapply Hlt; exact Hin].
      + exists [], t. split; [reflexivity|]. intros ? ? [].
    - intros [= <- <-]. exists [], t. split; [reflexivity|]. intros ? ? [].
  Qed.

  Lemma hcount_in_nodup h x c :
    NoDup (keys h) -> In (x, c) h -> hcount x h = c.
  Proof.
    induction h as [|[y d] t IH]; intros Hnd Hin; [destruct Hin|].
    cbn in Hnd. inversion Hnd as [|? ? Hni Hnd']; subst. cbn.
    destruct Hin as [[= <- <-]|Hin]; [rewrite eqb_refl; reflexivity|].
    destruct (eqb_spec x y) as [->|Hne].
    - exfalso. apply Hni. unfold keys. apply in_map_iff. exists (y, c). split; [reflexivity|exact Hin].
    - apply IH; assumption.
  Qed.

  Lemma existsb_eqb_in x l : existsb (eqb x) l = true <-> In x l.
  Proof.
    rewrite existsb_exists. split.
    - intros (y & Hy & E). destruct (eqb_spec x y); [subst; exact Hy|discriminate].
    - intros H. exists x. split; [exact H|apply eqb_refl].
  Qed.

  Lemma nodup_snoc (l : list A) x : NoDup l -> ~ In x l -> NoDup (l ++ [x]).
  Proof.
    induction l as [|a l IH]; cbn; intros Hn Hi; [constructor; [intros []|constructor]|].
    inversion Hn as [|? ? Hna Hn']; subst. constructor.
    - rewrite in_app_iff. cbn. intros [H|[H|[]]]; [exact (Hna H)|subst; apply Hi; left; reflexivity].
    - apply IH; [exact Hn'|]. intros H. apply Hi. right. exact H.
  Qed.

  Lemma first_occ_spec seen col :
    NoDup seen -> NoDup (seen ++ first_occ seen col) /\
    (forall x, In x (first_occ seen col) <-> In x col /\ ~ In x seen).
  Proof.
    revert seen; induction col as [|x col IH]; intros seen Hnd; cbn.
    - rewrite app_nil_r. split; [exact Hnd|]. intros x; tauto.
    - destruct (existsb (eqb x) seen) eqn:E.
      + apply existsb_eqb_in in E. destruct (IH seen Hnd) as [H1 H2]. split; [exact H1|].
        intros y. rewrite H2. split; [tauto|]. intros [[->|H] Hn]; tauto.
      + assert (Hni : ~ In x seen) by (intros H; apply existsb_eqb_in in H; congruence).
        assert (Hnd' : NoDup (seen ++ [x])) by (apply nodup_snoc; assumption).
        destruct (IH _ Hnd') as [H1 H2]. rewrite <- app_assoc in H1. split; [exact H1|].
        intros y. cbn. rewrite H2, in_app_iff. cbn. split.
        * intros [->|[Hy Hn]]; [tauto|]. split; [tauto|]. tauto.
        * intros [[->|Hy] Hn]; [tauto|]. destruct (eqb_spec x y); [tauto|]. right. tauto.
  Qed.

  Lemma keys_hist_nodup col : NoDup (keys (hist col)).
  Proof. rewrite keys_hist. destruct (first_occ_spec [] col (NoDup_nil _)) as [H _]. exact H. Qed.

  Lemma keys_hist_in col x : In x (keys (hist col)) <-> In x col.
  Proof.
    rewrite keys_hist. destruct (first_occ_spec [] col (NoDup_nil _)) as [_ H].
    rewrite H. cbn. tauto.
  Qed.

  Lemma cnt_pos x col : In x col <-> 0 < cnt x col.
  Proof.
    unfold cnt. induction col as [|y col IH]; cbn; [split; [tauto|lia]|].
    destruct (eqb_spec x y) as [->|Hne]; cbn; [split; [lia|tauto]|].
    rewrite <- IH. split; [intros [H|H]; [congruence|exact H]|tauto].
  Qed.

  Lemma in_hist_count col x c : In (x, c) (hist col) -> c = cnt x col.
  Proof.
    intros H. rewrite <- (hcount_hist x col). symmetry.
    apply hcount_in_nodup; [apply keys_hist_nodup|exact H].
  Qed.

  Lemma hist_has col x : In x col -> In (x, cnt x col) (hist col).
  Proof.
    intros H. apply keys_hist_in in H. unfold keys in H. apply in_map_iff in H.
    destruct H as ([y c] & E & Hin). cbn in E. subst y.
    rewrite <- (in_hist_count col x c Hin). exact Hin.
  Qed.

  (* The winner carries a maximal count *)
  Theorem vote_col_max col x e :
    vote_col col = Some (x, e) ->
    In x col /\ forall y, cnt y col <= cnt x col.
  Proof.
    unfold Vote.vote_col. destruct (first_max (hist col)) as [[z c]|] eqn:E; [|discriminate].
    intros [= <- <-]. pose proof (first_max_in _ _ _ E) as Hin.
    pose proof (in_hist_count col z c Hin) as Hc. split.
    - apply keys_hist_in. unfold keys. apply in_map_iff. exists (z, c). split; [reflexivity|exact Hin].
    - intros y. destruct (cnt y col) eqn:Ey; [lia|].
      assert (Hy : In y col) by (apply cnt_pos; lia).
      pose proof (first_max_ge _ _ _ E y (cnt y col) (hist_has col y Hy)). lia.
  Qed.

  (* strict majority among the copies reaching the offset wins *)
  Theorem vote_col_majority col x :
    length col < 2 * cnt x col -> exists e, vote_col col = Some (x, e).
  Proof.
    intros Hmaj. destruct (vote_col col) as [[z e]|] eqn:E.
    - exists e. destruct (vote_col_max col z e E) as [Hz Hmax].
      destruct (eqb_spec x z) as [->|Hne]; [reflexivity|]. exfalso.
      specialize (Hmax x).
      assert (cnt x col + cnt z col <= length col); [|lia].
      clear -Hne eqb_spec. unfold cnt. induction col as [|y col IH]; cbn; [lia|].
      destruct (eqb_spec x y), (eqb_spec z y); subst; cbn; try lia. congruence.
    - unfold Vote.vote_col in E. destruct (first_max (hist col)) as [[? ?]|] eqn:F; [discriminate|].
      apply first_max_none in F. assert (cnt x col = 0); [|lia].
      rewrite <- hcount_hist, F. reflexivity.
  Qed.

  (* ties: the winner's first occurrence precedes that of any other maximal value *)
  Theorem vote_col_earliest col x e :
    vote_col col = Some (x, e) ->
    exists k1 k2, first_occ [] col = k1 ++ x :: k2 /\ forall y, In y k1 -> cnt y col < cnt x col.
  Proof.
    unfold Vote.vote_col. destruct (first_max (hist col)) as [[z c]|] eqn:E; [|discriminate].
    intros [= <- <-]. destruct (first_max_first _ _ _ E) as (h1 & h2 & Hh & Hlt).
    exists (keys h1), (keys h2). split.
    - rewrite <- keys_hist, Hh. unfold keys. rewrite map_app. reflexivity.
    - intros y Hy. unfold keys in Hy. apply in_map_iff in Hy. destruct Hy as ([y' d] & Ey & Hin).
      cbn in Ey; subst y'. specialize (Hlt y d Hin).
      assert (In (y, d) (hist col)) by (rewrite Hh; apply in_or_app; left; exact Hin).
      assert (In (z, c) (hist col)) by (rewrite Hh; apply in_or_app; right; left; reflexivity).
      rewrite <- (in_hist_count col y d), <- (in_hist_count col z c); assumption.
  Qed.

  (* the ambiguity flag: raised exactly when >= 2 copies reach the offset and all differ *)
  Theorem vote_col_flag col x e :
    vote_col col = Some (x, e) ->
    (e = true <-> 2 <= length col /\ NoDup col).
  Proof.
    unfold Vote.vote_col. destruct (first_max (hist col)) as [[z c]|] eqn:E; [|discriminate].
    intros [= <- <-].
    assert (Hlen : length (hist col) = length (first_occ [] col)).
    { rewrite <- keys_hist. unfold keys. rewrite map_length. reflexivity. }
    pose proof (first_max_in _ _ _ E) as Hin. pose proof (in_hist_count col z c Hin) as Hc.
    assert (Hfo : forall l seen, (forall y, In y l -> cnt y l = 1) -> (forall y, In y l -> ~ In y seen) ->
                                 first_occ seen l = l).
    { induction l as [|a l IH]; intros seen H1 H2; [reflexivity|]. cbn.
      destruct (existsb (eqb a) seen) eqn:Ea.
      - apply existsb_eqb_in in Ea. exfalso. apply (H2 a); [left; reflexivity|exact Ea].
      - f_equal. apply IH.
        + intros y Hy. specialize (H1 y (or_intror Hy)). unfold cnt in *. cbn in H1.
          destruct (eqb_spec y a) as [Eya|]; cbn in H1; [|exact H1].
          exfalso. rewrite Eya in *. apply cnt_pos in Hy. unfold cnt in Hy. lia.
        + intros y Hy Hs. apply in_app_or in Hs. destruct Hs as [Hs|[->|[]]].
          * apply (H2 y); [right; exact Hy|exact Hs].
          * specialize (H1 y (or_introl eq_refl)). unfold cnt in H1. cbn in H1.
            rewrite eqb_refl in H1. cbn in H1. apply cnt_pos in Hy. unfold cnt in Hy. lia. }
    assert (Hnd : NoDup col <-> forall y, In y col -> cnt y col = 1).
    { clear -eqb_spec. induction col as [|a l IH]; [split; [intros _ ? []|constructor]|]. split.
      - intros Hn y Hy. inversion Hn as [|? ? Hni Hn']; subst. unfold cnt. cbn.
        destruct (eqb_spec y a) as [->|Hne]; cbn.
        + destruct (length (filter (eqb a) l)) eqn:F; [reflexivity|].
          exfalso. apply Hni. apply cnt_pos. unfold cnt. lia.
        + destruct Hy as [->|Hy]; [congruence|]. apply IH; assumption.
      - intros H. constructor.
        + intros Hin. specialize (H a (or_introl eq_refl)). unfold cnt in H. cbn in H.
          destruct (eqb_spec a a); [|congruence]. cbn in H. apply cnt_pos in Hin. unfold cnt in Hin. lia.
        + apply IH. intros y Hy. specialize (H y (or_intror Hy)). unfold cnt in *. cbn in H.
          destruct (eqb_spec y a) as [Eya|]; cbn in H; [|exact H].
          rewrite Eya in *. apply cnt_pos in Hy. unfold cnt in Hy. lia. }
    rewrite andb_true_iff, Nat.ltb_lt, Nat.eqb_eq, Hlen. split.
    - intros [H1 H2]. subst c.
      assert (Hall : forall y, In y col -> cnt y col = 1).
      { intros y Hy. pose proof (first_max_ge _ _ _ E y _ (hist_has col y Hy)).
        apply cnt_pos in Hy. lia. }
      rewrite (Hfo col [] Hall (fun _ _ H => H)) in H1. split; [lia|]. apply Hnd. exact Hall.
    - intros [H1 H2]. pose proof (proj1 Hnd H2) as Hall.
      rewrite (Hfo col [] Hall (fun _ _ H => H)). split; [lia|].
      rewrite Hc. apply Hall. apply keys_hist_in. unfold keys. apply in_map_iff.
      exists (z, c). split; [reflexivity|exact Hin].
  Qed.

  (* ------------------------------------------------------------------ *)
  (* offsets of the merged output                                        *)
  (* ------------------------------------------------------------------ *)

  Lemma column_nonempty i cs : i < maxlen cs -> column i cs <> [].
  Proof.
    unfold Vote.maxlen, Vote.column. induction cs as [|c cs IH]; cbn [fold_right flat_map]; [lia|].
    intros Hi. destruct (nth_error c i) eqn:E; [discriminate|].
    apply nth_error_None in E. cbn [app]. apply IH. lia.
  Qed.

  Lemma vote_col_some col : col <> [] -> exists x e, vote_col col = Some (x, e).
  Proof.
    intros Hne. unfold Vote.vote_col. destruct (first_max (hist col)) as [[x c]|] eqn:E.
    - eexists _, _. reflexivity.
    - exfalso. apply first_max_none in E. destruct col as [|a col]; [congruence|].
      assert (H : hcount a (hist (a :: col)) = cnt a (a :: col)) by apply hcount_hist.
      rewrite E in H. unfold cnt in H. cbn in H. rewrite eqb_refl in H. discriminate.
  Qed.

  Lemma flat_map_opt_nth {B} (f : nat -> option B) n a i :
    (forall j, a <= j < a + n -> f j <> None) -> i < n ->
    nth_error (flat_map (fun j => match f j with Some r => [r] | None => [] end) (seq a n)) i = f (a + i)
    /\ length (flat_map (fun j => match f j with Some r => [r] | None => [] end) (seq a n)) = n.
  Proof.
    revert a i; induction n as [|n IH]; intros a i Hf Hi; [lia|].
    cbn [seq flat_map]. destruct (f a) eqn:Ea; [|exfalso; apply (Hf a); [lia|exact Ea]].
    cbn [app length]. destruct i as [|i].
    - rewrite Nat.add_0_r, Ea. split; [reflexivity|]. destruct n as [|n]; [reflexivity|].
      f_equal. apply (IH (S a) 0); [intros j Hj; apply Hf; lia|lia].
    - destruct (IH (S a) i) as [H1 H2]; [intros j Hj; apply Hf; lia|lia|].
      cbn [nth_error]. rewrite H1, H2. split; [f_equal; lia|reflexivity].
  Qed.

  Lemma vote_cols_nth cs i :
    i < maxlen cs -> nth_error (vote_cols cs) i = vote_col (column i cs).
  Proof.
    intros Hi. rewrite vote_cols_unfold. unfold colf.
    apply (flat_map_opt_nth (fun j => vote_col (column j cs)) (maxlen cs) 0 i); [|exact Hi].
    intros j Hj. destruct (vote_col_some (column j cs)) as (x & e & ->); [|discriminate].
    apply column_nonempty. lia.
  Qed.

  Lemma vote_cols_length cs : length (vote_cols cs) = maxlen cs.
  Proof.
    destruct (maxlen cs) eqn:M; [rewrite vote_cols_unfold, M; reflexivity|].
    rewrite vote_cols_unfold. unfold colf. rewrite M.
    apply (flat_map_opt_nth (fun j => vote_col (column j cs)) (S n) 0 0); [|lia].
    intros j Hj. destruct (vote_col_some (column j cs)) as (x & e & ->); [|discriminate].
    apply column_nonempty. lia.
  Qed.

  Theorem vote_spec_length cs : length (vote_spec eqb cs) = maxlen cs.
  Proof. unfold vote_spec. rewrite map_length. apply vote_cols_length. Qed.

  Theorem vote_spec_nth cs i :
    i < maxlen cs ->
    exists x e, vote_col (column i cs) = Some (x, e) /\ nth_error (vote_spec eqb cs) i = Some x.
  Proof.
    intros Hi. destruct (vote_col_some (column i cs) (column_nonempty i cs Hi)) as (x & e & Hv).
    exists x, e. split; [exact Hv|]. unfold vote_spec.
    rewrite nth_error_map, (vote_cols_nth cs i Hi), Hv. reflexivity.
  Qed.

  Theorem status_spec_iff cs :
    status_spec eqb cs <> 0 <->
    exists i, i < maxlen cs /\ 2 <= length (column i cs) /\ NoDup (column i cs).
  Proof.
    unfold status_spec. destruct (existsb snd (vote_cols cs)) eqn:E.
    - split; [intros _|intros _; discriminate].
      apply existsb_exists in E. destruct E as ([x e] & Hin & He). cbn in He. subst e.
      apply In_nth_error in Hin. destruct Hin as [i Hi].
      assert (Hlt : i < maxlen cs).
      { rewrite <- vote_cols_length. apply nth_error_Some. congruence. }
      exists i. split; [exact Hlt|]. rewrite (vote_cols_nth cs i Hlt) in Hi.
      apply (vote_col_flag _ _ _ Hi). reflexivity.
    - split; [intros H; congruence|]. intros (i & Hlt & H2 & Hnd). exfalso.
      destruct (vote_col_some (column i cs) (column_nonempty i cs Hlt)) as (x & e & Hv).
      assert (e = true) by (apply (vote_col_flag _ _ _ Hv); split; assumption). subst e.
      assert (existsb snd (vote_cols cs) = true); [|congruence].
      apply existsb_exists. exists (x, true). split; [|reflexivity].
      apply (nth_error_In _ i). rewrite (vote_cols_nth cs i Hlt). exact Hv.
  Qed.

  Lemma nth_error_ext' (l l' : list A) : (forall i, nth_error l i = nth_error l' i) -> l = l'.
  Proof.
    revert l'; induction l as [|x l IH]; intros [|y l'] H; [reflexivity| | |].
    - specialize (H 0); discriminate.
    - specialize (H 0); discriminate.
    - pose proof (H 0) as H0. cbn in H0. injection H0 as ->. f_equal.
      apply IH. intros i. exact (H (S i)).
  Qed.

  (* majority intact at every offset => the original comes back, with status 0 *)
  Theorem vote_spec_majority cs orig :
    length orig = maxlen cs ->
    (forall i x, nth_error orig i = Some x -> length (column i cs) < 2 * cnt x (column i cs)) ->
    vote_spec eqb cs = orig /\ status_spec eqb cs = 0.
  Proof.
    intros Hlen Hmaj. split.
    - apply nth_error_ext'. intros i. destruct (Nat.lt_ge_cases i (maxlen cs)) as [Hi|Hi].
      + destruct (nth_error orig i) as [x|] eqn:Ex; [|apply nth_error_None in Ex; lia].
        destruct (vote_col_majority _ _ (Hmaj i x Ex)) as [e He].
        unfold vote_spec. rewrite nth_error_map, (vote_cols_nth cs i Hi), He. reflexivity.
      + rewrite (proj2 (nth_error_None orig i)) by lia.
        apply nth_error_None. rewrite vote_spec_length. exact Hi.
    - destruct (status_spec eqb cs) eqn:S; [reflexivity|]. exfalso.
      assert (Hs : status_spec eqb cs <> 0) by congruence.
      apply status_spec_iff in Hs. destruct Hs as (i & Hi & H2 & Hnd).
      destruct (nth_error orig i) as [x|] eqn:Ex; [|apply nth_error_None in Ex; lia].
      specialize (Hmaj i x Ex).
      assert (cnt x (column i cs) <= 1); [|lia].
      clear -Hnd eqb_spec. induction (column i cs) as [|a l IH]; [unfold cnt; cbn; lia|].
      inversion Hnd as [|? ? Hni Hn']; subst. unfold cnt in *. cbn.
      destruct (eqb_spec x a) as [->|Hne]; cbn; [|apply IH; exact Hn'].
      destruct (length (filter (eqb a) l)) eqn:F; [lia|]. exfalso. apply Hni.
      apply cnt_pos. unfold cnt. lia.
  Qed.

End VoteP.
