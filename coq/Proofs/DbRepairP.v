(* Proofs/DbRepairP.v — lemmas about the database branch of the merge step (DbRepair.v). *)
From Coq Require Import List Arith Bool NArith Lia.
From Coq Require Import Strings.Byte.
From PFF Require Import Bytes Vote DbRepair Proofs.VoteP.
Import ListNotations.

(* ---------- decidable equalities ---------- *)
Lemma list_eqb_spec {A} (eqb : A -> A -> bool) :
  (forall x y, reflect (x = y) (eqb x y)) -> forall a b, reflect (a = b) (list_eqb eqb a b).
Proof.
  intros He a. induction a as [|x a IH]; intros [|y b]; simpl; try (constructor; congruence).
  destruct (He x y) as [->|Hn]; simpl.
  - destruct (IH b) as [->|Hn]; constructor; congruence.
  - constructor; congruence.
Qed.

Lemma bytes_eqb_spec a b : reflect (a = b) (bytes_eqb a b).
Proof. apply list_eqb_spec, byte_eqb_spec. Qed.

Lemma path_eqb_spec a b : reflect (a = b) (path_eqb a b).
Proof. apply list_eqb_spec, bytes_eqb_spec. Qed.

Section DbRepairP.
  Variables md5 sha1 : list byte -> list byte.

  Notation row_ok := (row_ok md5 sha1).
  Notation db_check := (db_check md5 sha1).
  Notation db_check_loop := (db_check_loop md5 sha1).
  Notation accepted := (accepted md5 sha1).
  Notation find_correct := (find_correct md5 sha1).
  Notation merge_step := (merge_step md5 sha1).

  (* r is an entry of the database recorded for path p *)
  Definition recorded (db : list dbrow) (p : path) (r : dbrow) : Prop :=
    In r db /\ r_path r = p /\ p <> [].

  (* content c has the hashes stored in row r *)
  Definition matches (c : list byte) (r : dbrow) : Prop :=
    md5 c = r_md5 r /\ sha1 c = r_sha1 r.

  (* the database has an entry for p, and c has the hashes of every entry for p *)
  Definition hash_correct (db : list dbrow) (p : path) (c : list byte) : Prop :=
    (exists r, recorded db p r) /\ forall r, recorded db p r -> matches c r.

  Lemma row_ok_iff c r : row_ok c r = true <-> matches c r.
  Proof.
    unfold DbRepair.row_ok, matches. rewrite andb_true_iff.
    destruct (bytes_eqb_spec (md5 c) (r_md5 r)), (bytes_eqb_spec (sha1 c) (r_sha1 r)); intuition congruence.
  Qed.

  Lemma row_sel_iff p r : row_sel p r = true <-> r_path r = p /\ p <> [].
  Proof.
    unfold row_sel. rewrite andb_true_iff, negb_true_iff.
    destruct (path_eqb_spec (r_path r) p) as [E|E].
    - rewrite E. destruct p; simpl; intuition congruence.
    - intuition congruence.
  Qed.

  (* the loop = "no selected row fails, and at least one row is selected (or the incoming result)" *)
  Lemma db_check_loop_spec db p c acc :
    db_check_loop db p c acc =
      if existsb (fun r => row_sel p r && negb (row_ok c r)) db then Some false
      else if existsb (row_sel p) db then Some true else acc.
  Proof.
    revert acc. induction db as [|r t IH]; intros acc; simpl; [reflexivity|].
    destruct (row_sel p r); simpl.
    - destruct (row_ok c r); simpl; [|reflexivity].
      rewrite IH. destruct (existsb _ t); [reflexivity|]. destruct (existsb (row_sel p) t); reflexivity.
    - apply IH.
  Qed.

  Lemma db_check_true db p c : db_check db p c = Some true <-> hash_correct db p c.
  Proof.
    unfold DbRepair.db_check. rewrite db_check_loop_spec.
    destruct (existsb (fun r => row_sel p r && negb (row_ok c r)) db) eqn:E1.
    - split; [discriminate|]. intros [_ Hall].
      apply existsb_exists in E1. destruct E1 as (r & Hin & Hr).
      apply andb_true_iff in Hr. destruct Hr as [Hs Hk]. apply row_sel_iff in Hs.
      assert (matches c r) as Hm by (apply Hall; unfold recorded; tauto).
      apply row_ok_iff in Hm. rewrite Hm in Hk. discriminate.
    - destruct (existsb (row_sel p) db) eqn:E2.
      + split; [intros _|reflexivity]. split.
        * apply existsb_exists in E2. destruct E2 as (r & Hin & Hs). apply row_sel_iff in Hs.
          exists r. unfold recorded. tauto.
        * intros r (Hin & Hp & Hne). apply row_ok_iff.
          destruct (row_ok c r) eqn:Ek; [reflexivity|].
          assert (existsb (fun r => row_sel p r && negb (row_ok c r)) db = true) as Hx.
          { apply existsb_exists. exists r. split; [exact Hin|].
            rewrite Ek. rewrite (proj2 (row_sel_iff p r)) by tauto. reflexivity. }
          congruence.
      + split; [discriminate|]. intros [(r & Hin & Hp & Hne) _].
        assert (existsb (row_sel p) db = true) as Hx.
        { apply existsb_exists. exists r. split; [exact Hin|]. apply row_sel_iff. tauto. }
        congruence.
  Qed.

  Lemma db_check_none db p c : db_check db p c = None <-> ~ exists r, recorded db p r.
  Proof.
    unfold DbRepair.db_check. rewrite db_check_loop_spec.
    destruct (existsb (fun r => row_sel p r && negb (row_ok c r)) db) eqn:E1.
    - split; [discriminate|]. intros Hn. exfalso. apply Hn.
      apply existsb_exists in E1. destruct E1 as (r & Hin & Hr).
      apply andb_true_iff in Hr. destruct Hr as [Hs _]. apply row_sel_iff in Hs.
      exists r. unfold recorded. tauto.
    - destruct (existsb (row_sel p) db) eqn:E2.
      + split; [discriminate|]. intros Hn. exfalso. apply Hn.
        apply existsb_exists in E2. destruct E2 as (r & Hin & Hs). apply row_sel_iff in Hs.
        exists r. unfold recorded. tauto.
      + split; [intros _|reflexivity]. intros (r & Hin & Hp & Hne).
        assert (existsb (row_sel p) db = true) as Hx.
        { apply existsb_exists. exists r. split; [exact Hin|]. apply row_sel_iff. tauto. }
        congruence.
  Qed.

  Lemma db_check_false db p c :
    db_check db p c = Some false <-> exists r, recorded db p r /\ ~ matches c r.
  Proof.
    unfold DbRepair.db_check. rewrite db_check_loop_spec.
    destruct (existsb (fun r => row_sel p r && negb (row_ok c r)) db) eqn:E1.
    - split; [intros _|reflexivity].
      apply existsb_exists in E1. destruct E1 as (r & Hin & Hr).
      apply andb_true_iff in Hr. destruct Hr as [Hs Hk]. apply row_sel_iff in Hs.
      exists r. split; [unfold recorded; tauto|]. intros Hm. apply row_ok_iff in Hm.
      rewrite Hm in Hk. discriminate.
    - split.
      + destruct (existsb (row_sel p) db); discriminate.
      + intros (r & (Hin & Hp & Hne) & Hnm). exfalso.
        assert (existsb (fun r => row_sel p r && negb (row_ok c r)) db = true) as Hx.
        { apply existsb_exists. exists r. split; [exact Hin|].
          rewrite (proj2 (row_sel_iff p r)) by tauto.
          destruct (row_ok c r) eqn:Ek; [|reflexivity]. apply row_ok_iff in Ek. contradiction. }
        congruence.
  Qed.

  (* the check depends on the content only through its two hashes *)
  Lemma db_check_hash_ext db p c c' :
    md5 c = md5 c' -> sha1 c = sha1 c' -> db_check db p c = db_check db p c'.
  Proof.
    intros H1 H2. unfold DbRepair.db_check. generalize (@None bool).
    induction db as [|r t IH]; intros acc; simpl; [reflexivity|].
    unfold DbRepair.row_ok. rewrite H1, H2. destruct (row_sel p r); [|apply IH].
    destruct (_ && _); [apply IH|reflexivity].
  Qed.

  Lemma accepted_iff odb p c :
    accepted odb p c = true <-> exists db, odb = Some db /\ hash_correct db p c.
  Proof.
    unfold DbRepair.accepted. destruct odb as [db|].
    - destruct (db_check db p c) as [[|]|] eqn:E.
      + split; [intros _|reflexivity]. exists db. split; [reflexivity|]. apply db_check_true. exact E.
      + split; [discriminate|]. intros (db' & Hd & Hc). injection Hd as <-.
        apply db_check_true in Hc. congruence.
      + split; [discriminate|]. intros (db' & Hd & Hc). injection Hd as <-.
        apply db_check_true in Hc. congruence.
    - split; [discriminate|]. intros (db' & Hd & _). discriminate.
  Qed.

  (* ---------- projections of the step ---------- *)
  Notation choice := (choose md5 sha1).
  Notation post_check := (post_check md5 sha1).

  Lemma step_out odb report bs nrep p holders :
    out (merge_step odb report bs nrep p holders) = fst (fst (choice odb bs p holders)).
  Proof. unfold DbRepair.merge_step. destruct (choice odb bs p holders) as [[o e] tk]. reflexivity. Qed.

  Lemma step_taken odb report bs nrep p holders :
    taken (merge_step odb report bs nrep p holders) = snd (choice odb bs p holders).
  Proof. unfold DbRepair.merge_step. destruct (choice odb bs p holders) as [[o e] tk]. reflexivity. Qed.

  Lemma step_errcode odb report bs nrep p holders :
    errcode (merge_step odb report bs nrep p holders) =
      match post_check odb p (fst (fst (choice odb bs p holders))) with
      | Some false => 1
      | _ => snd (fst (choice odb bs p holders))
      end.
  Proof. unfold DbRepair.merge_step. destruct (choice odb bs p holders) as [[o e] tk]. reflexivity. Qed.

  Lemma step_row odb bs nrep p holders :
    row (merge_step odb true bs nrep p holders) =
      let o := fst (fst (choice odb bs p holders)) in
      let tk := snd (choice odb bs p holders) in
      let e := errcode (merge_step odb true bs nrep p holders) in
      Some (dir_cells nrep holders tk,
            match post_check odb p o with
            | Some false => CKO | Some true => COK
            | None => match tk with Some _ => COK | None => CDash end
            end,
            if e =? 0 then COK else CKO, negb (e =? 0)).
  Proof. unfold DbRepair.merge_step. destruct (choice odb bs p holders) as [[o e] tk]. reflexivity. Qed.

  Lemma step_row_none odb bs nrep p holders : row (merge_step odb false bs nrep p holders) = None.
  Proof. unfold DbRepair.merge_step. destruct (choice odb bs p holders) as [[o e] tk]. reflexivity. Qed.

  (* output, error code and taken replica do not depend on whether a report is written *)
  Lemma step_report_irrelevant odb r1 r2 bs nrep p holders :
    let a := merge_step odb r1 bs nrep p holders in
    let b := merge_step odb r2 bs nrep p holders in
    out a = out b /\ errcode a = errcode b /\ taken a = taken b.
  Proof. simpl. rewrite !step_out, !step_taken, !step_errcode. auto. Qed.

  (* ---------- the pre-vote search ---------- *)
  Lemma find_correct_some odb p holders h :
    find_correct odb p holders = Some h ->
    In h holders /\ (exists db, odb = Some db /\ hash_correct db p (snd h)) /\
    exists l1 l2, holders = l1 ++ h :: l2 /\ forall g, In g l1 -> accepted odb p (snd g) = false.
  Proof.
    unfold DbRepair.find_correct. intros Hf.
    split; [exact (proj1 (find_some _ _ Hf))|].
    split; [apply accepted_iff; exact (proj2 (find_some _ _ Hf))|].
    revert Hf. induction holders as [|g t IH]; simpl; [discriminate|].
    destruct (accepted odb p (snd g)) eqn:E.
    - intros [= <-]. exists [], t. split; [reflexivity|]. intros ? [].
    - intros Hf. destruct (IH Hf) as (l1 & l2 & -> & Hl). exists (g :: l1), l2. split; [reflexivity|].
      intros g' [<-|Hg]; [exact E|apply Hl; exact Hg].
  Qed.

  Lemma find_correct_none odb p holders :
    find_correct odb p holders = None -> forall h, In h holders -> accepted odb p (snd h) = false.
  Proof. unfold DbRepair.find_correct. intros Hf h Hin. exact (find_none _ _ Hf h Hin). Qed.

  Lemma choice_taken odb bs p holders i :
    snd (choice odb bs p holders) = Some i ->
    2 <= length holders /\
    exists c db, In (i, c) holders /\ fst (fst (choice odb bs p holders)) = c /\ snd (fst (choice odb bs p holders)) = 0 /\
                 odb = Some db /\ hash_correct db p c /\
                 exists l1 l2, holders = l1 ++ (i, c) :: l2 /\
                               forall g, In g l1 -> ~ hash_correct db p (snd g).
  Proof.
    unfold choice. destruct holders as [|h [|h2 t]].
    - simpl. unfold DbRepair.find_correct. simpl. destruct (vote_chunked byte_eqb bs []); discriminate.
    - discriminate.
    - set (hs := h :: h2 :: t). destruct (find_correct odb p hs) as [g|] eqn:Ef.
      + simpl. intros [= <-]. split; [subst hs; simpl; lia|].
        destruct (find_correct_some _ _ _ _ Ef) as (Hin & (db & Hd & Hc) & l1 & l2 & Hsplit & Hl).
        destruct g as [gi gc]. exists gc, db.
        split; [exact Hin|]. split; [reflexivity|]. split; [reflexivity|]. split; [exact Hd|].
        split; [exact Hc|].
        exists l1, l2. split; [exact Hsplit|]. intros g Hg Habs.
        specialize (Hl g Hg). assert (accepted odb p (snd g) = true) as Ht
          by (apply accepted_iff; exists db; split; assumption). congruence.
      + destruct (vote_chunked byte_eqb bs (map snd hs)); discriminate.
  Qed.

  (* when the post-merge check cannot fail on a taken replica *)
  Lemma choice_taken_post odb bs p holders i :
    snd (choice odb bs p holders) = Some i ->
    post_check odb p (fst (fst (choice odb bs p holders))) = Some true.
  Proof.
    intros Ht. destruct (choice_taken _ _ _ _ _ Ht) as (_ & c & db & _ & Ho & _ & Hd & Hc & _).
    rewrite Ho, Hd. unfold DbRepair.post_check. apply db_check_true. exact Hc.
  Qed.

  (* ---------- soundness of the report and of the error code ---------- *)
  Theorem ok_sound db report bs nrep p holders dirs hc ec msg :
    row (merge_step (Some db) report bs nrep p holders) = Some (dirs, hc, ec, msg) ->
    let o := out (merge_step (Some db) report bs nrep p holders) in
    (hc = COK <-> hash_correct db p o) /\
    (hc = CKO <-> exists r, recorded db p r /\ ~ matches o r) /\
    (hc = CDash <-> ~ exists r, recorded db p r).
  Proof.
    destruct report; [|rewrite step_row_none; discriminate].
    rewrite step_row.
    simpl. intros [= _ <- _ _]. rewrite step_out.
    set (o := fst (fst (choice (Some db) bs p holders))).
    destruct (db_check db p o) as [[|]|] eqn:E.
    - pose proof (proj1 (db_check_true _ _ _) E) as Hc.
      split; [tauto|]. split; (split; [discriminate|]).
      + intros (r & Hrec & Hn). exfalso. apply Hn. apply Hc. exact Hrec.
      + intros Hn. exfalso. apply Hn. exact (proj1 Hc).
    - pose proof (proj1 (db_check_false _ _ _) E) as (r & Hrec & Hn).
      split; [|split].
      + split; [discriminate|]. intros Hc. exfalso. apply Hn. apply Hc. exact Hrec.
      + split; [intros _; exists r; tauto|reflexivity].
      + split; [discriminate|]. intros Hx. exfalso. apply Hx. exists r. exact Hrec.
    - pose proof (proj1 (db_check_none _ _ _) E) as Hnone.
      destruct (snd (choice (Some db) bs p holders)) as [i|] eqn:Et.
      + pose proof (choice_taken_post _ _ _ _ _ Et) as Hp. unfold post_check in Hp. fold o in Hp. congruence.
      + split; [|split].
        * split; [discriminate|]. intros [Hex _]. contradiction.
        * split; [discriminate|]. intros (r & Hrec & _). exfalso. apply Hnone. exists r. exact Hrec.
        * tauto.
  Qed.

  Theorem error_column db report bs nrep p holders dirs hc ec msg :
    row (merge_step (Some db) report bs nrep p holders) = Some (dirs, hc, ec, msg) ->
    let e := errcode (merge_step (Some db) report bs nrep p holders) in
    (ec = COK <-> e = 0) /\ (ec = CKO <-> e <> 0) /\ (msg = false <-> e = 0).
  Proof.
    destruct report; [|rewrite step_row_none; discriminate].
    rewrite step_row.
    simpl. intros [= _ _ <- <-].
    destruct (errcode _ =? 0) eqn:E; [apply Nat.eqb_eq in E|apply Nat.eqb_neq in E]; simpl;
      repeat split; intros; try discriminate; try tauto; try congruence.
  Qed.

  (* no error contribution => whatever is recorded for the path is matched by the output *)
  Theorem no_error_sound db report bs nrep p holders :
    errcode (merge_step (Some db) report bs nrep p holders) = 0 ->
    forall r, recorded db p r -> matches (out (merge_step (Some db) report bs nrep p holders)) r.
  Proof.
    rewrite step_errcode, step_out. unfold post_check.
    set (o := fst (fst (choice (Some db) bs p holders))).
    destruct (db_check db p o) as [[|]|] eqn:E; intros He r Hrec.
    - apply (proj1 (db_check_true _ _ _) E). exact Hrec.
    - discriminate.
    - exfalso. apply (proj1 (db_check_none _ _ _) E). exists r. exact Hrec.
  Qed.

  (* ---------- a path without entry is processed exactly as without database ---------- *)
  Lemma find_correct_absent db p holders :
    (~ exists r, recorded db p r) -> find_correct (Some db) p holders = None.
  Proof.
    intros Hn. unfold DbRepair.find_correct.
    destruct (find _ holders) as [h|] eqn:Ef; [|reflexivity].
    apply find_some in Ef. destruct Ef as [_ Ha]. apply accepted_iff in Ha.
    destruct Ha as (db' & [= <-] & Hex & _). contradiction.
  Qed.

  Theorem absent_as_without_database db report bs nrep p holders :
    (~ exists r, recorded db p r) ->
    merge_step (Some db) report bs nrep p holders = merge_step None report bs nrep p holders.
  Proof.
    intros Hn.
    assert (find_correct None p holders = None) as Hf.
    { unfold DbRepair.find_correct. simpl. induction holders; simpl; auto. }
    assert (choice (Some db) bs p holders = choice None bs p holders) as Hc.
    { unfold DbRepair.choose. rewrite (find_correct_absent _ _ _ Hn), Hf. reflexivity. }
    unfold DbRepair.merge_step. rewrite Hc. destruct (choice None bs p holders) as [[o e] tk].
    unfold DbRepair.post_check. rewrite (proj2 (db_check_none db p o) Hn). reflexivity.
  Qed.

  (* ---------- the first replica is not trusted ---------- *)
  Theorem first_not_trusted db report bs nrep p i0 c0 rest orig :
    0 < bs -> rest <> [] ->
    hash_correct db p orig ->                           (* the database records orig's hashes for p *)
    ~ (md5 c0 = md5 orig /\ sha1 c0 = sha1 orig) ->     (* first replica damaged, as far as hashes tell *)
    ((exists i c, In (i, c) rest /\ md5 c = md5 orig /\ sha1 c = sha1 orig) \/
     (2 <= length rest /\ vote_spec byte_eqb (c0 :: map snd rest) = orig)) ->
    let res := merge_step (Some db) report bs nrep p ((i0, c0) :: rest) in
    hash_correct db p (out res) /\ out res <> c0 /\
    errcode res = match taken res with Some _ => 0 | None => status_spec byte_eqb (c0 :: map snd rest) end /\
    (forall dirs hc ec msg, row res = Some (dirs, hc, ec, msg) -> hc = COK).
  Proof.
    intros Hbs Hrest Horig Hdam Hres res.
    assert (forall c, md5 c = md5 orig -> sha1 c = sha1 orig -> hash_correct db p c) as Hext.
    { intros c H1 H2. apply db_check_true. rewrite (db_check_hash_ext db p c orig H1 H2).
      apply db_check_true. exact Horig. }
    assert (~ hash_correct db p c0) as Hc0.
    { intros Hc. apply Hdam. destruct Horig as [(r & Hrec) Hall].
      destruct (Hall r Hrec) as [A B]. destruct (proj2 Hc r Hrec) as [A' B']. split; congruence. }
    assert (hash_correct db p (out res) /\
            errcode res = match taken res with Some _ => 0 | None => status_spec byte_eqb (c0 :: map snd rest) end) as [Hout Herr].
    { subst res. rewrite step_out, step_errcode, step_taken.
      destruct (snd (choice (Some db) bs p ((i0, c0) :: rest))) as [i|] eqn:Et.
      - destruct (choice_taken _ _ _ _ _ Et) as (_ & c & db' & _ & Ho & He & [= <-] & Hc & _).
        rewrite (choice_taken_post _ _ _ _ _ Et). rewrite Ho, He. split; [exact Hc|reflexivity].
      - (* nobody was accepted: the vote decided *)
        unfold choice in *. destruct rest as [|h2 t]; [contradiction|].
        destruct (find_correct (Some db) p ((i0, c0) :: h2 :: t)) as [g|] eqn:Ef; [discriminate|].
        pose proof (find_correct_none _ _ _ Ef) as Hnone.
        destruct Hres as [(i & c & Hin & H1 & H2)|[Hlen Hvote]].
        + exfalso. specialize (Hnone (i, c) (or_intror Hin)). cbn [snd] in Hnone.
          assert (accepted (Some db) p c = true) as Ha
            by (apply accepted_iff; exists db; split; [reflexivity|apply Hext; assumption]).
          congruence.
        + simpl map in *.
          rewrite (vote_chunked_spec byte_eqb bs (c0 :: snd h2 :: map snd t)) in *
            by (try exact Hbs; simpl in *; rewrite map_length; lia).
          simpl fst. simpl snd. rewrite Hvote. unfold post_check.
          rewrite (proj2 (db_check_true db p orig) Horig). split; [exact Horig|reflexivity]. }
    split; [exact Hout|]. split; [intros E; rewrite E in Hout; contradiction|]. split; [exact Herr|].
    intros dirs hc ec msg Hrow. apply (proj1 (ok_sound _ _ _ _ _ _ _ _ _ _ Hrow)). exact Hout.
  Qed.

  (* ---------- the replica taken as already correct ---------- *)
  Theorem pre_vote odb report bs nrep p holders i :
    taken (merge_step odb report bs nrep p holders) = Some i ->
    2 <= length holders /\
    exists c db, odb = Some db /\ In (i, c) holders /\ out (merge_step odb report bs nrep p holders) = c /\
                 hash_correct db p c /\
                 exists l1 l2, holders = l1 ++ (i, c) :: l2 /\ forall g, In g l1 -> ~ hash_correct db p (snd g).
  Proof.
    rewrite step_taken, step_out. intros Ht.
    destruct (choice_taken _ _ _ _ _ Ht) as (Hlen & c & db & Hin & Ho & _ & Hd & Hc & Hsplit).
    split; [exact Hlen|]. exists c, db. tauto.
  Qed.

  (* with collision-freedom on orig, "has the recorded hashes" is "is the original" *)
  Lemma hash_correct_inj db p c orig :
    hash_correct db p orig -> hash_correct db p c ->
    (forall c', md5 c' = md5 orig -> sha1 c' = sha1 orig -> c' = orig) -> c = orig.
  Proof.
    intros [(r & Hrec) Ho] [_ Hc] Hinj. destruct (Ho r Hrec) as [A B]. destruct (Hc r Hrec) as [A' B'].
    apply Hinj; congruence.
  Qed.

  Theorem majority_restores db report bs nrep p i0 c0 rest orig :
    0 < bs -> 2 <= length rest ->
    hash_correct db p orig ->
    ~ (md5 c0 = md5 orig /\ sha1 c0 = sha1 orig) ->
    length orig = maxlen (c0 :: map snd rest) ->
    (forall i x, nth_error orig i = Some x ->
       length (@column byte i (c0 :: map snd rest)) < 2 * cnt byte_eqb x (column i (c0 :: map snd rest))) ->
    let res := merge_step (Some db) report bs nrep p ((i0, c0) :: rest) in
    hash_correct db p (out res) /\ out res <> c0 /\ errcode res = 0 /\
    ((forall c', md5 c' = md5 orig -> sha1 c' = sha1 orig -> c' = orig) -> out res = orig).
  Proof.
    intros Hbs Hlen Horig Hdam Hl Hmaj res.
    destruct (vote_spec_majority byte_eqb byte_eqb_spec _ _ Hl Hmaj) as [Hv Hs].
    assert (rest <> []) as Hne by (destruct rest; simpl in Hlen; [lia|discriminate]).
    destruct (first_not_trusted db report bs nrep p i0 c0 rest orig Hbs Hne Horig Hdam
                (or_intror (conj Hlen Hv))) as (Hout & Hneq & Herr & _).
    fold res in Hout, Hneq, Herr.
    split; [exact Hout|]. split; [exact Hneq|]. split.
    - rewrite Herr. destruct (taken res); [reflexivity|exact Hs].
    - intros Hinj. exact (hash_correct_inj _ _ _ _ Horig Hout Hinj).
  Qed.

  (* ---------- exit status of the run ---------- *)
  Theorem exit_zero db report bs nrep (items : list (path * list (nat * list byte))) :
    run_status (map (fun it => errcode (merge_step (Some db) report bs nrep (fst it) (snd it))) items) = 0 ->
    forall it, In it items -> forall r, recorded db (fst it) r ->
      matches (out (merge_step (Some db) report bs nrep (fst it) (snd it))) r.
  Proof.
    intros Hst it Hin. apply no_error_sound.
    assert (forall c, In c (map (fun it => errcode (merge_step (Some db) report bs nrep (fst it) (snd it))) items) -> c = 0) as Hall.
    { revert Hst. unfold run_status. destruct (existsb _ _) eqn:E; [discriminate|]. intros _ c Hc.
      destruct (Nat.eq_dec c 0) as [|Hn]; [assumption|]. exfalso.
      assert (existsb (fun c => negb (c =? 0)) (map (fun it => errcode (merge_step (Some db) report bs nrep (fst it) (snd it))) items) = true) as Hx.
      { apply existsb_exists. exists c. split; [exact Hc|]. apply negb_true_iff, Nat.eqb_neq. exact Hn. }
      congruence. }
    apply Hall. apply in_map_iff. exists it. split; [reflexivity|exact Hin].
  Qed.

  (* ---------- the 'O' column ---------- *)
  Lemma set_nth_nth {A} (l : list A) n x i y :
    nth_error (set_nth n x l) i = Some y -> (i = n /\ y = x) \/ nth_error l i = Some y.
  Proof.
    revert n i. induction l as [|a t IH]; intros n i; simpl; [auto|].
    destruct n as [|n]; destruct i as [|i]; simpl; auto.
    - intros [= <-]. auto.
    - intros H. destruct (IH _ _ H) as [[-> ->]|H']; auto.
  Qed.

  Lemma dirs0_no_O holders nrep i :
    nth_error (fold_left (fun d (h : nat * list byte) => set_nth (fst h) CX d) holders (repeat CDash nrep)) i <> Some CO.
  Proof.
    assert (forall d, (forall j, nth_error d j <> Some CO) ->
                      forall j, nth_error (fold_left (fun d (h : nat * list byte) => set_nth (fst h) CX d) holders d) j <> Some CO) as H.
    { induction holders as [|h t IH]; intros d Hd j; simpl; [apply Hd|].
      apply IH. intros k Hk. destruct (set_nth_nth _ _ _ _ _ Hk) as [[_ Habs]|Hk']; [discriminate|].
      exact (Hd k Hk'). }
    apply H. intros j Hj. apply nth_error_In in Hj. apply repeat_spec in Hj. discriminate.
  Qed.

  Theorem O_column odb bs nrep p holders dirs hc ec msg i :
    row (merge_step odb true bs nrep p holders) = Some (dirs, hc, ec, msg) ->
    2 <= length holders -> nth_error dirs i = Some CO ->
    taken (merge_step odb true bs nrep p holders) = Some i.
  Proof.
    rewrite step_row, step_taken. cbv zeta. intros [= <- _ _ _] Hlen Hi.
    destruct holders as [|h [|h2 t]]; simpl in Hlen; try lia.
    unfold dir_cells in Hi.
    destruct (snd (choice odb bs p (h :: h2 :: t))) as [k|].
    - destruct (set_nth_nth _ _ _ _ _ Hi) as [[-> _]|Hi']; [reflexivity|].
      exfalso. exact (dirs0_no_O (h :: h2 :: t) nrep i Hi').
    - exfalso. exact (dirs0_no_O (h :: h2 :: t) nrep i Hi).
  Qed.

  (* ---------- the legacy single-file check is blind to nested files ---------- *)
  Lemma rfigc_single_blind db rel c :
    rel <> [] -> (forall r, In r db -> r_path r <> [last rel []]) ->
    rfigc_single md5 sha1 db rel c = false.
  Proof.
    intros Hne Hno. unfold rfigc_single.
    destruct (existsb _ db) eqn:E; [|reflexivity]. exfalso.
    apply existsb_exists in E. destruct E as (r & Hin & Hr).
    apply andb_true_iff in Hr. destruct Hr as [Hp _].
    destruct (path_eqb_spec (removelast rel ++ r_path r) rel) as [Heq|]; [|discriminate].
    rewrite (app_removelast_last [] Hne) in Heq at 2.
    apply app_inv_head in Heq. exact (Hno r Hin Heq).
  Qed.
End DbRepairP.

(* ---------- exit status ---------- *)
Lemma run_status_zero codes : run_status codes = 0 <-> forall c, In c codes -> c = 0.
Proof.
  unfold run_status. destruct (existsb _ codes) eqn:E.
  - split; [discriminate|]. intros H. apply existsb_exists in E. destruct E as (c & Hin & Hc).
    rewrite (H c Hin) in Hc. discriminate.
  - split; [intros _|reflexivity]. intros c Hin.
    destruct (Nat.eq_dec c 0) as [|Hn]; [assumption|]. exfalso.
    assert (existsb (fun c => negb (c =? 0)) codes = true) as Hx.
    { apply existsb_exists. exists c. split; [exact Hin|]. apply negb_true_iff, Nat.eqb_neq. exact Hn. }
    congruence.
Qed.

Lemma run_status_01 codes : run_status codes = 0 \/ run_status codes = 1.
Proof. unfold run_status. destruct (existsb _ codes); auto. Qed.
