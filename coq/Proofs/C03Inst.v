(* C03 end to end on the real codecs: the Stream-level clean-run theorems (Proofs/StreamP.v) with the per-block stage
   instantiated by the Pipeline model (Proofs/PipelineClean.v), the intra-ecc of the metadata fields by the Entry
   model (C09) and both over the verified facade of any of the four codecs (Proofs/CodecInst.v).  What is left as a
   hypothesis is the format's unambiguity on the tree, NUL-free names, the files being found unchanged under the
   root, sizes below 10^4300 and (whole tool) the metadata fitting in the 65535-byte window. *)
From Coq Require Import List Arith Bool ZArith NArith Lia.
From Coq Require Import Strings.Byte.
From PFF Require Import Bytes Stream Proofs.StreamP Proofs.StreamInt.
From PFF Require Pipeline Entry Facade Proofs.PipelineP Proofs.PipelineClean Proofs.CodecInst Props.C09.
Import ListNotations.

Section Inst.
  Variable algo : N.
  Variable mb : nat.                              (* max_block_size of the per-block codec *)
  Variable hash : list byte -> list byte.
  Variable hlen : nat.
  Hypothesis hash_len : forall m, length (hash m) = hlen.
  Variable bdec : nat -> option byte -> list byte -> list byte -> option (list byte * list byte).   (* any decoder *)
  Variable o : option byte.
  Variable fast : bool.
  (* intra-ecc geometry of the metadata fields *)
  Variables ik ies : nat.
  Hypothesis ik_pos : 1 <= ik.
  Hypothesis ik_le : ik + ies <= 255.
  Variable idec : list byte -> list byte -> option (list byte * list byte).

  Notation penc := (CodecInst.penc algo mb).
  Notation pchk := (CodecInst.pchk algo mb).
  Notation ienc := (CodecInst.ienc algo (ik + ies) ik).
  Notation ichk := (CodecInst.ichk algo (ik + ies) ik).

  Definition intra_h (f e : list byte) : list byte := fst (fst (Entry.hdr_intra_correct ik ies ichk idec f e)).
  Definition intra_w (f e : list byte) : list byte := fst (fst (Entry.whole_intra_correct ik ies ichk idec f e)).
  Definition fenc_h (f : list byte) : list byte := Entry.hdr_intra_encode ik ienc f.
  Definition fenc_w (f : list byte) : list byte := Entry.whole_intra_encode ik ienc f.

  Lemma intra_facts field :
    intra_h field (fenc_h field) = field /\ intra_w field (fenc_w field) = field.
  Proof.
    unfold intra_h, intra_w, fenc_h, fenc_w.
    destruct (C09.C09_intra_roundtrip ik ies ienc ichk idec ik_pos (CodecInst.entry_enc_len algo ik ies ik_pos ik_le)
                (CodecInst.entry_chk_enc algo ik ies) field) as [A B].
    rewrite A, B. split; reflexivity.
  Qed.

  (* ---- header tool ---- *)
  Section Header.
    Variables ms hdr : nat.
    Hypothesis ms_ok : 1 <= ms <= mb.
    Hypothesis track_pos : 1 <= hlen + (mb - ms).

    Definition blocksH_pipe (t : list byte) (z : Z) (f : list byte) : bres :=
      PipelineClean.bres_of (Pipeline.hdr_file (option byte) hash pchk bdec o fast ms mb hlen hdr (Z.to_nat z) f t).
    Definition track_h (f : list byte) : list byte := Pipeline.track_of (Pipeline.hdr_gen hash penc ms hdr f).

    Lemma blocksH_pipe_clean f : blocksH_pipe (track_h f) (zlen f) f = BClean.
    Proof.
      unfold blocksH_pipe, track_h, zlen. rewrite Nat2Z.id.
      destruct (PipelineClean.hdr_file_clean (option byte) hash pchk bdec penc o fast (CodecInst.pwf mb) mb hlen
                  (CodecInst.pipe_chk_enc algo mb) hash_len (CodecInst.pipe_enc_len algo mb) ms hdr
                  ltac:(lia) ltac:(lia) (fun k m H1 H2 => conj H1 H2) track_pos f) as (A & _ & _).
      unfold PipelineClean.bres_of. rewrite A. reflexivity.
    Qed.

    Theorem clean_header marker delim ignore_size look preamble (T : list (list byte * list byte)) :
      marker <> [] ->
      clean_pieces marker (preamble :: map (gen_entry delim fenc_h track_h) T) ->
      (forall f, In f T ->
         prefixb delim (fst f ++ delim) = false /\ clean_mid delim (fst f) /\ clean_mid delim (size_of f) /\
         clean_mid delim (fenc_h (fst f)) /\ clean_mid delim (fenc_h (size_of f))) ->
      (forall f, In f T -> (N.of_nat (length (snd f)) < 10 ^ 4300)%N) ->
      (forall f, In f T -> has_nul (fst f) = false) ->
      (forall f, In f T -> look (fst f) = Some (snd f)) ->
      run_h marker delim ignore_size look intra_h blocksH_pipe (generate marker delim fenc_h track_h preamble T)
      = Done (mkC (length T) 0 0 0 0) [] 0.
    Proof.
      intros Hm U1 U2 SZ NN LK.
      apply (clean_h marker delim ignore_size look intra_h blocksH_pipe fenc_h track_h preamble T Hm U1 U2).
      - intros f _. split; apply intra_facts.
      - intros f Hf. unfold size_of, zlen. rewrite (py_int_dec _ (SZ f Hf)), nat_N_Z. reflexivity.
      - exact NN.
      - exact LK.
      - intros f _. apply blocksH_pipe_clean.
    Qed.
  End Header.

  (* ---- whole-file tool ---- *)
  Section Whole.
    Variable mu : nat -> nat -> nat.               (* file size -> file offset -> message size of the block there (variable rate) *)
    Hypothesis mu_ok : forall s c, 1 <= mu s c <= mb.
    Hypothesis track_pos : forall s c, 1 <= hlen + (mb - mu s c).
    Variable window : nat.

    (* the block stage reads the track from the ecc file at [t, e) and leaves the cursor at e *)
    Definition blocksW_pipe (d : list byte) (t e : nat) (z : Z) (f : list byte) : bres * nat :=
      (PipelineClean.bres_of (Pipeline.sa_file (option byte) hash pchk bdec o fast (mu (Z.to_nat z)) mb hlen f (skipn t d) (e - t)), e).
    Definition track_w (f : list byte) : list byte := Pipeline.track_of (Pipeline.sa_gen hash (mu (length f)) penc f).

    Lemma blocksW_pipe_clean f d t e : sub d t e = track_w f -> fst (blocksW_pipe d t e (zlen f) f) = BClean.
    Proof.
      intros S. unfold blocksW_pipe, zlen. rewrite Nat2Z.id. cbn [fst]. unfold sub in S.
      assert (D : skipn t d = track_w f ++ skipn (e - t) (skipn t d)) by (rewrite <- S; symmetry; apply firstn_skipn).
      assert (L : length (track_w f) <= e - t) by (rewrite <- S; apply firstn_le_length).
      rewrite D. unfold track_w in *.
      destruct (PipelineClean.sa_file_clean (option byte) hash pchk bdec penc o fast (CodecInst.pwf mb) mb hlen
                  (CodecInst.pipe_chk_enc algo mb) hash_len (CodecInst.pipe_enc_len algo mb) (mu (length f))
                  (fun c => proj1 (mu_ok (length f) c)) (fun c => proj2 (mu_ok (length f) c)) (fun k m H1 H2 => conj H1 H2) (track_pos (length f))
                  f (skipn (e - t) (skipn t d)) (e - t) L) as (A & _).
      unfold PipelineClean.bres_of. rewrite A. reflexivity.
    Qed.

    Theorem clean_whole marker delim ignore_size look preamble (T : list (list byte * list byte)) :
      marker <> [] ->
      clean_pieces marker (preamble :: map (gen_entry delim fenc_w track_w) T) ->
      (forall f, In f T ->
         prefixb delim (fst f ++ delim) = false /\ clean_mid delim (fst f) /\ clean_mid delim (size_of f) /\
         clean_mid delim (fenc_w (fst f)) /\ clean_mid delim (fenc_w (size_of f))) ->
      (forall f, In f T -> (N.of_nat (length (snd f)) < 10 ^ 4300)%N) ->
      (forall f, In f T -> has_nul (fst f) = false) ->
      (forall f, In f T -> look (fst f) = Some (snd f)) ->
      (forall f, In f T -> meta_len delim (fst f) (size_of f) (fenc_w (fst f)) (fenc_w (size_of f)) <= window) ->
      run_w marker delim ignore_size look intra_w window blocksW_pipe (generate marker delim fenc_w track_w preamble T)
      = Done (mkC (length T) 0 0 0 0) [] 0.
    Proof.
      intros Hm U1 U2 SZ NN LK MF.
      apply (clean_w marker delim ignore_size look intra_w window blocksW_pipe fenc_w track_w preamble T Hm U1 U2).
      - intros f _. split; apply intra_facts.
      - intros f Hf. unfold size_of, zlen. rewrite (py_int_dec _ (SZ f Hf)), nat_N_Z. reflexivity.
      - exact NN.
      - exact LK.
      - intros f d t e _ S. apply blocksW_pipe_clean. exact S.
      - exact MF.
    Qed.
  End Whole.
End Inst.
