(* DiffP.v — proofs about the resilience-tester metric model (Diff.v). *)
From Coq Require Import List Arith Bool Lia.
From PFF Require Import Diff.
Import ListNotations.

Section DiffP.
  Context {A : Type} (eqb : A -> A -> bool).
  Hypothesis eqb_spec : forall x y, reflect (x = y) (eqb x y).

  Notation ham := (ham eqb).

  Lemma ham_split n : forall a b,
    ham a b = ham (firstn n a) (firstn n b) + ham (skipn n a) (skipn n b).
  Proof.
    induction n as [|n IH]; intros a b; [reflexivity|].
    destruct a as [|x a]; [reflexivity|]. destruct b as [|y b].
    - cbn [firstn skipn Diff.ham]. destruct (skipn n a); reflexivity.
    - cbn [firstn skipn Diff.ham]. rewrite (IH a b). lia.
  Qed.

  Lemma is_nil_firstn bs (s : list A) : 0 < bs -> is_nil (firstn bs s) = is_nil s.
  Proof. intros H. destruct bs; [lia|]. destruct s; reflexivity. Qed.

  Lemma ham_nil_r a : ham a [] = 0.
  Proof. destruct a; reflexivity. Qed.

  Lemma diff_loop_spec fuel bs : 0 < bs -> forall s1 s2,
    Nat.max (length s1) (length s2) < fuel -> diff_loop eqb fuel bs s1 s2 = diff_spec eqb s1 s2.
  Proof.
    intros Hbs. induction fuel as [|f IH]; intros s1 s2 Hf; [lia|].
    cbn [diff_loop]. rewrite !is_nil_firstn by exact Hbs. unfold diff_spec, absdiff.
    destruct s1 as [|x s1], s2 as [|y s2]; cbn [is_nil].
    - reflexivity.
    - cbn [Diff.ham length]. f_equal; lia.
    - rewrite ham_nil_r. cbn [length]. f_equal; lia.
    - rewrite IH.
      + unfold diff_spec, absdiff. rewrite (ham_split bs (x :: s1) (y :: s2)).
        rewrite !firstn_length, !skipn_length. f_equal; lia.
      + rewrite !skipn_length. cbn [length] in *. lia.
  Qed.

  Theorem diff_bytes_spec bs st1 st2 f1 f2 : 0 < bs ->
    diff_bytes eqb bs st1 st2 f1 f2 = diff_spec eqb (skipn st1 f1) (skipn st2 f2).
  Proof. intros H. unfold diff_bytes. apply diff_loop_spec; [exact H|lia]. Qed.

  Lemma ham_zero_eq a : forall b, length a = length b -> ham a b = 0 -> a = b.
  Proof.
    induction a as [|x a IH]; intros [|y b] Hl Hh; try discriminate; [reflexivity|].
    cbn in Hl, Hh. destruct (eqb_spec x y) as [->|]; [|discriminate].
    f_equal. apply IH; [lia|exact Hh].
  Qed.

  Lemma ham_refl a : ham a a = 0.
  Proof. induction a as [|x a IH]; [reflexivity|]. cbn. destruct (eqb_spec x x); [exact IH|congruence]. Qed.

  Theorem diff_zero_iff a b : fst (diff_spec eqb a b) = 0 <-> a = b.
  Proof.
    unfold diff_spec, absdiff. cbn [fst]. split.
    - intros H. apply ham_zero_eq; lia.
    - intros ->. rewrite ham_refl. lia.
  Qed.

  Theorem diff_total a b : snd (diff_spec eqb a b) = Nat.max (length a) (length b).
  Proof. reflexivity. Qed.

  (* number of differing positions over the common length, stated without ham *)
  Theorem ham_count a b :
    ham a b = length (filter (fun p => negb (eqb (fst p) (snd p))) (combine a b)).
  Proof.
    revert b; induction a as [|x a IH]; intros [|y b]; try reflexivity.
    cbn [Diff.ham combine filter fst snd]. rewrite IH. destruct (eqb x y); reflexivity.
  Qed.

  (* ---- identical? ---- *)
  Lemma list_eqb_iff a : forall b, list_eqb eqb a b = true <-> a = b.
  Proof.
    induction a as [|x a IH]; intros [|y b]; cbn; try (split; [discriminate|congruence]); [tauto|].
    rewrite andb_true_iff, IH. destruct (eqb_spec x y) as [->|Hne].
    - split; [intros [_ ->]; reflexivity|intros [= ->]; auto].
    - split; [intros [? _]; discriminate|intros [= ? ?]; contradiction].
  Qed.

  Lemma list_eqb_split n : forall a b,
    list_eqb eqb a b = list_eqb eqb (firstn n a) (firstn n b) && list_eqb eqb (skipn n a) (skipn n b).
  Proof.
    induction n as [|n IH]; intros a b; [reflexivity|].
    destruct a as [|x a], b as [|y b]; try reflexivity.
    cbn [firstn skipn list_eqb]. rewrite (IH a b), andb_assoc. reflexivity.
  Qed.

  Lemma same_loop_spec fuel bs : 0 < bs -> forall s1 s2,
    Nat.max (length s1) (length s2) < fuel -> same_loop eqb fuel bs s1 s2 = list_eqb eqb s1 s2.
  Proof.
    intros Hbs. induction fuel as [|f IH]; intros s1 s2 Hf; [lia|].
    cbn [same_loop]. rewrite (list_eqb_split bs s1 s2).
    destruct (list_eqb eqb (firstn bs s1) (firstn bs s2)) eqn:E; cbn [negb andb]; [|reflexivity].
    rewrite !is_nil_firstn by exact Hbs.
    destruct s1 as [|x s1], s2 as [|y s2]; cbn [is_nil andb].
    - destruct bs; reflexivity.
    - destruct bs; [lia|]. discriminate.
    - destruct bs; [lia|]. discriminate.
    - apply IH. rewrite !skipn_length. cbn [length] in *. lia.
  Qed.

  Theorem diff_same_spec bs st1 st2 f1 f2 : 0 < bs ->
    diff_same eqb bs st1 st2 f1 f2 = list_eqb eqb (skipn st1 f1) (skipn st2 f2).
  Proof. intros H. unfold diff_same. apply same_loop_spec; [exact H|lia]. Qed.

  (* ---- trees ---- *)
  Context {P : Type}.
  Implicit Types (ref : list (P * list A)) (other : P -> option (list A)).

  Definition file_bytes other (pc : P * list A) : nat * nat :=
    match other (fst pc) with
    | None => (length (snd pc), length (snd pc))
    | Some c' => diff_spec eqb (snd pc) c'
    end.

  Definition file_differs other (pc : P * list A) : bool :=
    match other (fst pc) with None => true | Some c' => negb (list_eqb eqb (snd pc) c') end.

  Lemma bytes_dir_fold bs ref other acc : 0 < bs ->
    fold_left (fun acc pc =>
                 let '(p, c) := pc in
                 match other p with
                 | None => (fst acc + length c, snd acc + length c)
                 | Some c' => let '(d, t) := diff_bytes eqb bs 0 0 c c' in (fst acc + d, snd acc + t)
                 end) ref acc
    = (fst acc + list_sum (map (fun pc => fst (file_bytes other pc)) ref),
       snd acc + list_sum (map (fun pc => snd (file_bytes other pc)) ref)).
  Proof.
    intros Hbs. revert acc; induction ref as [|[p c] ref IH]; intros acc; cbn [fold_left map list_sum].
    - destruct acc; cbn; f_equal; lia.
    - rewrite IH.
      change (file_bytes other (p, c)) with
        (match other p with None => (length c, length c) | Some c' => diff_spec eqb c c' end).
      destruct (other p) as [c'|].
      + rewrite diff_bytes_spec by exact Hbs. cbn [skipn].
        destruct (diff_spec eqb c c') as [d t]. unfold list_sum; cbn [fst snd fold_right]. f_equal; lia.
      + unfold list_sum; cbn [fst snd fold_right]. f_equal; lia.
  Qed.

  Theorem bytes_dir_spec bs ref other : 0 < bs ->
    bytes_dir eqb bs ref other
    = (list_sum (map (fun pc => fst (file_bytes other pc)) ref),
       list_sum (map (fun pc => snd (file_bytes other pc)) ref)).
  Proof. intros H. unfold bytes_dir. rewrite bytes_dir_fold by exact H. reflexivity. Qed.

  Lemma count_dir_fold bs ref other acc : 0 < bs ->
    fold_left (fun acc pc =>
                 let '(p, c) := pc in
                 match other p with
                 | None => (S (fst acc), S (snd acc))
                 | Some c' => ((if diff_same eqb bs 0 0 c c' then 0 else 1) + fst acc, S (snd acc))
                 end) ref acc
    = (fst acc + length (filter (file_differs other) ref), snd acc + length ref).
  Proof.
    intros Hbs. revert acc; induction ref as [|[p c] ref IH]; intros acc; cbn [fold_left filter length].
    - destruct acc; cbn; f_equal; lia.
    - rewrite IH.
      change (file_differs other (p, c)) with
        (match other p with None => true | Some c' => negb (list_eqb eqb c c') end).
      destruct (other p) as [c'|].
      + rewrite diff_same_spec by exact Hbs. cbn [skipn fst snd].
        destruct (list_eqb eqb c c'); cbn [negb length fst snd]; f_equal; lia.
      + cbn [length fst snd]. f_equal; lia.
  Qed.

  Theorem count_dir_spec bs ref other : 0 < bs ->
    count_dir eqb bs ref other = (length (filter (file_differs other) ref), length ref).
  Proof. intros H. unfold count_dir. rewrite count_dir_fold by exact H. reflexivity. Qed.

  Lemma list_sum_zero l : list_sum l = 0 <-> forall x, In x l -> x = 0.
  Proof.
    unfold list_sum. induction l as [|a l IH]; cbn [fold_right In]; [split; [intros _ ? []|reflexivity]|].
    split.
    - intros H x [<-|Hx]; [lia|]. apply IH; [lia|exact Hx].
    - intros H. rewrite (H a (or_introl eq_refl)). apply IH. intros x Hx. apply H. right; exact Hx.
  Qed.

  (* error 0 <=> every reference file has a byte-identical counterpart
     (a missing file counts wholly, i.e. by its length: only a missing EMPTY file adds nothing) *)
  Theorem exit_zero_iff bs ref other : 0 < bs ->
    exit_status eqb bs ref other = 0 <->
    forall p c, In (p, c) ref ->
      match other p with Some c' => c' = c | None => c = [] end.
  Proof.
    intros Hbs. unfold exit_status. rewrite bytes_dir_spec by exact Hbs. cbn [fst].
    destruct (list_sum _ =? 0) eqn:E.
    - apply Nat.eqb_eq in E. rewrite list_sum_zero in E. split; [|reflexivity]. intros _ p c Hin.
      specialize (E (fst (file_bytes other (p, c)))).
      assert (H0 : fst (file_bytes other (p, c)) = 0).
      { apply E. apply in_map_iff. exists (p, c). split; [reflexivity|exact Hin]. }
      unfold file_bytes in H0. cbn [fst snd] in H0. destruct (other p) as [c'|].
      + symmetry. apply diff_zero_iff. exact H0.
      + cbn in H0. destruct c; [reflexivity|discriminate].
    - apply Nat.eqb_neq in E. split; [discriminate|]. intros H. exfalso. apply E.
      apply list_sum_zero. intros x Hx. apply in_map_iff in Hx. destruct Hx as ([p c] & <- & Hin).
      specialize (H p c Hin). unfold file_bytes. cbn [fst snd]. destruct (other p) as [c'|].
      + apply diff_zero_iff. symmetry. exact H.
      + subst c. reflexivity.
  Qed.
End DiffP.
