(* FacadeP.v — the Reed-Solomon theory of RSP.v instantiated on the two GF(2^8) instances the
   codecs select, and the facade-level theorems (padding/shortening, per-call k, erasure index
   shift, check/encode/detect, uniqueness of any acceptable decoder answer). *)
From Coq Require Import List Arith Bool NArith Lia.
From Coq Require Import Strings.Byte.
From PFF Require Import Bytes GF256 RS Facade Proofs.GF256P Proofs.RSP.
Import ListNotations.

Lemma pow_bpow f x n : RS.pow byte x01 (bmul f) x n = bpow f x n.
Proof. induction n as [|n IH]; cbn [RS.pow bpow]; [reflexivity|]. rewrite IH. reflexivity. Qed.

Lemma F3_order : bpow F3 (gf_alpha F3) 255 = x01. Proof. vm_compute. reflexivity. Qed.
Lemma F4_order : bpow F4 (gf_alpha F4) 255 = x01. Proof. vm_compute. reflexivity. Qed.

(* all the generic hypotheses hold for the field of every codec *)
Record field_ok (f : gf) : Prop := {
  fo_ring : ring_theory x00 x01 badd (bmul f) badd (idf byte) (@eq byte);
  fo_integral : forall a b, bmul f a b = x00 -> a = x00 \/ b = x00;
  fo_order : RS.pow byte x01 (bmul f) (gf_alpha f) 255 = x01;
  fo_inj : forall i j, i < 255 -> j < 255 -> RS.pow byte x01 (bmul f) (gf_alpha f) i = RS.pow byte x01 (bmul f) (gf_alpha f) j -> i = j;
  fo_nz : forall i, i < 255 -> RS.pow byte x01 (bmul f) (gf_alpha f) i <> x00 }.

Lemma F3_field : field_ok F3.
Proof.
  constructor.
  - exact F3_ring.
  - exact F3_integral.
  - rewrite pow_bpow. exact F3_order.
  - intros i j Hi Hj. rewrite !pow_bpow. apply F3_alpha_inj; assumption.
  - intros i Hi. rewrite pow_bpow. apply F3_alpha_nz; assumption.
Qed.
Lemma F4_field : field_ok F4.
Proof.
  constructor.
  - exact F4_ring.
  - exact F4_integral.
  - rewrite pow_bpow. exact F4_order.
  - intros i j Hi Hj. rewrite !pow_bpow. apply F4_alpha_inj; assumption.
  - intros i Hi. rewrite pow_bpow. apply F4_alpha_nz; assumption.
Qed.
Lemma codec_field algo : field_ok (cd_f (codec_of algo)).
Proof. unfold codec_of. destruct (algo =? 4)%N; cbn [cd_f]; [exact F4_field|exact F3_field]. Qed.

Section Codec.
  Variable c : codec.
  Hypothesis OK : field_ok (cd_f c).
  Let f := cd_f c.
  Let fcr := cd_fcr c.
  Ltac ok := first [ exact (fo_ring (cd_f c) OK) | exact (fo_integral (cd_f c) OK) | exact byte_eqb_spec
                   | exact (fo_order (cd_f c) OK) | exact (fo_inj (cd_f c) OK) | exact (fo_nz (cd_f c) OK) ].

  Lemma cparity_length nsym m : length (cparity c nsym m) = nsym.
  Proof. unfold cparity. apply rs_parity_length; ok. Qed.
  Lemma cparity_valid nsym m : ccheck c nsym (m ++ cparity c nsym m) = true.
  Proof. unfold cparity, ccheck. apply parity_valid; ok. Qed.
  Lemma ccheck_detect nsym cw w : length w = length cw -> length cw <= 255 ->
    ccheck c nsym cw = true -> 1 <= RS.hdist byte byte_eqb w cw <= nsym -> ccheck c nsym w = false.
  Proof. unfold ccheck. intros H1 H2 H3 H4. apply (detect byte x00 x01 badd (bmul (cd_f c)) byte_eqb (gf_alpha (cd_f c))) with (c := cw); try ok; assumption. Qed.
  Lemma cparity_unique nsym m p : length m + nsym <= 255 -> length p = nsym ->
    ccheck c nsym (m ++ p) = true -> p = cparity c nsym m.
  Proof. unfold cparity, ccheck. intros H1 H2 H3. apply (parity_unique byte x00 x01 badd (bmul (cd_f c)) byte_eqb); try ok; assumption. Qed.
  Lemma cdecode_unique nsym r E c1 c2 : length r <= 255 ->
    ccheck c nsym c1 = true -> ccheck c nsym c2 = true ->
    RS.within byte byte_eqb nsym E r c1 = true -> RS.within byte byte_eqb nsym E r c2 = true -> c1 = c2.
  Proof. unfold ccheck. intros H1 H2 H3 H4 H5. apply (decode_unique byte x00 x01 badd (bmul (cd_f c)) byte_eqb (gf_alpha (cd_f c))) with (nsym := nsym) (fcr := cd_fcr c) (r := r) (E := E); try ok; assumption. Qed.
  Lemma ccheck_iff nsym w : ccheck c nsym w = true <->
    forall i, i < nsym -> RS.peval byte x00 badd (bmul f) w (RS.apow byte x01 (bmul f) (gf_alpha f) (i + fcr)) = x00.
  Proof. unfold ccheck. apply synd_all_zero; ok. Qed.
  Lemma pev_zeros_l z w x : RS.peval byte x00 badd (bmul f) (repeat x00 z ++ w) x = RS.peval byte x00 badd (bmul f) w x.
  Proof. apply peval_zeros_l with (one := x01); ok. Qed.
  Lemma ccheck_zeros_l nsym z w : ccheck c nsym (repeat x00 z ++ w) = ccheck c nsym w.
  Proof.
    destruct (ccheck c nsym w) eqn:E.
    - apply ccheck_iff. intros i Hi. rewrite pev_zeros_l. apply (proj1 (ccheck_iff nsym w) E i Hi).
    - destruct (ccheck c nsym (repeat x00 z ++ w)) eqn:E2; [|reflexivity].
      rewrite <- E. symmetry. apply ccheck_iff. intros i Hi.
      rewrite <- (pev_zeros_l z). apply (proj1 (ccheck_iff nsym _) E2 i Hi).
  Qed.

  (* ---- facade ---- *)
  Variables n selfk k : nat.
  Let k' := eff_k selfk k.

  Lemma lpad_length m : length m <= k' -> length (lpad k' m) = k'.
  Proof. intro H. unfold lpad. rewrite app_length, repeat_length. lia. Qed.
  Lemma lpad_full m : k' <= length m -> lpad k' m = m.
  Proof. intro H. unfold lpad. replace (k' - length m) with 0 by lia. reflexivity. Qed.
  Lemma rpad_length e : length e <= n - k' -> length (rpad (n - k') e) = n - k'.
  Proof. intro H. unfold rpad. rewrite app_length, repeat_length. lia. Qed.
  Lemma rpad_full e : n - k' <= length e -> rpad (n - k') e = e.
  Proof. intro H. unfold rpad. replace (n - k' - length e) with 0 by lia. apply app_nil_r. Qed.

  Theorem fac_encode_length m : length (fac_encode c n selfk k m) = n - k'.
  Proof. unfold fac_encode. apply cparity_length. Qed.

  Theorem fac_check_encode m : fac_check c n selfk k m (fac_encode c n selfk k m) = true.
  Proof.
    unfold fac_check. fold k'. rewrite rpad_full by (rewrite fac_encode_length; lia).
    unfold fac_encode. fold k'. apply cparity_valid.
  Qed.

  Lemma lpad_idem m : lpad k' (lpad k' m) = lpad k' m.
  Proof. unfold lpad at 1. replace (k' - length (lpad k' m)) with 0; [reflexivity|]. unfold lpad. rewrite app_length, repeat_length. lia. Qed.

  (* a short message behaves as its zero-left-padded version (shortened code), in encode and check *)
  Theorem fac_encode_pad m : fac_encode c n selfk k (lpad k' m) = fac_encode c n selfk k m.
  Proof. unfold fac_encode. fold k'. rewrite lpad_idem. reflexivity. Qed.
  Theorem fac_check_pad m e : fac_check c n selfk k (lpad k' m) e = fac_check c n selfk k m e.
  Proof. unfold fac_check. fold k'. rewrite lpad_idem. reflexivity. Qed.
  (* the zero padding does not take part in the check at all: checking the padded word is
     checking the unpadded word *)
  Theorem fac_check_unpadded m e : fac_check c n selfk k m e = ccheck c (n - k') (m ++ rpad (n - k') e).
  Proof. unfold fac_check. fold k'. unfold lpad. rewrite <- app_assoc. apply ccheck_zeros_l. Qed.

  (* detection: any word (m', e') at Hamming distance 1..n-k (after padding) from a valid codeword
     (m, fac_encode m) is rejected; distance 0 is accepted.  Covers truncated ecc (right-padded). *)
  Theorem fac_detect m m' e' : n <= 255 -> k' <= n -> length m <= k' -> length m' = length m -> length e' <= n - k' ->
    let d := RS.hdist byte byte_eqb (received n k' m' e') (received n k' m (fac_encode c n selfk k m)) in
    (1 <= d <= n - k' -> fac_check c n selfk k m' e' = false) /\ (d = 0 -> fac_check c n selfk k m' e' = true).
  Proof.
    intros Hn Hk Lm Lm' Le' d.
    assert (Lr' : length (received n k' m' e') = n).
    { unfold received. rewrite app_length, lpad_length, rpad_length by lia. lia. }
    assert (Lr : length (received n k' m (fac_encode c n selfk k m)) = n).
    { unfold received. rewrite app_length, lpad_length, rpad_length by (rewrite ?fac_encode_length; lia). lia. }
    assert (V : ccheck c (n - k') (received n k' m (fac_encode c n selfk k m)) = true).
    { exact (fac_check_encode m). }
    split.
    - intro Hd. unfold fac_check. fold k'. change (ccheck c (n - k') (received n k' m' e') = false).
      apply (ccheck_detect (n - k') (received n k' m (fac_encode c n selfk k m))); [rewrite Lr', Lr; reflexivity|rewrite Lr; exact Hn|exact V|exact Hd].
    - intro Hd. unfold fac_check. fold k'. change (ccheck c (n - k') (received n k' m' e') = true).
      assert (E : received n k' m' e' = received n k' m (fac_encode c n selfk k m)).
      { subst d. revert Hd. generalize (received n k' m' e') (received n k' m (fac_encode c n selfk k m)) Lr' Lr. clear.
        intros u v. revert v n. unfold RS.hdist. induction u as [|a u IH]; intros [|b v] n Lu Lv H; cbn [length] in *; try lia; [reflexivity|].
        cbn [combine filter fst snd] in H. destruct (byte_eqb_spec a b) as [->|N]; cbn [negb length] in H; [|lia].
        f_equal. apply (IH v (n - 1)); [lia|lia|exact H]. }
      rewrite E. exact V.
  Qed.

  (* uniqueness of the parity at facade level: every systematic encoder for this field/generator/fcr
     whose output passes the check produces exactly these bytes *)
  Theorem fac_parity_unique m p : n <= 255 -> k' <= n -> length m <= k' -> length p = n - k' ->
    fac_check c n selfk k m p = true -> p = fac_encode c n selfk k m.
  Proof.
    intros Hn Hk Lm Lp H. unfold fac_check in H. fold k' in H. rewrite rpad_full in H by lia.
    unfold fac_encode. fold k'. apply cparity_unique; [rewrite lpad_length by lia; lia|exact Lp|exact H].
  Qed.

  (* erasure positions: computed before padding and shifted by exactly the pad length; none of
     them points into the pad, and they are exactly the positions of the padded word outside
     the pad that hold the erasure symbol *)
  Lemma positions_from_shift ch : forall w i d, map (fun x => x + d) (positions_from i ch w) = positions_from (i + d) ch w.
  Proof.
    induction w as [|x w IH]; intros i d; cbn [positions_from map]; [reflexivity|].
    destruct (byte_eqb x ch); cbn [map]; rewrite IH; reflexivity.
  Qed.
  Lemma positions_from_ge ch : forall w i x, In x (positions_from i ch w) -> i <= x.
  Proof.
    induction w as [|y w IH]; intros i x H; cbn [positions_from] in H; [destruct H|].
    destruct (byte_eqb y ch); [destruct H as [<-|H]; [lia|]|]; apply IH in H; lia.
  Qed.
  Theorem pad_never_erased ch m e x : In x (fac_erasures k' ch m e) -> k' - length m <= x.
  Proof.
    unfold fac_erasures. rewrite positions_from_shift. intro H. apply positions_from_ge in H. lia.
  Qed.
  Lemma filter_all_id (A : Type) (p : A -> bool) : forall l, (forall x, In x l -> p x = true) -> filter p l = l.
  Proof.
    induction l as [|a l IH]; intro H; cbn [filter]; [reflexivity|].
    rewrite (H a (or_introl eq_refl)). f_equal. apply IH. intros x Hx. apply H. right. exact Hx.
  Qed.
  Theorem fac_erasures_spec ch m e :
    fac_erasures k' ch m e = filter (fun x => k' - length m <=? x) (positions_from 0 ch (lpad k' m ++ e)).
  Proof.
    unfold fac_erasures, lpad. rewrite positions_from_shift. cbn [Nat.add]. rewrite <- app_assoc.
    generalize (k' - length m) as z. generalize (m ++ e) as w. intros w z.
    assert (H : forall z i, filter (fun x => i + z <=? x) (positions_from i ch (repeat x00 z ++ w)) = positions_from (i + z) ch w).
    { clear z. induction z as [|z IH]; intro i; cbn [repeat app].
      - rewrite Nat.add_0_r. apply filter_all_id. intros x Hx. apply Nat.leb_le. apply positions_from_ge in Hx. exact Hx.
      - cbn [positions_from]. specialize (IH (S i)). replace (S i + z) with (i + S z) in IH by lia.
        destruct (byte_eqb x00 ch); [cbn [filter]; destruct (Nat.leb_spec (i + S z) i); [lia|]|]; exact IH. }
    specialize (H z 0). cbn [Nat.add] in H. symmetry. exact H.
  Qed.

  (* any acceptable decoder answer for a received word that is within capacity of an original
     (m0, parity) IS that original: message and parity *)
  Theorem fac_decode_unique erasures m e m0 m' e' : n <= 255 -> k' <= n -> length m0 <= k' -> length m = length m0 -> length e <= n - k' ->
    within_capacity c n selfk k erasures m e m0 = true ->
    decodes_to c n selfk k erasures m e m' e' = true ->
    m' = m0 /\ e' = fac_encode c n selfk k m0.
  Proof.
    intros Hn Hk Lm0 Lm Le W D. unfold decodes_to in D. fold k' in D.
    apply andb_prop in D. destruct D as [D D4]. apply andb_prop in D. destruct D as [D D3]. apply andb_prop in D. destruct D as [D1 D2].
    apply Nat.eqb_eq in D1, D2. unfold within_capacity in W. fold k' in W.
    assert (E : received n k' m' e' = received n k' m0 (fac_encode c n selfk k m0)).
    { apply (cdecode_unique (n - k') (received n k' m e) (erasure_set k' erasures m e)).
      - unfold received. rewrite app_length, lpad_length, rpad_length by lia. lia.
      - exact D3.
      - exact (fac_check_encode m0).
      - exact D4.
      - exact W. }
    unfold received in E. rewrite !rpad_full in E by (rewrite ?fac_encode_length; lia).
    assert (Lp : length (lpad k' m') = length (lpad k' m0)) by (rewrite !lpad_length by lia; reflexivity).
    assert (E1 : lpad k' m' = lpad k' m0 /\ e' = fac_encode c n selfk k m0).
    { revert E Lp. generalize (lpad k' m') (lpad k' m0). clear. induction l as [|a l IH]; intros [|b l0] E Lp; cbn [length] in Lp; try lia.
      - split; [reflexivity|exact E].
      - cbn [app] in E. injection E as Ea E. destruct (IH l0 E ltac:(lia)) as [I1 I2]. split; [f_equal; assumption|exact I2]. }
    destruct E1 as [E1 E2]. split; [|exact E2].
    unfold lpad in E1. replace (k' - length m') with (k' - length m0) in E1 by lia. apply app_inv_head in E1. exact E1.
  Qed.
End Codec.

(* a per-call k behaves exactly like a codec constructed with that k *)
Lemma eff_k_call selfk k : k <> 0 -> eff_k selfk k = eff_k k 0.
Proof. unfold eff_k. destruct (Nat.eqb_spec k 0); [contradiction|]. reflexivity. Qed.
Lemma eff_k_default selfk : eff_k selfk 0 = selfk.
Proof. reflexivity. Qed.
