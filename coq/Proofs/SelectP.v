(* Proofs/SelectP.v — correction restricted with an errors file (Select.v):
   (1) an empty list restricts nothing: the restricted run IS the run of Stream.v;
   (2) whatever the ecc file holds, a restricted run writes output only for listed paths;
   (3) on a generated ecc file whose files are each clean or repairable, the restricted run repairs every listed file that has to
       be repaired, writes nothing else, counts the listed entries only and exits 0. *)
From Coq Require Import List NArith ZArith Bool Lia Arith.
From Coq Require Import Strings.Byte.
From PFF Require Import Bytes Stream Select.
From PFF Require Import Proofs.StreamP Proofs.StreamRepair.
Import ListNotations.

Lemma flat_map_all {A B} (g : A -> B) (k : A -> bool) (l : list A) :
  (forall a, In a l -> k a = true) -> flat_map (fun a => if k a then [g a] else []) l = map g l.
Proof.
  induction l as [|a l IH]; intros H; [reflexivity|]. cbn [flat_map map].
  rewrite (H a (or_introl eq_refl)). cbn [app]. f_equal. apply IH. intros b Hb. apply H. right; exact Hb.
Qed.

Lemma flat_map_filter {A B} (g : A -> B) (k : A -> bool) (l : list A) :
  flat_map (fun a => if k a then [g a] else []) l = map g (filter k l).
Proof. induction l as [|a l IH]; [reflexivity|]. cbn [flat_map filter]. destruct (k a); cbn [app map]; rewrite IH; reflexivity. Qed.

Lemma flat_map_map {A B C} (h : A -> B) (g : B -> list C) (l : list A) : flat_map g (map h l) = flat_map (fun a => g (h a)) l.
Proof. induction l as [|a l IH]; [reflexivity|]. cbn [map flat_map]. rewrite IH. reflexivity. Qed.

Lemma flat_map_ext_in {A B} (g h : A -> list B) (l : list A) : (forall a, In a l -> g a = h a) -> flat_map g l = flat_map h l.
Proof.
  induction l as [|a l IH]; intros H; [reflexivity|]. cbn [flat_map]. rewrite (H a (or_introl eq_refl)). f_equal.
  apply IH. intros b Hb. apply H. right; exact Hb.
Qed.

Section SelectP.
  Variables marker delim : list byte.
  Variable ignore_size : bool.
  Variable look : list byte -> option (list byte).
  Variable intra : list byte -> list byte -> list byte.
  Variable blocksH : list byte -> Z -> list byte -> bres.
  Variable window : nat.
  Variable blocksW : list byte -> nat -> nat -> Z -> list byte -> bres * nat.

  (* ---------- (1) no list, no restriction ---------- *)
  Lemma kept_inactive f : kept intra [] f = true.
  Proof. unfold kept, active. destruct (py_int _); reflexivity. Qed.

  Theorem sel_inactive_h db :
    run_h_sel marker delim ignore_size look intra [] blocksH db = run_h marker delim ignore_size look intra blocksH db.
  Proof.
    unfold run_h_sel, results_h_sel, run_h. fold (results_h marker delim ignore_size look intra blocksH db).
    rewrite results_h_spec.
    rewrite (flat_map_all (fun se => entry_h delim ignore_size look intra blocksH (sub db (fst se) (snd se)))
                          (fun se => kept intra [] (get_fields delim (sub db (fst se) (snd se))))).
    - reflexivity.
    - intros a _. apply kept_inactive.
  Qed.

  Theorem sel_inactive_w db :
    run_w_sel marker delim ignore_size look intra [] window blocksW db = run_w marker delim ignore_size look intra window blocksW db.
  Proof.
    unfold run_w_sel, results_w_sel, run_w. fold (results_w marker delim ignore_size look intra window blocksW db).
    rewrite results_w_spec.
    rewrite (flat_map_all (fun se => fst (fst (entry_w delim ignore_size look intra window blocksW db (fst se) (snd se))))
                          (fun se => kept intra [] (get_fields delim (sub db (fst se) (fst se + window))))).
    - reflexivity.
    - intros a _. apply kept_inactive.
  Qed.

  (* ---------- (2) a restricted run writes for listed paths only (any ecc file) ---------- *)
  Variable L : list (list byte).
  Hypothesis L_ne : L <> [].

  Lemma active_true : active L = true.
  Proof. unfold active. destruct L; [contradiction|reflexivity]. Qed.

  Lemma meta_path_kept f path sz file :
    meta ignore_size look intra f = inr (path, sz, file) -> kept intra L f = true -> listed L path = true.
  Proof.
    unfold meta, kept. destruct (py_int _); [|discriminate]. rewrite active_true. cbn [negb orb].
    destruct (has_nul _); [discriminate|]. destruct (look _); [|discriminate]. destruct (_ && _); [discriminate|].
    intros H. inversion H; subst. intros K; exact K.
  Qed.

  Theorem sel_writes_only_listed_h db c outs ex :
    run_h_sel marker delim ignore_size look intra L blocksH db = Done c outs ex ->
    forall p b, In (p, b) outs -> listed L p = true.
  Proof.
    unfold run_h_sel. destruct (steps _ _) as [[c' o']|] eqn:E; [|discriminate]. cbn [finish]. intros H; inversion H; subst.
    intros p b Hin. destruct (steps_outputs _ _ _ _ _ E p b Hin) as [[]|[st Hr]].
    unfold results_h_sel in Hr. apply in_flat_map in Hr as (se & _ & Hr).
    cbn zeta in Hr. destruct (kept _ _ _) eqn:K; [|contradiction]. destruct Hr as [Hr|[]].
    unfold entry_h in Hr. destruct (meta _ _ _ _) as [w|[[path sz] file]] eqn:M; [discriminate|].
    inversion Hr; subst. exact (meta_path_kept _ _ _ _ M K).
  Qed.

  Theorem sel_writes_only_listed_w db c outs ex :
    run_w_sel marker delim ignore_size look intra L window blocksW db = Done c outs ex ->
    forall p b, In (p, b) outs -> listed L p = true.
  Proof.
    unfold run_w_sel. destruct (steps _ _) as [[c' o']|] eqn:E; [|discriminate]. cbn [finish]. intros H; inversion H; subst.
    intros p b Hin. destruct (steps_outputs _ _ _ _ _ E p b Hin) as [[]|[st Hr]].
    unfold results_w_sel in Hr. apply in_flat_map in Hr as (se & _ & Hr).
    destruct (kept _ _ _) eqn:K; [|contradiction]. destruct Hr as [Hr|[]].
    unfold entry_w in Hr. destruct (meta _ _ _ _) as [w|[[path sz] file]] eqn:M; [discriminate|].
    destruct (blocksW _ _ _ _ _) as [br cur]. cbn [fst] in Hr. inversion Hr; subst. exact (meta_path_kept _ _ _ _ M K).
  Qed.
End SelectP.

(* ---------- (3) generated ecc file, every file clean or repairable: the listed ones are repaired ---------- *)
Section SelectRepair.
  Variable T : list (list byte * list byte).
  Variable want : list byte * list byte -> list byte.
  Variable must : list byte * list byte -> Prop.
  Variables marker delim : list byte.
  Variable ignore_size : bool.
  Variable look : list byte -> option (list byte).
  Variable intra : list byte -> list byte -> list byte.
  Variable blocksH : list byte -> Z -> list byte -> bres.
  Variable enc : list byte -> list byte.
  Variable track : list byte -> list byte.
  Variable preamble : list byte.
  Variable dmg : list byte * list byte -> list byte.
  Variable L : list (list byte).

  Notation gen_entry := (gen_entry delim enc track).
  Notation db := (generate marker delim enc track preamble T).

  Hypothesis L_ne : L <> [].
  Hypothesis marker_ne : marker <> [].
  Hypothesis unambiguous_markers : clean_pieces marker (preamble :: map gen_entry T).
  Hypothesis unambiguous_fields : forall f, In f T ->
    prefixb delim (fst f ++ delim) = false /\ clean_mid delim (fst f) /\ clean_mid delim (size_of f) /\
    clean_mid delim (enc (fst f)) /\ clean_mid delim (enc (size_of f)).
  Hypothesis intra_roundtrip : forall f, In f T ->
    intra (fst f) (enc (fst f)) = fst f /\ intra (size_of f) (enc (size_of f)) = size_of f.
  Hypothesis int_roundtrip : forall f, In f T -> py_int (size_of f) = Some (zlen (snd f)).
  Hypothesis names_ok : forall f, In f T -> has_nul (fst f) = false.
  Hypothesis paths_distinct : NoDup (map fst T).
  Hypothesis tree_present : forall f, In f T -> look (fst f) = Some (dmg f).
  Hypothesis same_size : forall f, In f T -> length (dmg f) = length (snd f).
  Hypothesis blocksH_repairs : forall f, In f T ->
    (blocksH (track (snd f)) (zlen (snd f)) (dmg f) = BClean /\ ~ must f) \/
    blocksH (track (snd f)) (zlen (snd f)) (dmg f) = BCorrupt RFull (Some (want f)).

  Definition Tsel : list (list byte * list byte) := filter (fun f => listed L (fst f)) T.

  Lemma NoDup_map_filter {A B} (g : A -> B) (k : A -> bool) (l : list A) : NoDup (map g l) -> NoDup (map g (filter k l)).
  Proof.
    induction l as [|a l IH]; intros N; [constructor|]. cbn [map] in N. inversion N as [|? ? Na Nl]; subst. cbn [filter].
    destruct (k a); [|exact (IH Nl)]. cbn [map]. constructor; [|exact (IH Nl)].
    intros H. apply Na. apply in_map_iff in H as (x & Hx & Hin). apply in_map_iff. exists x. split; [exact Hx|].
    apply filter_In in Hin. tauto.
  Qed.

  Lemma kept_generated f : In f T -> kept intra L (get_fields delim (gen_entry f)) = listed L (fst f).
  Proof.
    intros H. destruct (unambiguous_fields f H) as (Hs & Hp & Hz & Hpe & Hze).
    unfold Stream.gen_entry. fold (size_of f). rewrite (get_fields_wf delim _ _ _ _ _ Hs Hp Hz Hpe Hze).
    unfold kept. cbn [f_path f_pecc f_size f_secc]. destruct (intra_roundtrip f H) as [-> ->]. rewrite (int_roundtrip f H).
    unfold active. destruct L; [contradiction|reflexivity].
  Qed.

  Lemma rel_generated f : In f T -> rel want must f (entry_h delim ignore_size look intra blocksH (gen_entry f)).
  Proof.
    intros H. destruct (unambiguous_fields f H) as (Hs & Hp & Hz & Hpe & Hze).
    unfold Stream.gen_entry. fold (size_of f).
    rewrite (entry_h_wf delim ignore_size look intra blocksH _ _ _ _ _ Hs Hp Hz Hpe Hze).
    rewrite (meta_dmg T ignore_size look intra enc dmg intra_roundtrip int_roundtrip names_ok tree_present same_size f H).
    unfold rel. destruct (blocksH_repairs f H) as [[-> NM] | ->]; [left; split; [reflexivity|exact NM]|right; reflexivity].
  Qed.

  (* the results of the restricted run: one per LISTED file, in the order of generation *)
  Lemma results_sel_generated :
    results_h_sel marker delim ignore_size look intra L blocksH db =
      map (fun f => entry_h delim ignore_size look intra blocksH (gen_entry f)) Tsel.
  Proof.
    unfold results_h_sel, generate. rewrite generate_join.
    rewrite (scan_join marker preamble _ marker_ne unambiguous_markers).
    set (D := join marker (preamble :: map gen_entry T)).
    rewrite <- (flat_map_map (fun se => sub D (fst se) (snd se))
                  (fun text => if kept intra L (get_fields delim text) then [entry_h delim ignore_size look intra blocksH text] else [])).
    unfold D. rewrite spans_contents, flat_map_map.
    rewrite (flat_map_ext_in _ (fun f => if listed L (fst f) then [entry_h delim ignore_size look intra blocksH (gen_entry f)] else [])).
    - unfold Tsel. apply (flat_map_filter (fun f => entry_h delim ignore_size look intra blocksH (gen_entry f)) (fun f => listed L (fst f))).
    - intros f Hf. rewrite (kept_generated f Hf). reflexivity.
  Qed.

  Theorem sel_repair_h : exists rs, Forall2 (rel want must) Tsel rs /\
    run_h_sel marker delim ignore_size look intra L blocksH db =
      Done (mkC (length Tsel) (n_full_of rs) (n_full_of rs) 0 0) (outs_of rs) 0.
  Proof.
    exists (map (fun f => entry_h delim ignore_size look intra blocksH (gen_entry f)) Tsel).
    assert (F : Forall2 (rel want must) Tsel (map (fun f => entry_h delim ignore_size look intra blocksH (gen_entry f)) Tsel)).
    { apply Forall2_by_nth; [rewrite map_length; reflexivity|].
      intros j a b Ha Hb. rewrite nth_error_map, Ha in Hb. cbn in Hb. inversion Hb; subst b.
      apply nth_error_In in Ha. unfold Tsel in Ha. apply filter_In in Ha as [Ha _]. exact (rel_generated a Ha). }
    split; [exact F|]. unfold run_h_sel. rewrite results_sel_generated.
    apply (run_of_rel Tsel want must); [|exact F]. unfold Tsel. apply NoDup_map_filter. exact paths_distinct.
  Qed.
End SelectRepair.

(* ---------- (3') the same for the whole-file tool ---------- *)
Lemma Forall2_filter_map {A B C} (R : A -> C -> Prop) (ka : A -> bool) (kb : B -> bool) (r : B -> C) :
  forall la lb, Forall2 (fun a b => kb b = ka a /\ R a (r b)) la lb -> Forall2 R (filter ka la) (map r (filter kb lb)).
Proof.
  induction 1 as [|a b la lb [K H] F IH]; [constructor|]. cbn [filter]. rewrite K.
  destruct (ka a); [cbn [map]; constructor; assumption|exact IH].
Qed.

Section SelectRepairW.
  Variable T : list (list byte * list byte).
  Variable want : list byte * list byte -> list byte.
  Variable must : list byte * list byte -> Prop.
  Variables marker delim : list byte.
  Variable ignore_size : bool.
  Variable look : list byte -> option (list byte).
  Variable intra : list byte -> list byte -> list byte.
  Variable window : nat.
  Variable blocksW : list byte -> nat -> nat -> Z -> list byte -> bres * nat.
  Variable enc : list byte -> list byte.
  Variable track : list byte -> list byte.
  Variable preamble : list byte.
  Variable dmg : list byte * list byte -> list byte.
  Variable L : list (list byte).

  Notation gen_entry := (gen_entry delim enc track).
  Notation db := (generate marker delim enc track preamble T).

  Hypothesis L_ne : L <> [].
  Hypothesis marker_ne : marker <> [].
  Hypothesis unambiguous_markers : clean_pieces marker (preamble :: map gen_entry T).
  Hypothesis unambiguous_fields : forall f, In f T ->
    prefixb delim (fst f ++ delim) = false /\ clean_mid delim (fst f) /\ clean_mid delim (size_of f) /\
    clean_mid delim (enc (fst f)) /\ clean_mid delim (enc (size_of f)).
  Hypothesis intra_roundtrip : forall f, In f T ->
    intra (fst f) (enc (fst f)) = fst f /\ intra (size_of f) (enc (size_of f)) = size_of f.
  Hypothesis int_roundtrip : forall f, In f T -> py_int (size_of f) = Some (zlen (snd f)).
  Hypothesis names_ok : forall f, In f T -> has_nul (fst f) = false.
  Hypothesis paths_distinct : NoDup (map fst T).
  Hypothesis tree_present : forall f, In f T -> look (fst f) = Some (dmg f).
  Hypothesis same_size : forall f, In f T -> length (dmg f) = length (snd f).
  Hypothesis meta_fits : forall f, In f T -> meta_len delim (fst f) (size_of f) (enc (fst f)) (enc (size_of f)) <= window.
  Hypothesis blocksW_repairs : forall f d t e, In f T -> sub d t e = track (snd f) -> e - t = length (track (snd f)) ->
    (fst (blocksW d t e (zlen (snd f)) (dmg f)) = BClean /\ ~ must f) \/
    fst (blocksW d t e (zlen (snd f)) (dmg f)) = BCorrupt RFull (Some (want f)).

  (* the fields read from the window at the start of a well-formed entry *)
  Lemma window_fields A R p z pe ze t :
    prefixb delim (p ++ delim) = false -> clean_mid delim p -> clean_mid delim z -> clean_mid delim pe -> clean_mid delim ze ->
    meta_len delim p z pe ze <= window ->
    let c := p ++ delim ++ z ++ delim ++ pe ++ delim ++ ze ++ delim ++ t in
    exists tr, get_fields delim (sub (A ++ c ++ R) (length A) (length A + window)) =
               mkFields p z pe ze (Z.of_nat (meta_len delim p z pe ze)) tr.
  Proof.
    intros Hs Hp Hz Hpe Hze Hw c. rewrite sub_at.
    set (M := p ++ delim ++ z ++ delim ++ pe ++ delim ++ ze ++ delim).
    assert (Ec : c = M ++ t) by (unfold c, M; rewrite <- !app_assoc; reflexivity).
    assert (LM : length M = meta_len delim p z pe ze) by reflexivity.
    assert (Ew : firstn window (c ++ R) = M ++ firstn (window - length M) (t ++ R)).
    { rewrite Ec, <- app_assoc, firstn_app, firstn_all2 by lia. reflexivity. }
    rewrite Ew. unfold M. rewrite <- !app_assoc.
    eexists. apply (get_fields_wf delim p z pe ze _ Hs Hp Hz Hpe Hze).
  Qed.

  Theorem sel_repair_w : exists rs, Forall2 (rel want must) (Tsel T L) rs /\
    run_w_sel marker delim ignore_size look intra L window blocksW db =
      Done (mkC (length (Tsel T L)) (n_full_of rs) (n_full_of rs) 0 0) (outs_of rs) 0.
  Proof.
    unfold run_w_sel, results_w_sel, generate. rewrite generate_join.
    rewrite (scan_join marker preamble _ marker_ne unambiguous_markers).
    set (D := join marker (preamble :: map gen_entry T)).
    set (S := spans marker (length preamble + length marker) (map gen_entry T)).
    set (k := fun se : nat * nat => kept intra L (get_fields delim (sub D (fst se) (fst se + window)))).
    set (r := fun se : nat * nat => fst (fst (entry_w delim ignore_size look intra window blocksW D (fst se) (snd se)))).
    rewrite (flat_map_ext_in _ (fun se => if k se then [r se] else []) S) by (intros; reflexivity).
    rewrite (flat_map_filter r k S).
    assert (F : Forall2 (rel want must) (Tsel T L) (map r (filter k S))).
    { unfold Tsel. apply (Forall2_filter_map (rel want must) (fun f => listed L (fst f)) k r).
      apply Forall2_by_nth; [unfold S; rewrite spans_length, map_length; reflexivity|].
      intros j a se Ha Hse.
      assert (Hc : nth_error (map gen_entry T) j = Some (gen_entry a)) by (rewrite nth_error_map, Ha; reflexivity).
      destruct (spans_decomp marker preamble _ j _ Hc) as (A & Rr & E & N). fold S in N. rewrite N in Hse.
      inversion Hse; subst se. clear Hse. unfold k, r. cbn [fst snd]. fold D in E. rewrite E.
      apply nth_error_In in Ha. destruct (unambiguous_fields a Ha) as (Hs & Hp & Hz & Hpe & Hze).
      unfold Stream.gen_entry. fold (size_of a). split.
      - destruct (window_fields A Rr _ _ _ _ (track (snd a)) Hs Hp Hz Hpe Hze (meta_fits a Ha)) as (tr & ->).
        unfold kept. cbn [f_path f_pecc f_size f_secc]. destruct (intra_roundtrip a Ha) as [-> ->]. rewrite (int_roundtrip a Ha).
        unfold active. destruct L; [contradiction|reflexivity].
      - destruct (entry_w_wf delim ignore_size look intra window blocksW A Rr _ _ _ _ (track (snd a)) Hs Hp Hz Hpe Hze (meta_fits a Ha)) as [E1 T1].
        rewrite E1. cbn [fst].
        rewrite (meta_dmg T ignore_size look intra enc dmg intra_roundtrip int_roundtrip names_ok tree_present same_size a Ha).
        unfold rel.
        assert (LE : length A + length (fst a ++ delim ++ size_of a ++ delim ++ enc (fst a) ++ delim ++ enc (size_of a) ++ delim ++ track (snd a))
                     - (length A + meta_len delim (fst a) (size_of a) (enc (fst a)) (enc (size_of a))) = length (track (snd a))).
        { unfold meta_len. rewrite !app_length. lia. }
        destruct (blocksW_repairs a _ _ _ Ha T1 LE) as [[-> NM] | ->]; [left; split; [reflexivity|exact NM]|right; reflexivity]. }
    exists (map r (filter k S)). split; [exact F|].
    apply (run_of_rel (Tsel T L) want must); [|exact F]. unfold Tsel. apply NoDup_map_filter. exact paths_distinct.
  Qed.
End SelectRepairW.
