(* LayoutP.v — proofs about the block-layout model (Layout.v), for an arbitrary size function. *)
From Coq Require Import List Arith Bool Lia.
From PFF Require Import Layout.
Import ListNotations.

Section LayoutP.
  Variable mu : nat -> nat.
  Variables mb hlen : nat.
  Hypothesis mu_pos : forall o, 1 <= mu o.

  Notation gen_blocks := (gen_blocks mu mb).
  Notation corr_blocks := (corr_blocks mu mb hlen).

  (* a chain of blocks tiling [cur, size) according to the rule *)
  Fixpoint chain (cur size : nat) (bl : list blk) : Prop :=
    match bl with
    | [] => size <= cur
    | (o, l, p) :: t =>
        o = cur /\ cur < size /\ l = Nat.min (mu cur) (size - cur) /\ 1 <= l /\ p = mb - mu cur
        /\ chain (cur + l) size t
    end.

  Lemma gen_blocks_chain fuel size cur :
    size - cur <= fuel -> chain cur size (gen_blocks fuel size cur).
  Proof.
    revert cur; induction fuel as [|f IH]; intros cur Hf; cbn [Layout.gen_blocks].
    - cbn. lia.
    - destruct (cur <? size) eqn:E; [apply Nat.ltb_lt in E|apply Nat.ltb_ge in E; cbn; lia].
      cbn [chain]. pose proof (mu_pos cur). repeat split; try lia. apply IH. lia.
  Qed.

  Theorem gen_chain size : chain 0 size (gen mu mb size).
  Proof. apply gen_blocks_chain. lia. Qed.

  Fixpoint mlen_sum (bl : list blk) : nat :=
    match bl with [] => 0 | b :: t => snd (fst b) + mlen_sum t end.

  Lemma chain_sum cur size bl : chain cur size bl -> cur <= size -> mlen_sum bl = size - cur.
  Proof.
    revert cur; induction bl as [|[[o l] p] t IH]; intros cur H Hle; cbn [chain mlen_sum fst snd] in *; [lia|].
    destruct H as (-> & Hlt & Hl & H1 & Hp & Hc). rewrite (IH _ Hc); lia.
  Qed.

  Definition inside (x : nat) (b : blk) : bool :=
    (fst (fst b) <=? x) && (x <? fst (fst b) + snd (fst b)).

  (* every offset of the region lies in exactly one block: no gap, no overlap *)
  Lemma chain_cover cur size bl x :
    chain cur size bl -> cur <= x < size -> length (filter (inside x) bl) = 1.
  Proof.
    revert cur; induction bl as [|[[o l] p] t IH]; intros cur H Hx; cbn [chain] in H; [lia|].
    destruct H as (-> & Hlt & Hl & H1 & Hp & Hc). cbn [filter]. unfold inside at 1. cbn [fst snd].
    destruct (x <? cur + l) eqn:E.
    - apply Nat.ltb_lt in E. replace (cur <=? x) with true by (symmetry; apply Nat.leb_le; lia).
      cbn [andb length]. f_equal.
      (* nothing later contains x: all later offsets are >= cur + l *)
      clear -Hc E. revert Hc E. generalize (cur + l) as c. induction t as [|[[o' l'] p'] t IHt]; intros c Hc Hxc; [reflexivity|].
      cbn [chain] in Hc. destruct Hc as (-> & _ & _ & _ & _ & Hc). cbn [filter]. unfold inside at 1. cbn [fst snd].
      replace (c <=? x) with false by (symmetry; apply Nat.leb_gt; lia). cbn [andb].
      apply (IHt (c + l')); [exact Hc|lia].
    - apply Nat.ltb_ge in E. rewrite andb_false_r. apply (IH (cur + l)); [exact Hc|lia].
  Qed.

  Lemma chain_nil_inside cur size bl x : chain cur size bl -> x < cur -> filter (inside x) bl = [].
  Proof.
    revert cur; induction bl as [|[[o l] p] t IH]; intros cur H Hx; [reflexivity|].
    cbn [chain] in H. destruct H as (-> & _ & _ & _ & _ & Hc). cbn [filter]. unfold inside at 1. cbn [fst snd].
    replace (cur <=? x) with false by (symmetry; apply Nat.leb_gt; lia). cbn [andb].
    apply (IH (cur + l)); [exact Hc|lia].
  Qed.

  Theorem gen_tiles size :
    mlen_sum (gen mu mb size) = size /\
    forall x, x < size -> length (filter (inside x) (gen mu mb size)) = 1.
  Proof.
    split.
    - rewrite (chain_sum 0 size _ (gen_chain size)); lia.
    - intros x Hx. apply (chain_cover 0 size); [apply gen_chain|lia].
  Qed.

  (* every block obeys the rule *)
  Lemma gen_blocks_rule fuel size cur o l p :
    In (o, l, p) (gen_blocks fuel size cur) ->
    o < size /\ l = Nat.min (mu o) (size - o) /\ 1 <= l /\ p = mb - mu o.
  Proof.
    revert cur; induction fuel as [|f IH]; intros cur Hin; cbn [Layout.gen_blocks] in Hin; [destruct Hin|].
    destruct (cur <? size) eqn:E; [apply Nat.ltb_lt in E|destruct Hin].
    destruct Hin as [[= <- <- <-]|Hin]; [|exact (IH _ Hin)].
    pose proof (mu_pos cur). repeat split; lia.
  Qed.

  Theorem gen_rule size o l p :
    In (o, l, p) (gen mu mb size) ->
    o < size /\ l = Nat.min (mu o) (size - o) /\ 1 <= l /\ p = mb - mu o.
  Proof. apply gen_blocks_rule. Qed.

  (* ---- correction side agrees with generation on the pristine file and exact track ---- *)
  Hypothesis track_pos : forall o, 1 <= hlen + (mb - mu o).

  Lemma corr_gen fuel size cur ecur etotal :
    size - cur <= fuel ->
    ecur + track_len hlen (gen_blocks fuel size cur) <= etotal ->
    corr_blocks (S fuel) size (ecur + track_len hlen (gen_blocks fuel size cur)) etotal cur ecur
    = gen_blocks fuel size cur.
  Proof.
    revert cur ecur; induction fuel as [|f IH]; intros cur ecur Hf Ht.
    - cbn [Layout.gen_blocks track_len fold_right Layout.corr_blocks].
      replace (ecur <? ecur + 0) with false by (symmetry; apply Nat.ltb_ge; lia). reflexivity.
    - cbn [Layout.gen_blocks] in *. destruct (cur <? size) eqn:E.
      + apply Nat.ltb_lt in E. cbn [track_len fold_right snd] in *.
        fold (track_len hlen (gen_blocks f size (cur + Nat.min (mu cur) (size - cur)))) in *.
        set (T := track_len hlen (gen_blocks f size (cur + Nat.min (mu cur) (size - cur)))) in *.
        pose proof (mu_pos cur) as Hm. pose proof (track_pos cur) as Hp.
        cbn [Layout.corr_blocks].
        replace (ecur <? ecur + (hlen + (mb - mu cur) + T)) with true by (symmetry; apply Nat.ltb_lt; lia).
        replace (Nat.min (mu cur) (size - cur) =? 0) with false by (symmetry; apply Nat.eqb_neq; lia).
        replace (Nat.min (hlen + (mb - mu cur)) (etotal - ecur)) with (hlen + (mb - mu cur)) by lia.
        replace (hlen + (mb - mu cur) - hlen) with (mb - mu cur) by lia.
        f_equal.
        replace (ecur + (hlen + (mb - mu cur) + T)) with (ecur + (hlen + (mb - mu cur)) + T) by lia.
        apply IH; lia.
      + cbn [track_len fold_right]. cbn [Layout.corr_blocks].
        replace (ecur <? ecur + 0) with false by (symmetry; apply Nat.ltb_ge; lia). reflexivity.
  Qed.

  Theorem corr_agrees size estart etotal :
    estart + track_len hlen (gen mu mb size) <= etotal ->
    corr mu mb hlen size estart (estart + track_len hlen (gen mu mb size)) etotal = gen mu mb size.
  Proof. intros H. unfold corr, gen in *. apply corr_gen; [lia|exact H]. Qed.

  Theorem track_len_app a b : track_len hlen (a ++ b) = track_len hlen a + track_len hlen b.
  Proof.
    unfold track_len. induction a as [|x a IH]; cbn [app fold_right]; [reflexivity|]. rewrite IH. lia.
  Qed.
End LayoutP.

(* ------------------------------------------------------------------ *)
(* header tool                                                         *)
(* ------------------------------------------------------------------ *)
Section Header.
  Variables ms mb hlen : nat.
  Hypothesis ms_pos : 1 <= ms.

  Lemma range_from_nil fuel cur n step : n <= cur -> range_from fuel cur n step = [].
  Proof. intros H. destruct fuel; cbn [range_from]; [reflexivity|]. replace (cur <? n) with false by (symmetry; apply Nat.ltb_ge; lia). reflexivity. Qed.

  Lemma gen_blocks_nil mu fuel size cur : size <= cur -> gen_blocks mu mb fuel size cur = [].
  Proof. intros H. destruct fuel; cbn [Layout.gen_blocks]; [reflexivity|]. replace (cur <? size) with false by (symmetry; apply Nat.ltb_ge; lia). reflexivity. Qed.

  Lemma hdr_gen_blocks fuel n cur :
    map (fun i => (i, Nat.min ms (n - i), mb - ms)) (range_from fuel cur n ms)
    = gen_blocks (fun _ => ms) mb fuel n cur.
  Proof.
    revert cur; induction fuel as [|f IH]; intros cur; cbn [range_from Layout.gen_blocks map]; [reflexivity|].
    destruct (cur <? n) eqn:E; [apply Nat.ltb_lt in E|reflexivity]. cbn [map]. f_equal.
    destruct (Nat.le_gt_cases ms (n - cur)) as [Hle|Hgt].
    - replace (Nat.min ms (n - cur)) with ms by lia. apply IH.
    - replace (Nat.min ms (n - cur)) with (n - cur) by lia.
      rewrite range_from_nil by lia. rewrite gen_blocks_nil by lia. reflexivity.
  Qed.

  Theorem hdr_gen_is_gen size hdr :
    hdr_gen ms mb size hdr = gen (fun _ => ms) mb (Nat.min size hdr).
  Proof. unfold hdr_gen, range0, gen. apply hdr_gen_blocks. Qed.

  (* range(0, k*w, w) = [0, w, ..., (k-1)w] *)
  Lemma range_from_mult w k fuel c : 1 <= w -> k * w <= fuel ->
    range_from fuel c (c + k * w) w = map (fun j => c + j * w) (seq 0 k).
  Proof.
    intros Hw. revert fuel c; induction k as [|k IH]; intros fuel c Hf.
    - cbn [seq map]. apply range_from_nil. lia.
    - destruct fuel as [|f]; [cbn in Hf; lia|]. cbn [range_from].
      replace (c <? c + S k * w) with true by (symmetry; apply Nat.ltb_lt; cbn; lia).
      cbn [seq map]. f_equal; [lia|].
      replace (c + S k * w) with ((c + w) + k * w) by (cbn; lia).
      rewrite IH by (cbn in Hf; lia). rewrite <- seq_shift, map_map.
      apply map_ext. intros j. cbn. lia.
  Qed.

  Lemma track_len_const (bl : list blk) es :
    (forall b, In b bl -> snd b = es) -> track_len hlen bl = length bl * (hlen + es).
  Proof.
    induction bl as [|b bl IH]; intros H; [reflexivity|]. cbn [track_len fold_right length].
    fold (track_len hlen bl). rewrite IH by (intros b' Hb'; apply H; right; exact Hb').
    rewrite (H b (or_introl eq_refl)). cbn. lia.
  Qed.

  Hypothesis track_pos : 1 <= hlen + (mb - ms).

  (* entry_assemble on the pristine file and the exact track is the generation partition *)
  Theorem hdr_corr_agrees size hdr :
    hdr_corr ms mb hlen size size hdr (track_len hlen (hdr_gen ms mb size hdr)) = hdr_gen ms mb size hdr.
  Proof.
    unfold hdr_corr.
    assert (Hn : Nat.min (if (0 <? size) && (size <? hdr) then size else hdr) size = Nat.min size hdr).
    { destruct (Nat.ltb_spec 0 size), (Nat.ltb_spec size hdr); cbn [andb]; lia. }
    rewrite Hn. set (n := Nat.min size hdr). set (es := mb - ms).
    assert (Ht : track_len hlen (hdr_gen ms mb size hdr) = length (range0 n ms) * (hlen + es)).
    { rewrite (track_len_const _ es).
      - unfold hdr_gen. rewrite map_length. reflexivity.
      - unfold hdr_gen. intros b Hb. apply in_map_iff in Hb. destruct Hb as (i & <- & _). reflexivity. }
    rewrite Ht. set (k := length (range0 n ms)). set (w := hlen + es).
    unfold range0 at 2. replace (k * w) with (0 + k * w) at 2 by lia.
    rewrite range_from_mult by (unfold w, es; lia). cbn [plus].
    unfold hdr_gen. fold n.
    (* combine l (map g (seq 0 (length l))) *)
    assert (Hgen : forall (l : list nat) s, 
      map (fun ij : nat * nat => (fst ij, Nat.min ms (n - fst ij), Nat.min es ((length l + s) * w - snd ij - hlen)))
          (combine l (map (fun j => j * w) (seq s (length l))))
      = map (fun i => (i, Nat.min ms (n - i), es)) l).
    { induction l as [|i l IH]; intros s; [reflexivity|]. cbn [length seq map combine fst snd]. f_equal.
      - f_equal. assert ((S (length l) + s) * w - s * w - hlen >= es); [|lia].
        replace ((S (length l) + s) * w) with (s * w + (length l * w + w)) by (cbn; lia). unfold w. lia.
      - replace (S (length l) + s) with (length l + S s) by lia. apply IH. }
    specialize (Hgen (range0 n ms) 0). rewrite Nat.add_0_r in Hgen. exact Hgen.
  Qed.
End Header.
