(* Proofs/TamperP.v — lemmas and invariants about the Tamper model, for every random stream. *)
From Coq Require Import List NArith ZArith QArith Bool Lia Arith.
From Coq Require Import Strings.Byte.
From PFF Require Import Bytes Tamper.
Import ListNotations.
Local Open Scope nat_scope.

(* ---------- lists ---------- *)
Lemma readn_spec : forall l n, readn n l = (firstn (N.to_nat n) l, skipn (N.to_nat n) l).
Proof.
  induction l as [|x t IH]; intros n; simpl.
  - destruct (N.to_nat n); reflexivity.
  - destruct (N.eqb_spec n 0) as [->|Hn]; [reflexivity|].
    rewrite IH, N2Nat.inj_pred.
    destruct (N.to_nat n) as [|k] eqn:E; [lia|]. reflexivity.
Qed.

Lemma skipn_add {A} : forall a b (l : list A), skipn (a + b) l = skipn b (skipn a l).
Proof.
  induction a as [|a IH]; intros b l; simpl; [reflexivity|].
  destruct l as [|x t]; [now rewrite skipn_nil|]. apply IH.
Qed.

Lemma combine_app_eq {A B} : forall (a a' : list A) (b b' : list B), length a = length b ->
  combine (a ++ a') (b ++ b') = combine a b ++ combine a' b'.
Proof.
  induction a as [|x a IH]; intros a' b b' H; destruct b as [|y b]; simpl in *; try discriminate; [reflexivity|].
  f_equal. apply IH. lia.
Qed.

Lemma differing_app : forall a a' b b', length a = length b ->
  differing (a ++ a') (b ++ b') = differing a b + differing a' b'.
Proof.
  intros a a' b b' H. unfold differing. rewrite (combine_app_eq a a' b b' H), filter_app, app_length. reflexivity.
Qed.

Lemma differing_refl : forall a, differing a a = 0.
Proof.
  unfold differing. induction a as [|x a IH]; simpl; [reflexivity|].
  destruct (byte_eqb_spec x x) as [_|N]; [exact IH|congruence].
Qed.

Lemma only_zeroed_app : forall a a' b b', length a = length b ->
  only_zeroed a b -> only_zeroed a' b' -> only_zeroed (a ++ a') (b ++ b').
Proof.
  intros a a' b b' H H1 H2. unfold only_zeroed in *. rewrite (combine_app_eq a a' b b' H).
  apply Forall_app. split; assumption.
Qed.

Lemma only_zeroed_refl : forall a, only_zeroed a a.
Proof. unfold only_zeroed. induction a as [|x a IH]; simpl; constructor; auto. Qed.

Lemma firstn_short {A} : forall n (l : list A), length (firstn n l) = n \/ skipn n l = [].
Proof.
  intros n l. destruct (le_lt_dec n (length l)) as [H|H].
  - left. apply firstn_length_le. exact H.
  - right. apply skipn_all2. lia.
Qed.

(* ---------- the scan of one block ---------- *)
Lemma count_true_le : forall m, count_true m <= length m.
Proof. induction m as [|[|] m IH]; simpl; lia. Qed.

Lemma scan_length : forall p burst n br rnd m r,
  scan p burst n br rnd = Ok (m, r) -> length m = n.
Proof.
  intros p burst. induction n as [|n IH]; intros br rnd m r H; simpl in H.
  - inversion H. reflexivity.
  - destruct (0 <? br)%Z.
    + destruct (scan p burst n (br - 1)%Z rnd) as [[m' r']|e] eqn:E; inversion H; subst. simpl. f_equal. eauto.
    + destruct (next_u rnd) as [[q r1]|e]; [|discriminate].
      destruct (Qltb q p).
      * destruct burst as [[lo hi]|].
        -- destruct (next_i lo hi r1) as [[z r2]|e]; [|discriminate].
           destruct (scan p (Some (lo, hi)) n (z - 1)%Z r2) as [[m' r']|e] eqn:E; inversion H; subst. simpl. f_equal. eauto.
        -- destruct (scan p None n br r1) as [[m' r']|e] eqn:E; inversion H; subst. simpl. f_equal. eauto.
      * destruct (scan p burst n br r1) as [[m' r']|e] eqn:E; inversion H; subst. simpl. f_equal. eauto.
Qed.

Lemma next_u_valid : forall rnd q r, next_u rnd = Ok (q, r) -> valid_u q = true.
Proof.
  intros [|[q'|z] t] q r H; simpl in H; try discriminate.
  destruct (valid_u q') eqn:E; inversion H; subst. exact E.
Qed.

Lemma Qltb_nonpos : forall q p, valid_u q = true -> (Qnum p <= 0)%Z -> Qltb q p = false.
Proof.
  intros q p Hq Hp. unfold valid_u in Hq. apply andb_prop in Hq. destruct Hq as [H0 _].
  apply Z.leb_le in H0. unfold Qltb. apply Z.ltb_ge.
  assert (0 < QDen p)%Z by reflexivity. assert (0 < QDen q)%Z by reflexivity.
  transitivity 0%Z.
  - apply Z.mul_nonpos_nonneg; lia.
  - apply Z.mul_nonneg_nonneg; lia.
Qed.

(* probability <= 0: nothing is ever selected (no burst can start either) *)
Lemma scan_p0 : forall p burst, (Qnum p <= 0)%Z -> forall n br rnd m r, (br <= 0)%Z ->
  scan p burst n br rnd = Ok (m, r) -> count_true m = 0.
Proof.
  intros p burst Hp. induction n as [|n IH]; intros br rnd m r Hbr H; simpl in H.
  - inversion H. reflexivity.
  - destruct (Z.ltb_spec 0 br) as [Hlt|_]; [lia|].
    destruct (next_u rnd) as [[q r1]|e] eqn:En; [|discriminate].
    rewrite (Qltb_nonpos q p (next_u_valid _ _ _ En) Hp) in H.
    destruct (scan p burst n br r1) as [[m' r']|e] eqn:E; inversion H; subst. simpl. eauto.
Qed.

(* ---------- rewriting the selected positions ---------- *)
Lemma am_spec : forall md buf m rnd o r, apply_mask md buf m rnd = Ok (o, r) ->
  length o = length buf /\ differing buf o <= count_true m /\
  (md = Erase -> only_zeroed buf o) /\ (count_true m = 0 -> o = buf /\ r = rnd).
Proof.
  intros md. induction buf as [|b buf IH]; intros m rnd o r H.
  - simpl in H. inversion H; subst. repeat split; try (unfold differing; simpl; lia). intros _. constructor.
  - destruct m as [|[|] m].
    + simpl in H. inversion H; subst. rewrite differing_refl. repeat split; try lia. intros _. apply only_zeroed_refl.
    + (* selected *)
      assert (Hgen : forall nb r0, apply_mask md buf m r0 = Ok (tl o, r) -> o = nb :: tl o ->
                (md = Erase -> nb = x00) ->
                length o = length (b :: buf) /\ differing (b :: buf) o <= count_true (true :: m) /\
                (md = Erase -> only_zeroed (b :: buf) o) /\ (count_true (true :: m) = 0 -> o = b :: buf /\ r = rnd)).
      { intros nb r0 H0 Ho Hz. destruct (IH _ _ _ _ H0) as (L & D & Z0 & _). rewrite Ho.
        split; [simpl; lia|]. split.
        - unfold differing in *. simpl. destruct (negb (byte_eqb b nb)); simpl; lia.
        - split; [|simpl; lia].
          intros E. constructor; [right; simpl; auto | apply (Z0 E)]. }
      simpl in H. destruct md.
      * destruct (apply_mask Erase buf m rnd) as [[o' r']|e] eqn:E; inversion H; subst.
        apply (Hgen x00 rnd); auto.
      * destruct (next_i 0 255 rnd) as [[z r1]|e]; [|discriminate].
        destruct (apply_mask Noise buf m r1) as [[o' r']|e] eqn:E; inversion H; subst.
        apply (Hgen (byte_of_Z z) r1); auto. discriminate.
      * destruct (apply_mask Other buf m rnd) as [[o' r']|e] eqn:E; inversion H; subst.
        apply (Hgen b rnd); auto. discriminate.
    + (* not selected *)
      simpl in H. destruct (apply_mask md buf m rnd) as [[o' r']|e] eqn:E; inversion H; subst.
      destruct (IH _ _ _ _ E) as (L & D & Z0 & N0).
      split; [simpl; lia|]. split.
      * unfold differing in *. simpl. destruct (byte_eqb_spec b b) as [_|N]; [simpl; exact D|congruence].
      * split.
        -- intros E1. constructor; [left; reflexivity | apply (Z0 E1)].
        -- simpl. intros C. destruct (N0 C) as [-> ->]. split; reflexivity.
Qed.

(* ---------- one block ---------- *)
Lemma do_block_spec : forall md p bp burst buf rnd o rc r,
  do_block md p bp burst buf rnd = Ok (o, rc, r) ->
  length o = length buf /\ b_len rc = length buf /\ b_cnt rc <= b_len rc /\
  differing buf o <= b_cnt rc /\ (md = Erase -> only_zeroed buf o) /\
  (b_sel rc = false -> o = buf /\ b_cnt rc = 0) /\
  ((Qnum p <= 0)%Z -> o = buf /\ b_cnt rc = 0).
Proof.
  intros md p bp burst buf rnd o rc r H. unfold do_block in H.
  assert (Hsel : forall r1, match scan p burst (length buf) 0%Z r1 with
            | Err e => Err e
            | Ok (m, r2) => match apply_mask md buf m r2 with
                            | Err e => Err e
                            | Ok (o, r3) => Ok (o, mkrec true (count_true m) (length buf), r3) end
            end = Ok (o, rc, r) ->
          length o = length buf /\ b_len rc = length buf /\ b_cnt rc <= b_len rc /\
          differing buf o <= b_cnt rc /\ (md = Erase -> only_zeroed buf o) /\
          (b_sel rc = false -> o = buf /\ b_cnt rc = 0) /\
          ((Qnum p <= 0)%Z -> o = buf /\ b_cnt rc = 0)).
  { intros r1 H1. destruct (scan p burst (length buf) 0%Z r1) as [[m r2]|e] eqn:Es; [|discriminate].
    destruct (apply_mask md buf m r2) as [[o' r3]|e] eqn:Ea; [|discriminate].
    inversion H1; subst. simpl.
    destruct (am_spec _ _ _ _ _ _ Ea) as (L & D & Z0 & N0).
    pose proof (scan_length _ _ _ _ _ _ _ Es) as Lm. pose proof (count_true_le m) as Cm.
    split; [exact L|]. split; [reflexivity|]. split; [lia|]. split; [exact D|]. split; [exact Z0|].
    split; [discriminate|].
    intros Hp. pose proof (scan_p0 p burst Hp _ _ _ _ _ (Z.le_refl 0) Es) as C0.
    split; [apply (N0 C0) | exact C0]. }
  destruct (block_prob bp) as [bq|].
  - destruct (next_u rnd) as [[q r1]|e]; [|discriminate].
    destruct (Qltb q bq).
    + apply (Hsel r1). exact H.
    + inversion H; subst. simpl. rewrite differing_refl.
      repeat split; try lia. intros _. apply only_zeroed_refl.
  - apply (Hsel rnd). exact H.
Qed.

(* ---------- the block loop ---------- *)
Lemma loop_nil : forall fuel md p bp burst hdr bs rnd o rcs r,
  loop fuel md p bp burst hdr bs [] rnd = Ok (o, rcs, r) -> o = [] /\ rcs = [] /\ r = rnd.
Proof.
  intros [|f] md p bp burst hdr bs rnd o rcs r H; simpl in H; [discriminate|].
  inversion H. auto.
Qed.

Lemma sum_cnt_cons : forall rc l, sum_cnt (rc :: l) = b_cnt rc + sum_cnt l.
Proof. reflexivity. Qed.
Lemma sum_len_cons : forall rc l, sum_len (rc :: l) = b_len rc + sum_len l.
Proof. reflexivity. Qed.

Lemma loop_spec : forall md p bp burst hdr bs fuel content rnd o rcs r,
  loop fuel md p bp burst hdr bs content rnd = Ok (o, rcs, r) ->
  length o = length content /\
  differing content o <= sum_cnt rcs /\ sum_cnt rcs <= sum_len rcs /\ sum_len rcs <= length content /\
  (hdr = true -> skipn (N.to_nat bs) o = skipn (N.to_nat bs) content /\ sum_len rcs <= N.to_nat bs) /\
  (md = Erase -> only_zeroed content o) /\
  ((Qnum p <= 0)%Z -> o = content /\ sum_cnt rcs = 0).
Proof.
  intros md p bp burst hdr bs. induction fuel as [|f IH]; intros content rnd o rcs r H; simpl in H; [discriminate|].
  rewrite readn_spec in H.
  pose proof (firstn_skipn (N.to_nat bs) content) as Hsplit.
  destruct (firstn (N.to_nat bs) content) as [|x buf'] eqn:Ebuf.
  - inversion H; subst. rewrite differing_refl. unfold sum_cnt, sum_len. simpl.
    repeat split; try lia; try reflexivity. intros _. apply only_zeroed_refl.
  - cbv beta iota in H. remember (x :: buf') as buf eqn:Hbufdef.
    remember (skipn (N.to_nat bs) content) as rest eqn:Hrestdef.
    destruct (do_block md p bp burst buf rnd) as [[[ob rc] r1]|e] eqn:Eb; [|discriminate].
    destruct (do_block_spec _ _ _ _ _ _ _ _ _ Eb) as (L & Ln & Cn & D & Z0 & _ & P0).
    assert (Lbuf : length buf <= N.to_nat bs).
    { rewrite <- Ebuf. rewrite firstn_length. lia. }
    assert (Lc : length content = length buf + length rest).
    { rewrite <- Hsplit at 1. apply app_length. }
    assert (Hsk : forall t t' : list byte, length t = length buf -> length t' = length rest ->
              skipn (N.to_nat bs) (t ++ t') = t').
    { intros t t' Ht Ht'. rewrite skipn_app. rewrite (skipn_all2 t) by lia. rewrite app_nil_l.
      destruct (firstn_short (N.to_nat bs) content) as [F|F].
      - rewrite Ebuf in F. rewrite Ht, F, Nat.sub_diag. reflexivity.
      - rewrite <- Hrestdef in F. rewrite F in Ht'. simpl in Ht'.
        destruct t' as [|y t']; [apply skipn_nil | simpl in Ht'; lia]. }
    destruct hdr.
    + injection H as <- <- <-. rewrite <- Hsplit.
      rewrite (differing_app buf rest ob rest (eq_sym L)), differing_refl.
      unfold sum_cnt, sum_len. simpl. rewrite !app_length.
      split; [lia|]. split; [lia|]. split; [lia|]. split; [lia|]. split.
      * intros _. split; [|lia]. apply (Hsk ob rest L eq_refl).
      * split.
        -- intros E. apply only_zeroed_app; [lia| apply (Z0 E) | apply only_zeroed_refl].
        -- intros Hp. destruct (P0 Hp) as [-> ->]. split; [reflexivity|lia].
    + destruct (loop f md p bp burst false bs rest r1) as [[[o' rcs'] r2]|e] eqn:El; [|discriminate].
      injection H as <- <- <-.
      destruct (IH _ _ _ _ _ El) as (L' & D' & C' & S' & _ & Z' & P').
      rewrite <- Hsplit. rewrite (differing_app buf rest ob o' (eq_sym L)).
      rewrite sum_cnt_cons, sum_len_cons, !app_length.
      split; [lia|]. split; [lia|]. split; [lia|]. split; [lia|]. split; [discriminate|]. split.
      * intros E. apply only_zeroed_app; [lia| apply (Z0 E) | apply (Z' E)].
      * intros Hp. destruct (P0 Hp) as [-> ->]. destruct (P' Hp) as [-> ->]. split; [reflexivity|lia].
Qed.

(* unselected blocks (block probability) are identical *)
Lemma loop_blocks : forall md p bp burst hdr bs fuel content rnd o rcs r,
  loop fuel md p bp burst hdr bs content rnd = Ok (o, rcs, r) ->
  forall k rc, nth_error rcs k = Some rc -> b_sel rc = false ->
  block (N.to_nat bs) k o = block (N.to_nat bs) k content /\ b_cnt rc = 0.
Proof.
  intros md p bp burst hdr bs. induction fuel as [|f IH]; intros content rnd o rcs r H; simpl in H; [discriminate|].
  rewrite readn_spec in H.
  pose proof (firstn_skipn (N.to_nat bs) content) as Hsplit.
  destruct (firstn (N.to_nat bs) content) as [|x buf'] eqn:Ebuf.
  - inversion H; subst. intros [|k] rc Hk; discriminate.
  - cbv beta iota in H. remember (x :: buf') as buf eqn:Hbufdef.
    remember (skipn (N.to_nat bs) content) as rest eqn:Hrestdef.
    destruct (do_block md p bp burst buf rnd) as [[[ob rc0] r1]|e] eqn:Eb; [|discriminate].
    destruct (do_block_spec _ _ _ _ _ _ _ _ _ Eb) as (L & _ & _ & _ & _ & S0 & _).
    assert (Hfull : length buf = N.to_nat bs \/ rest = []).
    { destruct (firstn_short (N.to_nat bs) content) as [F|F]; [left|right]; [rewrite Ebuf in F|rewrite <- Hrestdef in F]; exact F. }
    (* first block of t ++ t' when t is a full block or t' is empty *)
    assert (Hb0 : forall t t' : list byte, length t = length buf -> (rest = [] -> t' = []) ->
              block (N.to_nat bs) 0 (t ++ t') = t).
    { intros t t' Ht Hr. unfold block. simpl. rewrite firstn_app.
      destruct Hfull as [F|F].
      - rewrite firstn_all2 by lia. rewrite Ht, F, Nat.sub_diag. simpl. apply app_nil_r.
      - rewrite (Hr F), firstn_nil, app_nil_r. apply firstn_all2.
        assert (length buf <= N.to_nat bs) by (rewrite <- Ebuf, firstn_length; lia). lia. }
    assert (HbS : forall k (t t' : list byte), length t = N.to_nat bs ->
              block (N.to_nat bs) (S k) (t ++ t') = block (N.to_nat bs) k t').
    { intros k t t' Ht. unfold block. simpl. rewrite skipn_add, skipn_app.
      rewrite (skipn_all2 t) by lia. rewrite Ht, Nat.sub_diag. reflexivity. }
    destruct hdr.
    + injection H as <- <- <-. intros [|k] rc Hk Hs.
      * simpl in Hk. injection Hk as <-. destruct (S0 Hs) as [-> C0]. split; [|exact C0].
        rewrite <- Hsplit. reflexivity.
      * destruct k; discriminate.
    + destruct (loop f md p bp burst false bs rest r1) as [[[o' rcs'] r2]|e] eqn:El; [|discriminate].
      injection H as <- <- <-. intros [|k] rc Hk Hs.
      * simpl in Hk. injection Hk as <-. destruct (S0 Hs) as [-> C0]. split; [|exact C0].
        assert (Hr : rest = [] -> o' = []).
        { intros F. rewrite F in El. destruct (loop_nil _ _ _ _ _ _ _ _ _ _ _ El) as (-> & _). reflexivity. }
        rewrite <- Hsplit. rewrite (Hb0 buf o' eq_refl Hr). symmetry. apply (Hb0 buf rest eq_refl (fun e => e)).
      * simpl in Hk. destruct Hfull as [F|F].
        -- destruct (IH _ _ _ _ _ El k rc Hk Hs) as [B C]. split; [|exact C].
           rewrite <- Hsplit. rewrite (HbS k ob o') by lia. rewrite (HbS k buf rest F). exact B.
        -- rewrite F in El. destruct (loop_nil _ _ _ _ _ _ _ _ _ _ _ El) as (_ & -> & _).
           destruct k; discriminate.
Qed.

(* the fuel handed over by tamper_file is always enough *)
Lemma loop_fuel_enough : forall md p bp burst hdr bs fuel content rnd,
  length content < fuel -> loop fuel md p bp burst hdr bs content rnd <> Err OutOfFuel.
Proof.
  assert (Hnu : forall rnd, next_u rnd <> Err OutOfFuel).
  { intros [|[q|z] t]; simpl; try discriminate. destruct (valid_u q); discriminate. }
  assert (Hni : forall lo hi rnd, next_i lo hi rnd <> Err OutOfFuel).
  { intros lo hi rnd. unfold next_i. destruct (hi <? lo)%Z; [discriminate|].
    destruct rnd as [|[q|z] t]; try discriminate. destruct ((lo <=? z)%Z && (z <=? hi)%Z); discriminate. }
  assert (Hsc : forall p burst n br rnd, scan p burst n br rnd <> Err OutOfFuel).
  { intros p burst. induction n as [|n IHn]; intros br rnd; simpl; [discriminate|].
    destruct (0 <? br)%Z.
    - specialize (IHn (br - 1)%Z rnd). destruct (scan p burst n (br - 1)%Z rnd) as [[m r]|e]; congruence.
    - specialize (Hnu rnd). destruct (next_u rnd) as [[q r1]|e]; [|congruence].
      destruct (Qltb q p).
      + destruct burst as [[lo hi]|].
        * specialize (Hni lo hi r1). destruct (next_i lo hi r1) as [[z r2]|e]; [|congruence].
          specialize (IHn (z - 1)%Z r2). destruct (scan p (Some (lo, hi)) n (z - 1)%Z r2) as [[m r]|e]; congruence.
        * specialize (IHn br r1). destruct (scan p None n br r1) as [[m r]|e]; congruence.
      + specialize (IHn br r1). destruct (scan p burst n br r1) as [[m r]|e]; congruence. }
  assert (Ham : forall md buf m rnd, apply_mask md buf m rnd <> Err OutOfFuel).
  { intros md. induction buf as [|b buf IHb]; intros m rnd; simpl; [discriminate|].
    destruct m as [|[|] m]; [discriminate| |].
    - destruct md.
      + specialize (IHb m rnd). destruct (apply_mask Erase buf m rnd) as [[o r]|e]; congruence.
      + specialize (Hni 0%Z 255%Z rnd). destruct (next_i 0 255 rnd) as [[z r1]|e]; [|congruence].
        specialize (IHb m r1). destruct (apply_mask Noise buf m r1) as [[o r]|e]; congruence.
      + specialize (IHb m rnd). destruct (apply_mask Other buf m rnd) as [[o r]|e]; congruence.
    - specialize (IHb m rnd). destruct (apply_mask md buf m rnd) as [[o r]|e]; congruence. }
  assert (Hdb : forall md p bp burst buf rnd, do_block md p bp burst buf rnd <> Err OutOfFuel).
  { intros md p bp burst buf rnd. unfold do_block.
    assert (Hsel : forall r1, match scan p burst (length buf) 0%Z r1 with
            | Err e => Err e
            | Ok (m, r2) => match apply_mask md buf m r2 with
                            | Err e => Err e
                            | Ok (o, r3) => Ok (o, mkrec true (count_true m) (length buf), r3) end
            end <> Err OutOfFuel).
    { intros r1. specialize (Hsc p burst (length buf) 0%Z r1).
      destruct (scan p burst (length buf) 0%Z r1) as [[m r2]|e]; [|congruence].
      specialize (Ham md buf m r2). destruct (apply_mask md buf m r2) as [[o r3]|e]; congruence. }
    destruct (block_prob bp) as [bq|]; [|apply Hsel].
    specialize (Hnu rnd). destruct (next_u rnd) as [[q r1]|e]; [|congruence].
    destruct (Qltb q bq); [apply Hsel|discriminate]. }
  intros md p bp burst hdr bs. induction fuel as [|f IH]; intros content rnd Hf; [lia|]. simpl.
  rewrite readn_spec.
  pose proof (firstn_skipn (N.to_nat bs) content) as Hsplit.
  destruct (firstn (N.to_nat bs) content) as [|x buf'] eqn:Ebuf; [discriminate|].
  specialize (Hdb md p bp burst (x :: buf') rnd).
  destruct (do_block md p bp burst (x :: buf') rnd) as [[[ob rc] r1]|e]; [|congruence].
  destruct hdr; [discriminate|].
  assert (Hl : length (skipn (N.to_nat bs) content) < f).
  { rewrite <- Hsplit in Hf. rewrite app_length in Hf. simpl in Hf. lia. }
  specialize (IH _ r1 Hl).
  destruct (loop f md p bp burst false bs (skipn (N.to_nat bs) content) r1) as [[[o' rcs'] r2]|e]; congruence.
Qed.

(* ---------- tamper_file ---------- *)
Lemma tf_inv : forall md p bp burst h bs content rnd o c s r,
  tamper_file md p bp burst h bs content rnd = Ok (o, c, s, r) ->
  exists rcs, tamper_trace md p bp burst h bs content rnd = Ok (o, rcs, r) /\ c = sum_cnt rcs /\ s = sum_len rcs.
Proof.
  intros md p bp burst h bs content rnd o c s r H. unfold tamper_file in H.
  destruct (tamper_trace md p bp burst h bs content rnd) as [[[o' rcs] r']|e]; [|discriminate].
  injection H as <- <- <- <-. exists rcs. auto.
Qed.

Lemma tf_length : forall md p bp burst h bs content rnd o c s r,
  tamper_file md p bp burst h bs content rnd = Ok (o, c, s, r) -> length o = length content.
Proof.
  intros md p bp burst h bs content rnd o c s r H.
  destruct (tf_inv _ _ _ _ _ _ _ _ _ _ _ _ H) as (rcs & T & _ & _).
  apply (loop_spec _ _ _ _ _ _ _ _ _ _ _ _ T).
Qed.

Lemma tf_region : forall md p bp burst z bs content rnd o c s r, (0 < z)%Z ->
  tamper_file md p bp burst (Some z) bs content rnd = Ok (o, c, s, r) ->
  skipn (Z.to_nat z) o = skipn (Z.to_nat z) content.
Proof.
  intros md p bp burst z bs content rnd o c s r Hz H.
  destruct (tf_inv _ _ _ _ _ _ _ _ _ _ _ _ H) as (rcs & T & _ & _).
  unfold tamper_trace in T. destruct (loop_spec _ _ _ _ _ _ _ _ _ _ _ _ T) as (_ & _ & _ & _ & Hh & _).
  simpl in Hh. destruct (Z.ltb_spec 0 z) as [_|N]; [|lia].
  rewrite Z_N_nat in Hh. apply (Hh eq_refl).
Qed.

Lemma tf_blocks : forall md p bp burst h bs content rnd o rcs r,
  tamper_trace md p bp burst h bs content rnd = Ok (o, rcs, r) ->
  forall k rc, nth_error rcs k = Some rc -> b_sel rc = false ->
  block (bsize h bs) k o = block (bsize h bs) k content /\ b_cnt rc = 0.
Proof.
  intros md p bp burst h bs content rnd o rcs r T. unfold tamper_trace in T.
  exact (loop_blocks _ _ _ _ _ _ _ _ _ _ _ _ T).
Qed.

Lemma tf_erasure : forall p bp burst h bs content rnd o c s r,
  tamper_file Erase p bp burst h bs content rnd = Ok (o, c, s, r) -> only_zeroed content o.
Proof.
  intros p bp burst h bs content rnd o c s r H.
  destruct (tf_inv _ _ _ _ _ _ _ _ _ _ _ _ H) as (rcs & T & _ & _).
  destruct (loop_spec _ _ _ _ _ _ _ _ _ _ _ _ T) as (_ & _ & _ & _ & _ & Hz & _). apply Hz. reflexivity.
Qed.

Lemma tf_count : forall md p bp burst h bs content rnd o c s r,
  tamper_file md p bp burst h bs content rnd = Ok (o, c, s, r) ->
  differing content o <= c /\ c <= s /\ s <= region_size h (length content).
Proof.
  intros md p bp burst h bs content rnd o c s r H.
  destruct (tf_inv _ _ _ _ _ _ _ _ _ _ _ _ H) as (rcs & T & -> & ->).
  unfold tamper_trace in T.
  destruct (loop_spec _ _ _ _ _ _ _ _ _ _ _ _ T) as (_ & D & C & S & Hh & _).
  split; [exact D|]. split; [exact C|].
  unfold region_size. destruct h as [z|]; [|exact S]. simpl in Hh.
  destruct (0 <? z)%Z; [|exact S].
  destruct (Hh eq_refl) as [_ B]. rewrite Z_N_nat in B. lia.
Qed.

Lemma tf_p0 : forall md p bp burst h bs content rnd o c s r, (Qnum p <= 0)%Z ->
  tamper_file md p bp burst h bs content rnd = Ok (o, c, s, r) -> o = content /\ c = 0.
Proof.
  intros md p bp burst h bs content rnd o c s r Hp H.
  destruct (tf_inv _ _ _ _ _ _ _ _ _ _ _ _ H) as (rcs & T & -> & _).
  destruct (loop_spec _ _ _ _ _ _ _ _ _ _ _ _ T) as (_ & _ & _ & _ & _ & _ & P0). apply (P0 Hp).
Qed.

Lemma tf_fuel : forall md p bp burst h bs content rnd,
  tamper_file md p bp burst h bs content rnd <> Err OutOfFuel.
Proof.
  intros md p bp burst h bs content rnd. unfold tamper_file, tamper_trace.
  pose proof (loop_fuel_enough md p bp burst (hdr_active h) (eff_bs h bs) (S (length content)) content rnd
                (Nat.lt_succ_diag_r _)) as F.
  destruct (loop (S (length content)) md p bp burst (hdr_active h) (eff_bs h bs) content rnd) as [[[o rcs] r]|e];
    [discriminate|congruence].
Qed.

(* ---------- tamper_dir ---------- *)
Definition o_bytes (x : list byte * nat * nat) : list byte := fst (fst x).
Definition o_cnt (x : list byte * nat * nat) : nat := snd (fst x).
Definition o_size (x : list byte * nat * nat) : nat := snd x.

Lemma dir_spec : forall md bp burst h bs fs rnd cs ft fc tc ts r',
  tamper_dir md bp burst h bs fs rnd = Ok (cs, (ft, fc, tc, ts), r') ->
  exists outs, dir_chain md bp burst h bs fs rnd outs r' /\
    cs = map o_bytes outs /\
    ft = length (filter (fun x => 0 <? o_cnt x) outs) /\
    fc = length fs /\
    tc = list_sum (map o_cnt outs) /\
    ts = list_sum (map o_size outs).
Proof.
  intros md bp burst h bs. induction fs as [|[p c] fs IH]; intros rnd cs ft fc tc ts r' H; simpl in H.
  - injection H as <- <- <- <- <- <-. exists []. repeat split. constructor.
  - destruct (tamper_file md p bp burst h bs c rnd) as [[[[c' cnt] sz] r1]|e] eqn:Ef; [|discriminate].
    destruct (tamper_dir md bp burst h bs fs r1) as [[[cs0 [[[ft0 fc0] tc0] ts0]] r2]|e] eqn:Ed; [|discriminate].
    injection H as <- <- <- <- <- <-.
    destruct (IH _ _ _ _ _ _ _ Ed) as (outs & Hc & -> & -> & -> & -> & ->).
    exists ((c', cnt, sz) :: outs). split; [econstructor; eassumption|].
    split; [reflexivity|]. split.
    + simpl. change (o_cnt (c', cnt, sz)) with cnt. destruct (0 <? cnt); reflexivity.
    + repeat split.
Qed.

Lemma dir_chain_complete : forall md bp burst h bs fs rnd outs r',
  dir_chain md bp burst h bs fs rnd outs r' ->
  tamper_dir md bp burst h bs fs rnd
  = Ok (map o_bytes outs, (length (filter (fun x => 0 <? o_cnt x) outs), length fs,
                           list_sum (map o_cnt outs), list_sum (map o_size outs)), r').
Proof.
  intros md bp burst h bs fs rnd outs r' C. induction C as [r|p c fs r c' cnt sz r1 outs r2 Hf C IH]; simpl.
  - reflexivity.
  - rewrite Hf, IH. change (o_cnt (c', cnt, sz)) with cnt. destruct (0 <? cnt); reflexivity.
Qed.

Lemma dir_chain_length : forall md bp burst h bs fs rnd outs r',
  dir_chain md bp burst h bs fs rnd outs r' -> length outs = length fs.
Proof. intros md bp burst h bs fs rnd outs r' C. induction C; simpl; congruence. Qed.

(* every file of a directory run enjoys the single-file guarantees; here: its length *)
Lemma dir_lengths : forall md bp burst h bs fs rnd outs r',
  dir_chain md bp burst h bs fs rnd outs r' ->
  map (fun x => length (o_bytes x)) outs = map (fun f => length (snd f)) fs.
Proof.
  intros md bp burst h bs fs rnd outs r' C. induction C as [r|p c fs r c' cnt sz r1 outs r2 Hf C IH]; simpl.
  - reflexivity.
  - f_equal; [|exact IH]. apply (tf_length _ _ _ _ _ _ _ _ _ _ _ _ Hf).
Qed.

Lemma dir_single : forall md bp burst h bs p c rnd,
  tamper_dir md bp burst h bs [(p, c)] rnd =
  match tamper_file md p bp burst h bs c rnd with
  | Err e => Err e
  | Ok (c', cnt, sz, r) => Ok ([c'], ((if 0 <? cnt then 1 else 0), 1, cnt, sz), r)
  end.
Proof.
  intros md bp burst h bs p c rnd. simpl.
  destruct (tamper_file md p bp burst h bs c rnd) as [[[[c' cnt] sz] r]|e]; [|reflexivity].
  rewrite !Nat.add_0_r. reflexivity.
Qed.

Lemma main_single : forall md bp burst h bs p c rnd,
  main_dir md bp burst h bs [(p, c)] rnd =
  match main_file md p bp burst h bs c rnd with
  | Err e => Err e
  | Ok (c', RFile cnt sz, r) => Ok ([c'], RDir (if 0 <? cnt then 1 else 0) 1 cnt sz, r)
  | Ok (_, RDir _ _ _ _, _) => Err OutOfFuel
  end.
Proof.
  intros md bp burst h bs p c rnd. unfold main_dir, main_file. rewrite dir_single.
  destruct (tamper_file md p bp burst h bs c rnd) as [[[[c' cnt] sz] r]|e]; reflexivity.
Qed.

(* offsets: the two vocabulary predicates read pointwise *)
Lemma only_zeroed_nth : forall a b, only_zeroed a b -> forall i x y,
  nth_error a i = Some x -> nth_error b i = Some y -> y = x \/ y = x00.
Proof.
  unfold only_zeroed. induction a as [|x0 a IH]; intros b H i x y Ha Hb.
  - destruct i; discriminate.
  - destruct b as [|y0 b]; [destruct i; discriminate|]. simpl in H. inversion H as [|? ? H1 H2]; subst.
    destruct i as [|i]; simpl in Ha, Hb.
    + injection Ha as <-. injection Hb as <-. exact H1.
    + apply (IH b H2 i x y Ha Hb).
Qed.

Lemma nth_error_skipn_add {A} : forall n (l : list A) j, nth_error (skipn n l) j = nth_error l (n + j).
Proof.
  induction n as [|n IH]; intros l j; simpl; [reflexivity|].
  destruct l as [|x l]; [destruct j; reflexivity|]. apply IH.
Qed.

Lemma skipn_eq_nth {A} : forall n (a b : list A), skipn n a = skipn n b ->
  forall i, n <= i -> nth_error a i = nth_error b i.
Proof.
  intros n a b H i Hi. replace i with (n + (i - n)) by lia.
  rewrite <- !nth_error_skipn_add. rewrite H. reflexivity.
Qed.

Lemma Qle_nonpos_num : forall p : Q, (p <= 0)%Q <-> (Qnum p <= 0)%Z.
Proof. intros p. unfold Qle. simpl. lia. Qed.
