(* MergeP.v — proofs about Merge.v.
   merge_correct: the alignment loop of synchronize_files, run on strictly sorted walks,
   processes the sorted union of the paths, each once, with exactly the folders holding it. *)
From Coq Require Import List Arith Bool Sorted Permutation Lia.
From PFF Require Import Walk Merge Proofs.WalkP.
Import ListNotations.

(* ---------- indices selected from an enumerated list ---------- *)
Section Select.
  Context {T : Type}.
  Definition select (f : T -> bool) (k : nat) (l : list T) : list nat :=
    map fst (filter (fun e => f (snd e)) (combine (seq k (length l)) l)).

  Lemma select_cons f k x l :
    select f k (x :: l) = (if f x then [k] else []) ++ select f (S k) l.
  Proof. unfold select. simpl. destruct (f x); reflexivity. Qed.

  Lemma select_In f l : forall k i,
    In i (select f k l) <-> exists x, nth_error l (i - k) = Some x /\ k <= i /\ f x = true.
  Proof.
    induction l as [|x t IH]; intros k i.
    - unfold select. simpl. split; [intros []|]. intros (x & H & _). destruct (i - k); discriminate.
    - rewrite select_cons, in_app_iff, IH. split.
      + intros [H|(y & H1 & H2 & H3)].
        * destruct (f x) eqn:E; [|destruct H]. destruct H as [<-|[]].
          exists x. rewrite Nat.sub_diag. auto.
        * exists y. replace (i - k) with (S (i - S k)) by lia. simpl. repeat split; [exact H1|lia|exact H3].
      + intros (y & H1 & H2 & H3). destruct (Nat.eq_dec i k) as [->|N].
        * left. rewrite Nat.sub_diag in H1. simpl in H1. inversion H1; subst. rewrite H3. left. reflexivity.
        * right. exists y. replace (i - k) with (S (i - S k)) in H1 by lia. simpl in H1.
          repeat split; [exact H1|lia|exact H3].
  Qed.

  Lemma select_sorted f l : forall k, StronglySorted lt (select f k l) /\ Forall (fun i => k <= i) (select f k l).
  Proof.
    induction l as [|x t IH]; intros k.
    - unfold select. simpl. split; constructor.
    - rewrite select_cons. destruct (IH (S k)) as [S1 F1].
      assert (F2 : Forall (fun i => k <= i) (select f (S k) t)).
      { rewrite Forall_forall in *. intros i Hi. specialize (F1 i Hi). lia. }
      assert (F3 : Forall (lt k) (select f (S k) t)).
      { rewrite Forall_forall in *. intros i Hi. specialize (F1 i Hi). lia. }
      destruct (f x); simpl.
      + split; constructor; auto.
      + split; assumption.
  Qed.

  Lemma select_ext f g l : forall k,
    (forall x, In x l -> f x = g x) -> select f k l = select g k l.
  Proof.
    induction l as [|x t IH]; intros k H; [reflexivity|].
    rewrite !select_cons. rewrite (H x (or_introl eq_refl)). f_equal.
    apply IH. intros y Hy. apply H. right. exact Hy.
  Qed.

End Select.

Lemma select_map {T U} (g : U -> T) (f : T -> bool) (l : list U) : forall k,
  select f k (map g l) = select (fun u => f (g u)) k l.
Proof.
  induction l as [|x t IH]; intros k; [reflexivity|].
  simpl map. rewrite !select_cons. f_equal. apply IH.
Qed.

Lemma filter_nil_all {T} (f : T -> bool) l : (forall x, In x l -> f x = false) -> filter f l = [].
Proof.
  induction l as [|h t IH]; intros H; [reflexivity|]. simpl.
  rewrite (H h (or_introl eq_refl)). apply IH. intros x Hx. apply H. right. exact Hx.
Qed.

Lemma filter_len_le {T} (f : T -> bool) l : length (filter f l) <= length l.
Proof. induction l as [|h t IH]; simpl; [lia|]. destruct (f h); simpl; lia. Qed.

Lemma NoDup_map_eq {T U} (g : T -> U) l a b :
  NoDup (map g l) -> In a l -> In b l -> g a = g b -> a = b.
Proof.
  induction l as [|h t IH]; intros N Ha Hb E; [destruct Ha|].
  simpl in N. inversion N as [|? ? Nh Nt]; subst.
  destruct Ha as [<-|Ha], Hb as [<-|Hb]; try reflexivity.
  - exfalso. apply Nh. rewrite E. apply in_map. exact Hb.
  - exfalso. apply Nh. rewrite <- E. apply in_map. exact Ha.
  - apply IH; assumption.
Qed.

(* ------------------------------------------------------------------------------------------ *)
Section MergeP.
  Context {P K : Type} (key : P -> K) (klt : K -> K -> bool) (eqb : P -> P -> bool) (dom : P -> Prop).
  Context (KST : strict_total klt)
          (key_inj : forall x y, dom x -> dom y -> key x = key y -> x = y)
          (eqb_spec : forall x y, reflect (x = y) (eqb x y)).

  Notation item := (@item P).
  Notation rep := (@rep P).
  Notation state := (@state P).
  Notation oltb := (oltb klt).
  Notation okey := (okey key).

  Definition plt (p q : P) : Prop := klt (key p) (key q) = true.

  Lemma eqb_refl x : eqb x x = true.
  Proof. destruct (eqb_spec x x); congruence. Qed.
  Lemma eqb_sym x y : eqb x y = eqb y x.
  Proof. destruct (eqb_spec x y), (eqb_spec y x); congruence. Qed.

  Lemma plt_irrefl x : ~ plt x x.
  Proof. unfold plt. rewrite (st_irrefl klt KST). discriminate. Qed.

  Lemma oltb_strict_total : strict_total oltb.
  Proof.
    constructor.
    - intros [x|]; simpl; [apply (st_irrefl klt KST)|reflexivity].
    - intros [x|] [y|] [z|]; simpl; try congruence. apply (st_trans klt KST).
    - intros [x|] [y|]; simpl; try congruence. intros H1 H2. f_equal. apply (st_total klt KST); assumption.
  Qed.

  (* ---- sort_group's first group ---- *)
  Definition sel (m : P) (o : option P) : bool :=
    match o with Some p => eqb p m | None => false end.

  Lemma drop_none_spec (l : list item) :
    (exists i p, In (i, Some p) l) ->
    exists pre i0 m t, l = pre ++ (i0, Some m) :: t /\ Forall (fun e => snd e = None) pre /\
                       drop_none l = (i0, Some m) :: t.
  Proof.
    induction l as [|[j [q|]] r IH]; intros (i & p & H).
    - destruct H.
    - exists [], j, q, r. repeat split. constructor.
    - destruct H as [H|H]; [discriminate|].
      destruct IH as (pre & i0 & m & t & E & F & D); [eauto|].
      exists ((j, None) :: pre), i0, m, t. simpl. rewrite E. repeat split; [constructor; [reflexivity|exact F]|].
      rewrite <- E. exact D.
  Qed.

  Lemma take_group_select m (l : list item) :
    dom m ->
    StronglySorted (kle okey oltb) l ->
    (forall j q, In (j, Some q) l -> dom q /\ klt (key q) (key m) = false) ->
    map fst (take_group eqb m l) = map fst (filter (fun e => sel m (snd e)) l).
  Proof.
    intros Dm. induction l as [|[j [q|]] r IH]; intros S H; simpl; [reflexivity| |].
    - inversion S as [|? ? S' F]; subst. destruct (eqb_spec q m) as [->|N].
      + simpl. f_equal. apply IH; [exact S'|]. intros j' q' Hin. apply (H j'). right. exact Hin.
      + simpl. symmetry. rewrite filter_nil_all; [reflexivity|].
        intros [j' [q'|]] Hin; simpl; [|reflexivity].
        destruct (eqb_spec q' m) as [->|]; [|reflexivity]. exfalso.
        rewrite Forall_forall in F. specialize (F _ Hin). unfold kle, okey in F. simpl in F.
        destruct (H j q (or_introl eq_refl)) as [Dq Hq].
        apply N. apply key_inj; [exact Dq|exact Dm|]. apply (st_total klt KST); assumption.
    - inversion S as [|? ? S' F]; subst. apply IH; [exact S'|].
      intros j' q' Hin. apply (H j'). right. exact Hin.
  Qed.

  Lemma sorted_app_tail {T} (R : T -> T -> Prop) pre x t :
    StronglySorted R (pre ++ x :: t) -> StronglySorted R (x :: t).
  Proof.
    induction pre as [|h r IH]; simpl; intros S; [exact S|]. inversion S; subst. apply IH. assumption.
  Qed.

  (* first_group = the items whose path is the smallest pending one, in index order *)
  Lemma first_group_spec (d : list item) :
    (exists i p, In (i, Some p) d) ->
    (forall i p, In (i, Some p) d -> dom p) ->
    exists i0 m g, first_group key klt eqb d = Some ((i0, m) :: g) /\
      (exists i, In (i, Some m) d) /\
      (forall j q, In (j, Some q) d -> klt (key q) (key m) = false) /\
      map fst ((i0, m) :: g) = map fst (filter (fun e => sel m (snd e)) d).
  Proof.
    intros Hex Hdom.
    pose proof (sort_by_perm okey oltb d) as Hp.
    pose proof (sort_by_sorted okey oltb oltb_strict_total d) as Hs.
    fold (sort_items key klt d) in Hp, Hs.
    destruct (drop_none_spec (sort_items key klt d)) as (pre & i0 & m & t & E & Fp & D).
    { destruct Hex as (i & p & H). exists i, p. apply (Permutation_in (l := d)); [symmetry; exact Hp|exact H]. }
    assert (Hin : forall e, In e d <-> In e (pre ++ (i0, Some m) :: t)).
    { intros e. rewrite <- E. split; apply Permutation_in; [symmetry|]; exact Hp. }
    assert (Hm : In (i0, Some m) d) by (apply Hin, in_or_app; right; left; reflexivity).
    assert (St : StronglySorted (kle okey oltb) ((i0, Some m) :: t)).
    { rewrite E in Hs. exact (sorted_app_tail _ _ _ _ Hs). }
    assert (Hmin : forall j q, In (j, Some q) d -> klt (key q) (key m) = false).
    { intros j q H. apply Hin in H. apply in_app_or in H. destruct H as [H|[H|H]].
      - rewrite Forall_forall in Fp. specialize (Fp _ H). discriminate.
      - inversion H; subst. apply (st_irrefl klt KST).
      - pose proof (StronglySorted_In_tail _ _ _ _ St H) as Hk. exact Hk. }
    exists i0, m, (take_group eqb m t). unfold first_group. rewrite D.
    split; [reflexivity|]. split; [eauto|]. split; [exact Hmin|].
    (* stability *)
    assert (Hst : filter (fun e : nat * option P => sel m (snd e)) (sort_items key klt d)
                  = filter (fun e : nat * option P => sel m (snd e)) d).
    { apply (sort_by_filter okey oltb).
      intros [ia [a|]] [ib [b|]]; simpl; try discriminate.
      destruct (eqb_spec a m) as [->|]; [|discriminate]. destruct (eqb_spec b m) as [->|]; [|discriminate].
      intros _ _. apply (st_irrefl klt KST). }
    rewrite <- Hst.
    rewrite E. rewrite filter_app.
    rewrite (filter_nil_all _ pre).
    2:{ intros e He. rewrite Forall_forall in Fp. rewrite (Fp e He). reflexivity. }
    simpl. rewrite eqb_refl. simpl. f_equal.
    apply take_group_select.
    - apply (Hdom i0). exact Hm.
    - inversion St; assumption.
    - intros j q H. split.
      + apply (Hdom j). apply Hin, in_or_app. right. right. exact H.
      + apply (Hmin j). apply Hin, in_or_app. right. right. exact H.
  Qed.

  (* ---- the state ---- *)
  Definition pending (r : rep) : list P :=
    match cur r with Some p => p :: rest r | None => [] end.

  Definition rep_ok (r : rep) : Prop :=
    match cur r with Some _ => exh r = false | None => exh r = true /\ rest r = [] end.

  Definition state_ok (st : state) : Prop :=
    Forall rep_ok (reps st) /\ cnt st = count_true (map (@exh P) (reps st)).

  Definition drop_head (m : P) (l : list P) : list P :=
    match l with x :: t => if eqb x m then t else l | [] => [] end.

  Definition adv (m : P) (r : rep) : rep := if sel m (cur r) then fst (advance r) else r.

  Lemma adv_pending m r : rep_ok r -> pending (adv m r) = drop_head m (pending r).
  Proof.
    unfold adv, pending, rep_ok, drop_head. destruct r as [[p|] rs e]; simpl; [|reflexivity].
    intros ->. destruct (eqb p m); [|reflexivity]. unfold advance. simpl.
    destruct rs; reflexivity.
  Qed.

  Lemma adv_ok m r : rep_ok r -> rep_ok (adv m r).
  Proof.
    unfold adv, rep_ok. destruct r as [[p|] rs e]; simpl; [|exact (fun H => H)].
    intros ->. destruct (eqb p m); [|reflexivity]. unfold advance. simpl.
    destruct rs; simpl; auto.
  Qed.

  Lemma count_true_app a b : count_true (a ++ b) = count_true a + count_true b.
  Proof. unfold count_true. rewrite filter_app, app_length. reflexivity. Qed.

  Lemma upd_app_here (pre : list rep) r r' t :
    upd (length pre) (fun _ => r') (pre ++ r :: t) = pre ++ r' :: t.
  Proof. induction pre as [|h p IH]; simpl; [reflexivity|]. rewrite IH. reflexivity. Qed.

  Lemma nth_error_app_here (pre : list rep) r t : nth_error (pre ++ r :: t) (length pre) = Some r.
  Proof. induction pre; simpl; auto. Qed.

  (* the update loop over the folders of the group advances exactly those folders *)
  Lemma fold_advance m (rs : list rep) : forall (pre : list rep) c,
    exists c',
      fold_left advance_at (select (sel m) (length pre) (map (@cur P) rs)) (mkst (pre ++ rs) c)
      = mkst (pre ++ map (adv m) rs) c' /\
      (c = count_true (map (@exh P) (pre ++ rs)) -> c' = count_true (map (@exh P) (pre ++ map (adv m) rs))).
  Proof.
    induction rs as [|r t IH]; intros pre c.
    - exists c. simpl. split; [reflexivity|exact (fun H => H)].
    - simpl map. rewrite select_cons. unfold adv at 1 3. destruct (sel m (cur r)) eqn:Sr.
      + simpl app at 1. simpl fold_left. unfold advance_at at 2. simpl reps.
        rewrite nth_error_app_here. destruct (advance r) as [r' inc] eqn:A. simpl cnt.
        rewrite upd_app_here. simpl fst.
        destruct (IH (pre ++ [r']) (if inc then S c else c)) as (c' & E & Hc).
        rewrite app_length in E. simpl in E. rewrite Nat.add_1_r in E.
        rewrite <- !app_assoc in E. simpl in E.
        exists c'. split; [exact E|].
        intros Hc0. rewrite <- !app_assoc in Hc. simpl in Hc. apply Hc. subst c.
        rewrite !map_app, !count_true_app. simpl map.
        change (exh r' :: map (@exh P) t) with ([exh r'] ++ map (@exh P) t).
        change (exh r :: map (@exh P) t) with ([exh r] ++ map (@exh P) t).
        rewrite !count_true_app.
        unfold advance in A. destruct (exh r) eqn:Er.
        * inversion A; subst. rewrite Er. reflexivity.
        * destruct (rest r); inversion A; subst; simpl; unfold count_true; simpl; lia.
      + simpl app at 1.
        destruct (IH (pre ++ [r]) c) as (c' & E & Hc).
        rewrite app_length in E. simpl in E. rewrite Nat.add_1_r in E.
        rewrite <- !app_assoc in E. simpl in E.
        exists c'. split; [exact E|]. rewrite <- !app_assoc in Hc. simpl in Hc. exact Hc.
  Qed.

  Definition total_len' (L : list (list P)) : nat := total_len L.

  Lemma count_lt_exists (rs : list rep) :
    Forall rep_ok rs -> count_true (map (@exh P) rs) < length rs -> exists r p, In r rs /\ cur r = Some p.
  Proof.
    induction rs as [|r t IH]; intros F H; simpl in *; [lia|].
    inversion F as [|? ? Fr Ft]; subst.
    destruct (cur r) as [p|] eqn:C; [exists r, p; auto|].
    unfold rep_ok in Fr. rewrite C in Fr. destruct Fr as [Er _].
    unfold count_true in *. simpl in H. rewrite Er in H. simpl in H.
    destruct IH as (r' & p & Hin & Hc); [exact Ft|lia|]. exists r', p. auto.
  Qed.

  Lemma count_ge_none (rs : list rep) :
    Forall rep_ok rs -> ~ count_true (map (@exh P) rs) < length rs -> Forall (fun r => pending r = []) rs.
  Proof.
    induction rs as [|r t IH]; intros F H; [constructor|].
    inversion F as [|? ? Fr Ft]; subst.
    assert (Hle : count_true (map (@exh P) t) <= length t).
    { unfold count_true. rewrite <- (map_length (@exh P) t). apply filter_len_le. }
    unfold count_true in *. simpl in H. unfold rep_ok in Fr.
    destruct (cur r) as [p|] eqn:C.
    - rewrite Fr in H. simpl in H. lia.
    - destruct Fr as [Er _]. rewrite Er in H. simpl in H.
      constructor; [unfold pending; rewrite C; reflexivity|]. apply IH; [exact Ft|]. lia.
  Qed.

  Lemma in_combine_seq {T} (l : list T) : forall k i x, In (i, x) (combine (seq k (length l)) l) -> In x l.
  Proof. intros k i x H. apply in_combine_r in H. exact H. Qed.

  Lemma in_combine_seq_ex {T} (l : list T) : forall k x, In x l -> exists i, In (i, x) (combine (seq k (length l)) l).
  Proof.
    induction l as [|h t IH]; intros k x H; [destruct H|]. simpl. destruct H as [->|H].
    - exists k. left. reflexivity.
    - destruct (IH (S k) x H) as (i & Hi). exists i. right. exact Hi.
  Qed.

  (* one iteration of the while loop *)
  Lemma step_spec (st : state) :
    state_ok st ->
    Forall (Forall dom) (map pending (reps st)) ->
    cnt st < length (reps st) ->
    exists m st',
      step key klt eqb st = Some ((m, select (sel m) 0 (map (@cur P) (reps st))), st') /\
      (exists r, In r (reps st) /\ cur r = Some m) /\
      (forall r q, In r (reps st) -> cur r = Some q -> klt (key q) (key m) = false) /\
      reps st' = map (adv m) (reps st) /\ state_ok st'.
  Proof.
    intros [Fok Hc] Fdom Hlt. rewrite Hc in Hlt.
    destruct (count_lt_exists _ Fok Hlt) as (r0 & p0 & Hr0 & Hp0).
    set (d := combine (seq 0 (length (reps st))) (map (@cur P) (reps st))).
    assert (Hd : forall i o, In (i, o) d -> exists r, In r (reps st) /\ cur r = o).
    { intros i o H. unfold d in H. rewrite <- (map_length (@cur P)) in H.
      apply in_combine_seq in H. apply in_map_iff in H. destruct H as (r & <- & Hr). eauto. }
    destruct (first_group_spec d) as (i0 & m & g & Efg & (im & Him) & Hmin & Hsel).
    { destruct (in_combine_seq_ex (map (@cur P) (reps st)) 0 (Some p0)) as (i & Hi).
      - apply in_map_iff. exists r0. auto.
      - exists i, p0. unfold d. rewrite <- (map_length (@cur P)). exact Hi. }
    { intros i p H. destruct (Hd _ _ H) as (r & Hr & Hcur).
      rewrite Forall_forall in Fdom. specialize (Fdom (pending r) (in_map _ _ _ Hr)).
      unfold pending in Fdom. rewrite Hcur in Fdom. inversion Fdom; assumption. }
    destruct (fold_advance m (reps st) [] (cnt st)) as (c' & Efold & Hc').
    simpl in Efold, Hc'.
    exists m, (mkst (map (adv m) (reps st)) c').
    split.
    - unfold step. fold d. rewrite Efg. f_equal. f_equal.
      + f_equal. rewrite Hsel. unfold select, d. rewrite map_length. reflexivity.
      + rewrite Hsel. replace (map fst (filter (fun e => sel m (snd e)) d))
          with (select (sel m) 0 (map (@cur P) (reps st))).
        * destruct st as [rs c]. simpl in *. exact Efold.
        * unfold select, d. rewrite map_length. reflexivity.
    - split.
      { destruct (Hd _ _ Him) as (r & Hr & Hcur). eauto. }
      split.
      { intros r q Hr Hq. destruct (in_combine_seq_ex (map (@cur P) (reps st)) 0 (Some q)) as (i & Hi).
        - apply in_map_iff. exists r. auto.
        - apply (Hmin i). unfold d. rewrite <- (map_length (@cur P)). exact Hi. }
      split; [reflexivity|].
      split; simpl.
      + rewrite Forall_forall in *. intros r Hr. apply in_map_iff in Hr. destruct Hr as (r' & <- & Hr').
        apply adv_ok. apply Fok. exact Hr'.
      + apply Hc'. exact Hc.
  Qed.

  (* ---- the whole loop, in terms of the pending lists ---- *)
  Definition mem (p : P) (w : list P) : bool := existsb (eqb p) w.
  Definition holders (p : P) (L : list (list P)) : list nat := select (mem p) 0 L.

  Lemma mem_In p w : mem p w = true <-> In p w.
  Proof.
    unfold mem. rewrite existsb_exists. split.
    - intros (x & Hx & E). destruct (eqb_spec p x); [subst; exact Hx|discriminate].
    - intros H. exists p. split; [exact H|apply eqb_refl].
  Qed.

  Lemma drop_head_incl m l x : In x (drop_head m l) -> In x l.
  Proof. destruct l as [|h t]; simpl; [auto|]. destruct (eqb h m); [right; assumption|auto]. Qed.

  Lemma drop_head_keeps m l x : In x l -> x <> m -> In x (drop_head m l).
  Proof.
    destruct l as [|h t]; simpl; [auto|]. intros [->|H] N.
    - destruct (eqb_spec x m); [contradiction|left; reflexivity].
    - destruct (eqb h m); [exact H|right; exact H].
  Qed.

  Lemma drop_head_len m l : length (drop_head m l) <= length l.
  Proof. destruct l as [|h t]; simpl; [lia|]. destruct (eqb h m); simpl; lia. Qed.

  Lemma total_len_drop m L : total_len (map (drop_head m) L) <= total_len L.
  Proof.
    induction L as [|l t IH]; simpl; [lia|]. pose proof (drop_head_len m l). lia.
  Qed.

  Lemma total_len_drop_lt m L t0 : In (m :: t0) L -> total_len (map (drop_head m) L) < total_len L.
  Proof.
    induction L as [|l t IH]; intros H; [destruct H|]. simpl. destruct H as [->|H].
    - simpl. rewrite eqb_refl. pose proof (total_len_drop m t). lia.
    - specialize (IH H). pose proof (drop_head_len m l). lia.
  Qed.

  Lemma sorted_drop_head m l : StronglySorted plt l -> StronglySorted plt (drop_head m l).
  Proof.
    destruct l as [|h t]; simpl; [auto|]. intros S. destruct (eqb h m); [inversion S; assumption|exact S].
  Qed.

  Lemma dom_drop_head m l : Forall dom l -> Forall dom (drop_head m l).
  Proof.
    destruct l as [|h t]; simpl; [auto|]. intros S. destruct (eqb h m); [inversion S; assumption|exact S].
  Qed.

  (* every path left after removing the smallest head m is greater than m *)
  Lemma drop_head_gt m l x :
    dom m -> Forall dom l -> StronglySorted plt l ->
    (forall h t, l = h :: t -> klt (key h) (key m) = false) ->
    In x (drop_head m l) -> plt m x.
  Proof.
    intros Dm Dl S Hmin. destruct l as [|h t]; simpl; [intros []|].
    specialize (Hmin h t eq_refl). inversion S as [|? ? S' F]; subst. rewrite Forall_forall in F.
    destruct (eqb_spec h m) as [->|N].
    - intros H. apply F. exact H.
    - assert (Hm : plt m h).
      { unfold plt. apply (st_neq_lt klt KST); [|exact Hmin]. intros E. apply N.
        inversion Dl; subst. apply key_inj; auto. }
      intros [<-|H]; [exact Hm|]. unfold plt in *. exact (st_trans klt KST _ _ _ Hm (F x H)).
  Qed.

  Lemma mem_drop_head m p l : p <> m -> mem p (drop_head m l) = mem p l.
  Proof.
    intros N. destruct l as [|h t]; simpl; [reflexivity|]. destruct (eqb_spec h m) as [->|]; [|reflexivity].
    simpl. destruct (eqb_spec p m); [contradiction|reflexivity].
  Qed.

  Lemma run_spec : forall fuel (st : state),
    state_ok st ->
    Forall (StronglySorted plt) (map pending (reps st)) ->
    Forall (Forall dom) (map pending (reps st)) ->
    total_len (map pending (reps st)) < fuel ->
    exists rows, run key klt eqb fuel st = (rows, Done) /\
      length rows <= total_len (map pending (reps st)) /\
      StronglySorted plt (map fst rows) /\
      (forall p, In p (map fst rows) <-> exists w, In w (map pending (reps st)) /\ In p w) /\
      (forall p hs, In (p, hs) rows -> hs = holders p (map pending (reps st))).
  Proof.
    induction fuel as [|f IH]; intros st Hok Hs Hd Hf; [lia|].
    simpl. destruct (cnt st <? length (reps st)) eqn:Hc.
    - apply Nat.ltb_lt in Hc.
      destruct (step_spec st Hok Hd Hc) as (m & st' & Estep & (rm & Hrm & Hcm) & Hmin & Hreps & Hok').
      rewrite Estep.
      set (L := map pending (reps st)) in *.
      assert (HL' : map pending (reps st') = map (drop_head m) L).
      { rewrite Hreps. unfold L. rewrite !map_map. apply map_ext_in. intros r Hr.
        apply adv_pending. destruct Hok as [Fok _]. rewrite Forall_forall in Fok. apply Fok. exact Hr. }
      assert (HmL : In (m :: rest rm) L).
      { unfold L. apply in_map_iff. exists rm. split; [|exact Hrm]. unfold pending. rewrite Hcm. reflexivity. }
      assert (Dm : dom m).
      { rewrite Forall_forall in Hd. specialize (Hd _ HmL). inversion Hd; assumption. }
      assert (HminL : forall l, In l L -> forall h t, l = h :: t -> klt (key h) (key m) = false).
      { intros l Hl h t ->. unfold L in Hl. apply in_map_iff in Hl. destruct Hl as (r & E & Hr).
        unfold pending in E. destruct (cur r) as [q|] eqn:Cq; [|discriminate]. inversion E; subst.
        exact (Hmin r h Hr Cq). }
      destruct (IH st' Hok') as (rows' & Erun & Hlen & Hsorted & Hmem & Hhold).
      { rewrite HL'. rewrite Forall_forall in *. intros l Hl. apply in_map_iff in Hl.
        destruct Hl as (l0 & <- & Hl0). apply sorted_drop_head. apply Hs. exact Hl0. }
      { rewrite HL'. rewrite Forall_forall in *. intros l Hl. apply in_map_iff in Hl.
        destruct Hl as (l0 & <- & Hl0). apply dom_drop_head. apply Hd. exact Hl0. }
      { rewrite HL'. pose proof (total_len_drop_lt m L _ HmL). lia. }
      rewrite Erun. eexists. split; [reflexivity|].
      assert (Hgt : forall p, In p (map fst rows') -> plt m p).
      { intros p Hp. apply Hmem in Hp. destruct Hp as (w & Hw & Hpw). rewrite HL' in Hw.
        apply in_map_iff in Hw. destruct Hw as (l0 & <- & Hl0).
        rewrite Forall_forall in Hs, Hd.
        apply (drop_head_gt m l0 p Dm (Hd _ Hl0) (Hs _ Hl0) (HminL _ Hl0) Hpw). }
      split; [|split; [|split]].
      + simpl. rewrite HL' in Hlen. pose proof (total_len_drop_lt m L _ HmL). lia.
      + simpl. constructor; [exact Hsorted|]. rewrite Forall_forall. exact Hgt.
      + intros p. simpl. split.
        * intros [<-|Hp].
          -- exists (m :: rest rm). split; [exact HmL|left; reflexivity].
          -- apply Hmem in Hp. destruct Hp as (w & Hw & Hpw). rewrite HL' in Hw.
             apply in_map_iff in Hw. destruct Hw as (l0 & <- & Hl0).
             exists l0. split; [exact Hl0|]. exact (drop_head_incl _ _ _ Hpw).
        * intros (w & Hw & Hpw). destruct (eqb_spec m p) as [->|N]; [left; reflexivity|].
          right. apply Hmem. exists (drop_head m w). split.
          -- rewrite HL'. apply in_map. exact Hw.
          -- apply drop_head_keeps; [exact Hpw|]. intros E. apply N. symmetry. exact E.
      + intros p hs [E|Hin].
        * inversion E; subst. unfold holders, L. rewrite !select_map.
          apply select_ext. intros r Hr. unfold sel, pending.
          destruct (cur r) as [q|] eqn:Cq; [|reflexivity]. simpl.
          rewrite (eqb_sym p q). destruct (eqb_spec q p) as [->|N]; [reflexivity|]. simpl.
          symmetry. apply not_true_is_false. intros Hm'. apply mem_In in Hm'.
          (* p in the tail of a sorted list whose head is not below p: impossible *)
          assert (Hl : In (q :: rest r) L).
          { unfold L. apply in_map_iff. exists r. split; [|exact Hr]. unfold pending. rewrite Cq. reflexivity. }
          rewrite Forall_forall in Hs. specialize (Hs _ Hl). inversion Hs as [|? ? _ F]; subst.
          rewrite Forall_forall in F. specialize (F p Hm'). unfold plt in F.
          pose proof (Hmin r q Hr Cq) as Hq. rewrite F in Hq. discriminate.
        * rewrite (Hhold p hs Hin). rewrite HL'. unfold holders. rewrite select_map.
          apply select_ext. intros l _. apply mem_drop_head.
          intros ->. apply (plt_irrefl m). apply Hgt. apply in_map_iff. exists (m, hs). auto.
    - apply Nat.ltb_ge in Hc. destruct Hok as [Fok Hcnt]. rewrite Hcnt in Hc.
      assert (Hnone : Forall (fun r => pending r = []) (reps st)) by (apply count_ge_none; [exact Fok|lia]).
      exists []. split; [reflexivity|]. split; [simpl; lia|]. split; [constructor|]. split.
      + intros p. simpl. split; [intros []|]. intros (w & Hw & Hp). apply in_map_iff in Hw.
        destruct Hw as (r & <- & Hr). rewrite Forall_forall in Hnone. rewrite (Hnone r Hr) in Hp. destruct Hp.
      + intros p hs [].
  Qed.

  Lemma init_pending (ws : list (list P)) : map pending (reps (init ws)) = ws.
  Proof.
    unfold init. simpl. rewrite map_map. induction ws as [|w t IH]; simpl; [reflexivity|].
    rewrite IH. destruct w; reflexivity.
  Qed.

  Lemma init_ok (ws : list (list P)) : state_ok (init ws).
  Proof.
    unfold state_ok, init. simpl. split; [|reflexivity].
    rewrite Forall_forall. intros r Hr. apply in_map_iff in Hr. destruct Hr as ([|p w] & <- & _); simpl.
    - unfold rep_ok. simpl. auto.
    - unfold rep_ok. reflexivity.
  Qed.

  (* the alignment loop on strictly sorted walks: terminates normally within the available
     fuel, after at most (sum of lengths) iterations; processes the strictly sorted union of
     the walks (so each path exactly once), each path with exactly the folders holding it *)
  Theorem merge_correct (ws : list (list P)) :
    Forall (StronglySorted plt) ws -> Forall (Forall dom) ws ->
    exists rows, merge key klt eqb ws = (rows, Done) /\
      length rows <= total_len ws /\
      StronglySorted plt (map fst rows) /\
      (forall p, In p (map fst rows) <-> exists w, In w ws /\ In p w) /\
      (forall p hs, In (p, hs) rows -> hs = holders p ws).
  Proof.
    intros Hs Hd. unfold merge.
    destruct (run_spec (S (total_len ws)) (init ws)) as (rows & E & H).
    - apply init_ok.
    - rewrite init_pending. exact Hs.
    - rewrite init_pending. exact Hd.
    - rewrite init_pending. lia.
    - rewrite init_pending in H. exists rows. split; [exact E|exact H].
  Qed.

  Lemma holders_In p ws i :
    In i (holders p ws) <-> exists w, nth_error ws i = Some w /\ In p w.
  Proof.
    unfold holders. rewrite select_In. rewrite Nat.sub_0_r. split.
    - intros (w & H1 & _ & H3). exists w. split; [exact H1|apply mem_In; exact H3].
    - intros (w & H1 & H3). exists w. repeat split; [exact H1|lia|apply mem_In; exact H3].
  Qed.

  Lemma holders_sorted p ws : StronglySorted lt (holders p ws).
  Proof. apply select_sorted. Qed.
End MergeP.
