(* Proofs/HashChkP.v — specification vocabulary, lemmas and proofs about HashChk.v (C05, C17). *)
From Coq Require Import List NArith ZArith Bool Arith Lia.
From Coq Require Import Strings.Byte.
From PFF Require Import Bytes HashChk.
Import ListNotations.

(* ---------- byte strings ---------- *)
Lemma bytes_eqb_spec a b : reflect (a = b) (bytes_eqb a b).
Proof.
  revert b. induction a as [|x a IH]; intros [|y b]; simpl; try (constructor; congruence).
  destruct (byte_eqb_spec x y) as [->|Hn]; simpl.
  - destruct (IH b) as [->|Hn]; constructor; congruence.
  - constructor. congruence.
Qed.

Lemma bytes_eqb_refl a : bytes_eqb a a = true.
Proof. destruct (bytes_eqb_spec a a); congruence. Qed.

Lemma bytes_eqb_neq a b : a <> b -> bytes_eqb a b = false.
Proof. destruct (bytes_eqb_spec a b); congruence. Qed.

(* ---------- the mtime rule ---------- *)
Lemma mtime_changed_round now rec :
  mtime_changed now rec = negb (round_sec now =? round_sec rec)%Z.
Proof.
  unfold mtime_changed. destruct (Z.eqb_spec now rec) as [->|Hn]; simpl.
  - rewrite Z.eqb_refl. reflexivity.
  - reflexivity.
Qed.

Lemma mtime_changed_same t : mtime_changed t t = false.
Proof. unfold mtime_changed. rewrite Z.eqb_refl. reflexivity. Qed.

Lemma round_sec_bounds t :
  (UNIT * round_sec t <= t + UNIT / 2 /\ t - UNIT / 2 <= UNIT * round_sec t)%Z.
Proof.
  unfold round_sec.
  pose proof (Z.div_mod t UNIT) as Hdm.
  pose proof (Z.mod_pos_bound t UNIT) as Hb.
  set (q := (t / UNIT)%Z) in *. set (r := (t mod UNIT)%Z) in *.
  change (UNIT / 2)%Z with 8388608%Z. unfold UNIT in *.
  specialize (Hdm ltac:(lia)). specialize (Hb ltac:(lia)).
  destruct (Z.ltb_spec (2 * r) 16777216); [lia|].
  destruct (Z.ltb_spec 16777216 (2 * r)); [lia|].
  destruct (Z.even q); lia.
Qed.

(* a shift of more than one second is always seen; (exactly one second is not: 1.5 and 2.5 both round to 2) *)
Lemma mtime_changed_far now rec :
  (UNIT < Z.abs (now - rec))%Z -> mtime_changed now rec = true.
Proof.
  intros Hfar. rewrite mtime_changed_round.
  destruct (Z.eqb_spec (round_sec now) (round_sec rec)) as [E|]; [|reflexivity].
  exfalso.
  pose proof (round_sec_bounds now) as [H1 H2]. pose proof (round_sec_bounds rec) as [H3 H4].
  rewrite E in H1, H2. change (UNIT / 2)%Z with 8388608%Z in *. unfold UNIT in *. lia.
Qed.

(* ---------- filesystem maps ---------- *)
Section Facts.
  Variable content : Type.
  Variable csize : content -> N.
  Variables md5 sha1 : content -> list byte.

  Notation fs := (fs content).
  Notation fs_lookup := (@fs_lookup content).
  Notation gen_row := (gen_row content csize md5 sha1).
  Notation gen_db := (gen_db content csize md5 sha1).
  Notation check_db := (check_db content csize md5 sha1).
  Notation row_errors := (row_errors content csize md5 sha1).
  Notation check_step := (check_step content csize md5 sha1).
  Notation scrape := (scrape content md5 sha1).
  Notation contents := (map (fun e : path * (content * Z) => fst (snd e))).

  Lemma lookup_In (f : fs) p e : fs_lookup f p = Some e -> In (p, e) f.
  Proof.
    induction f as [|[q e'] t IH]; simpl; [discriminate|].
    destruct (bytes_eqb_spec p q) as [->|Hn]; intros H.
    - inversion H. left. reflexivity.
    - right. apply IH. exact H.
  Qed.

  Lemma In_lookup (f : fs) p e : NoDup (map fst f) -> In (p, e) f -> fs_lookup f p = Some e.
  Proof.
    induction f as [|[q e'] t IH]; simpl; intros Hnd Hin; [contradiction|].
    inversion Hnd as [|? ? Hq Hnd']; subst.
    destruct Hin as [Heq|Hin].
    - inversion Heq; subst. rewrite bytes_eqb_refl. reflexivity.
    - destruct (bytes_eqb_spec p q) as [->|Hn].
      + exfalso. apply Hq. change q with (fst (q, e)). apply in_map. exact Hin.
      + apply IH; assumption.
  Qed.

  (* ================= C05 : specification vocabulary ================= *)
  (* what "changed" means for the file recorded as (content c, mtime m) at path p, seen in tree T' *)
  Definition attr_missing (T' : fs) (p : path) : Prop := fs_lookup T' p = None.
  Definition attr_content (T' : fs) (p : path) (c : content) : Prop :=
    exists c' m', fs_lookup T' p = Some (c', m') /\ c' <> c.
  Definition attr_size (T' : fs) (p : path) (c : content) : Prop :=
    exists c' m', fs_lookup T' p = Some (c', m') /\ csize c' <> csize c.
  Definition attr_mtime (T' : fs) (p : path) (m : Z) : Prop :=
    exists c' m', fs_lookup T' p = Some (c', m') /\ mtime_changed m' m = true.

  (* no md5+sha1 double collision between the recorded and the current content of a path *)
  Definition coll_free_at (T T' : fs) : Prop :=
    forall p c m c' m', fs_lookup T p = Some (c, m) -> fs_lookup T' p = Some (c', m') ->
      md5 c' = md5 c -> sha1 c' = sha1 c -> c' = c.

  (* the rule with options: each option removes its own attribute *)
  Definition flagged (o : opts) (T' : fs) (p : path) (c : content) (m : Z) : Prop :=
    (attr_missing T' p /\ skip_missing o = false) \/
    (attr_content T' p c /\ skip_hash o = false) \/
    attr_size T' p c \/
    (attr_mtime T' p m /\ no_mtime o = false).

  (* ================= the check loop ================= *)
  Definition check_one (o : opts) (target : option path) (f : fs) (r : row) : list (path * list errkind) :=
    if selected target r then
      match row_errors o target f r with [] => [] | errs => [(r_path r, errs)] end
    else [].
  Definition check_list o target f db := flat_map (check_one o target f) db.

  Lemma check_step_one o target f st r :
    check_step o target f st r =
    mkSt (errcount st + length (check_one o target f r))
         (logrep st ++ check_one o target f r) (efile st ++ check_one o target f r).
  Proof.
    unfold check_step, check_one. destruct (selected target r).
    - destruct (row_errors o target f r); simpl.
      + rewrite Nat.add_0_r, !app_nil_r. destruct st; reflexivity.
      + rewrite Nat.add_1_r. reflexivity.
    - simpl. rewrite Nat.add_0_r, !app_nil_r. destruct st; reflexivity.
  Qed.

  Lemma fold_check o target f db : forall st,
    fold_left (check_step o target f) db st =
    mkSt (errcount st + length (check_list o target f db))
         (logrep st ++ check_list o target f db) (efile st ++ check_list o target f db).
  Proof.
    induction db as [|r db IH]; intros st; simpl.
    - rewrite Nat.add_0_r, !app_nil_r. destruct st; reflexivity.
    - rewrite IH, check_step_one. simpl. rewrite app_length, !app_assoc, Nat.add_assoc. reflexivity.
  Qed.

  Lemma check_db_list o target f db :
    check_db o target f db =
    (check_list o target f db, check_list o target f db, negb (null (check_list o target f db))).
  Proof.
    unfold check_db. rewrite fold_check. simpl.
    destruct (check_list o target f db); reflexivity.
  Qed.

  Lemma in_check_list o target f db p ks :
    In (p, ks) (check_list o target f db) <->
    exists r, In r db /\ selected target r = true /\ r_path r = p /\
              row_errors o target f r = ks /\ ks <> [].
  Proof.
    unfold check_list. rewrite in_flat_map. split.
    - intros (r & Hr & Hin). exists r. split; [exact Hr|].
      unfold check_one in Hin. destruct (selected target r); [|contradiction].
      destruct (row_errors o target f r) as [|e l] eqn:E; [contradiction|].
      destruct Hin as [Heq|[]]. inversion Heq; subst. repeat split; congruence.
    - intros (r & Hr & Hs & Hp & He & Hne). exists r. split; [exact Hr|].
      unfold check_one. rewrite Hs, He. destruct ks; [congruence|]. left. congruence.
  Qed.

  (* reported paths are a subsequence of the database paths *)
  Lemma check_list_paths_filter o target f db :
    map fst (check_list o target f db) =
    map r_path (filter (fun r => negb (null (check_one o target f r))) db).
  Proof.
    induction db as [|r db IH]; simpl; [reflexivity|].
    rewrite map_app, IH. unfold check_one at 1 3.
    destruct (selected target r); [|reflexivity].
    destruct (row_errors o target f r); reflexivity.
  Qed.

  Lemma NoDup_filter {A} (g : A -> bool) l : NoDup l -> NoDup (filter g l).
  Proof.
    induction 1 as [|x l Hx Hnd IH]; simpl; [constructor|].
    destruct (g x); [constructor|]; auto. intros Hin. apply Hx. apply filter_In in Hin. tauto.
  Qed.

  Lemma NoDup_map_filter {A B} (h : A -> B) (g : A -> bool) l : NoDup (map h l) -> NoDup (map h (filter g l)).
  Proof.
    induction l as [|x l IH]; simpl; intros H; [constructor|].
    inversion H as [|? ? Hx Hnd]; subst.
    destruct (g x); simpl; [constructor|]; auto.
    intros Hin. apply Hx. apply in_map_iff in Hin. destruct Hin as (y & Hy & Hin).
    apply filter_In in Hin. rewrite <- Hy. apply in_map. tauto.
  Qed.

  Lemma gen_db_paths (T : fs) : map r_path (gen_db T) = map fst T.
  Proof. unfold gen_db. rewrite map_map. apply map_ext. intros [p [c m]]. reflexivity. Qed.

  Lemma in_gen_db (T : fs) r : In r (gen_db T) <-> exists p c m, In (p, (c, m)) T /\ r = gen_row (p, (c, m)).
  Proof.
    unfold gen_db. rewrite in_map_iff. split.
    - intros ([p [c m]] & He & Hin). exists p, c, m. split; [exact Hin|]. symmetry. exact He.
    - intros (p & c & m & Hin & ->). exists (p, (c, m)). split; [reflexivity|exact Hin].
  Qed.

  (* ---------- the per-row rule, for a row produced by generation and examined at its own path ---------- *)
  Lemma hash_errs_spec o c' c m p :
    let r := gen_row (p, (c, m)) in
    (hash_errs content md5 sha1 o c' r = [] /\ (skip_hash o = true \/ (md5 c' = md5 c /\ sha1 c' = sha1 c))) \/
    (hash_errs content md5 sha1 o c' r = [EBoth] /\ skip_hash o = false /\ md5 c' <> md5 c /\ sha1 c' <> sha1 c) \/
    (hash_errs content md5 sha1 o c' r = [EOne] /\ skip_hash o = false /\
       ((md5 c' = md5 c /\ sha1 c' <> sha1 c) \/ (md5 c' <> md5 c /\ sha1 c' = sha1 c))).
  Proof.
    simpl. unfold hash_errs. simpl. destruct (skip_hash o); [left; split; [reflexivity|left; reflexivity]|].
    destruct (bytes_eqb_spec (md5 c') (md5 c)) as [E1|E1], (bytes_eqb_spec (sha1 c') (sha1 c)) as [E2|E2]; simpl.
    - left. split; [reflexivity|right; split; assumption].
    - right; right. repeat split; auto.
    - right; right. repeat split; auto.
    - right; left. repeat split; auto.
  Qed.

  Definition hash_differs (c' c : content) : Prop := md5 c' <> md5 c \/ sha1 c' <> sha1 c.

  Lemma check_file_spec o p c m c' m' ks :
    check_file content csize md5 sha1 o p c' m' (gen_row (p, (c, m))) = ks ->
    ((In EBoth ks \/ In EOne ks) <-> (skip_hash o = false /\ hash_differs c' c)) /\
    (In ESize ks <-> csize c' <> csize c) /\
    (In EMtime ks <-> (no_mtime o = false /\ mtime_changed m' m = true)) /\
    ~ In EExt ks /\ ~ In EMissing ks.
  Proof.
    intros <-. unfold check_file.
    change (r_ext (gen_row (p, (c, m)))) with (ext_of p).
    change (r_size (gen_row (p, (c, m)))) with (csize c).
    change (r_mtime (gen_row (p, (c, m)))) with m.
    rewrite bytes_eqb_refl. cbn [app].
    pose proof (hash_errs_spec o c' c m p) as Hh. cbn zeta in Hh.
    set (he := hash_errs content md5 sha1 o c' (gen_row (p, (c, m)))) in *.
    set (sz := if (csize c' =? csize c)%N then [] else [ESize]).
    assert (Hsz : forall k, In k sz <-> (k = ESize /\ csize c' <> csize c)).
    { intros k. unfold sz. destruct (N.eqb_spec (csize c') (csize c)); simpl; intuition congruence. }
    set (mt := if negb (no_mtime o) && mtime_changed m' m then [EMtime] else []).
    assert (Hmt : forall k, In k mt <-> (k = EMtime /\ no_mtime o = false /\ mtime_changed m' m = true)).
    { intros k. unfold mt. destruct (no_mtime o), (mtime_changed m' m); simpl; intuition congruence. }
    assert (Hhe : forall k, In k he -> k = EBoth \/ k = EOne).
    { intros k Hk. destruct Hh as [[E _]|[[E _]|[E _]]]; rewrite E in Hk; simpl in Hk; intuition. }
    assert (Hhe2 : (In EBoth he \/ In EOne he) <-> (skip_hash o = false /\ hash_differs c' c)).
    { unfold hash_differs. destruct Hh as [[E H]|[[E H]|[E H]]]; rewrite E; simpl.
      - split; [tauto|]. intros [Hs Hd]. destruct H as [H|[H1 H2]]; [congruence|]. tauto.
      - tauto.
      - split; [|tauto]. intros _. split; [tauto|]. destruct H as [_ [[_ H]|[H _]]]; tauto. }
    assert (Hall : forall k, In k (he ++ sz ++ mt) <->
              (In k he \/ (k = ESize /\ csize c' <> csize c) \/
               (k = EMtime /\ no_mtime o = false /\ mtime_changed m' m = true))).
    { intros k. rewrite !in_app_iff, Hsz, Hmt. tauto. }
    assert (Hn : forall k, k <> EBoth -> k <> EOne -> ~ In k he).
    { intros k H1 H2 H. apply Hhe in H. tauto. }
    rewrite !Hall.
    pose proof (Hn ESize ltac:(discriminate) ltac:(discriminate)).
    pose proof (Hn EMtime ltac:(discriminate) ltac:(discriminate)).
    pose proof (Hn EExt ltac:(discriminate) ltac:(discriminate)).
    pose proof (Hn EMissing ltac:(discriminate) ltac:(discriminate)).
    repeat split; try (intuition (try discriminate); fail).
  Qed.

  (* ---------- a generated row examined at its own path ---------- *)
  Definition hash_flag (T' : fs) (p : path) (c : content) : Prop :=
    exists c' m', fs_lookup T' p = Some (c', m') /\ hash_differs c' c.

  Lemma row_errors_own o target T' p c m ks :
    file_key target (gen_row (p, (c, m))) = p ->
    row_errors o target T' (gen_row (p, (c, m))) = ks ->
    (In EMissing ks <-> (attr_missing T' p /\ skip_missing o = false)) /\
    ((In EBoth ks \/ In EOne ks) <-> (hash_flag T' p c /\ skip_hash o = false)) /\
    (In ESize ks <-> attr_size T' p c) /\
    (In EMtime ks <-> (attr_mtime T' p m /\ no_mtime o = false)) /\
    ~ In EExt ks.
  Proof.
    intros Hk. unfold row_errors. rewrite Hk.
    unfold attr_missing, hash_flag, attr_size, attr_mtime.
    destruct (fs_lookup T' p) as [[c' m']|] eqn:EL.
    - intros Hks. destruct (check_file_spec o p c m c' m' ks Hks) as (H1 & H2 & H3 & H4 & H5).
      assert (A : forall (P : content -> Z -> Prop),
                 (exists c2 m2, Some (c', m') = Some (c2, m2) /\ P c2 m2) <-> P c' m').
      { intros P. split.
        - intros (c2 & m2 & E & HP). inversion E; subst; exact HP.
        - intros HP. exists c', m'. tauto. }
      pose proof (A (fun c2 _ => hash_differs c2 c)) as A1.
      pose proof (A (fun c2 _ => csize c2 <> csize c)) as A2.
      pose proof (A (fun _ m2 => mtime_changed m2 m = true)) as A3.
      cbv beta in A1, A2, A3. rewrite A1, A2, A3.
      split; [split; [tauto|intros [? _]; discriminate]|tauto].
    - intros <-.
      assert (B : forall (P : content -> Z -> Prop),
                 (exists c2 m2, @None (content * Z) = Some (c2, m2) /\ P c2 m2) <-> False).
      { intros P. split; [intros (c2 & m2 & E & _); discriminate|tauto]. }
      pose proof (B (fun c2 _ => hash_differs c2 c)) as B1.
      pose proof (B (fun c2 _ => csize c2 <> csize c)) as B2.
      pose proof (B (fun _ m2 => mtime_changed m2 m = true)) as B3.
      cbv beta in B1, B2, B3. rewrite B1, B2, B3.
      destruct (skip_missing o); simpl; intuition (try discriminate; try congruence).
  Qed.

  Lemma nonempty_kinds (ks : list errkind) :
    ks <> [] <-> (In EMissing ks \/ (In EBoth ks \/ In EOne ks) \/ In ESize ks \/ In EMtime ks \/ In EExt ks).
  Proof.
    split.
    - destruct ks as [|k l]; [congruence|]. intros _. destruct k; simpl; tauto.
    - intros H E. subst. simpl in H. tauto.
  Qed.

  Definition flagged_h (o : opts) (T' : fs) (p : path) (c : content) (m : Z) : Prop :=
    (attr_missing T' p /\ skip_missing o = false) \/
    (hash_flag T' p c /\ skip_hash o = false) \/
    attr_size T' p c \/
    (attr_mtime T' p m /\ no_mtime o = false).

  Lemma row_errors_nonempty o target T' p c m :
    file_key target (gen_row (p, (c, m))) = p ->
    (row_errors o target T' (gen_row (p, (c, m))) <> [] <-> flagged_h o T' p c m).
  Proof.
    intros Hk. rewrite nonempty_kinds.
    destruct (row_errors_own o target T' p c m _ Hk eq_refl) as (H1 & H2 & H3 & H4 & H5).
    unfold flagged_h. tauto.
  Qed.

  Lemma hash_flag_coll (T T' : fs) p c m :
    coll_free_at T T' -> fs_lookup T p = Some (c, m) -> (hash_flag T' p c <-> attr_content T' p c).
  Proof.
    intros Hcf HT. unfold hash_flag, attr_content, hash_differs. split.
    - intros (c' & m' & E & Hd). exists c', m'. split; [exact E|]. intros ->. tauto.
    - intros (c' & m' & E & Hd). exists c', m'. split; [exact E|].
      destruct (bytes_eqb_spec (md5 c') (md5 c)) as [E1|E1]; [|left; exact E1].
      destruct (bytes_eqb_spec (sha1 c') (sha1 c)) as [E2|E2]; [|right; exact E2].
      exfalso. apply Hd. exact (Hcf p c m c' m' HT E E1 E2).
  Qed.

  Lemma flagged_h_coll o T T' p c m :
    (skip_hash o = false -> coll_free_at T T') -> fs_lookup T p = Some (c, m) ->
    (flagged_h o T' p c m <-> flagged o T' p c m).
  Proof.
    intros Hcf HT. unfold flagged_h, flagged.
    destruct (skip_hash o) eqn:Hs.
    - intuition congruence.
    - pose proof (hash_flag_coll T T' p c m (Hcf eq_refl) HT). tauto.
  Qed.

  (* ---------- reported set, any target ---------- *)
  Lemma reported_iff o target (T T' : fs) p :
    NoDup (map fst T) ->
    (In p (map fst (check_list o target T' (gen_db T))) <->
     exists c m, fs_lookup T p = Some (c, m) /\ selected target (gen_row (p, (c, m))) = true /\
                 row_errors o target T' (gen_row (p, (c, m))) <> []).
  Proof.
    intros Hnd. rewrite in_map_iff. split.
    - intros ([p' ks] & Hp & Hin). simpl in Hp. subst p'.
      apply in_check_list in Hin. destruct Hin as (r & Hr & Hs & Hrp & He & Hne).
      apply in_gen_db in Hr. destruct Hr as (q & c & m & HinT & ->). simpl in Hrp. subst q.
      exists c, m. split; [apply In_lookup; assumption|]. split; [exact Hs|]. congruence.
    - intros (c & m & HT & Hs & Hne).
      exists (p, row_errors o target T' (gen_row (p, (c, m)))). split; [reflexivity|].
      apply in_check_list. exists (gen_row (p, (c, m))). repeat split; auto.
      apply in_gen_db. exists p, c, m. split; [apply lookup_In; exact HT|reflexivity].
  Qed.

  Lemma reported_NoDup o target (T T' : fs) :
    NoDup (map fst T) -> NoDup (map fst (check_list o target T' (gen_db T))).
  Proof.
    intros Hnd. rewrite check_list_paths_filter. apply NoDup_map_filter.
    rewrite gen_db_paths. exact Hnd.
  Qed.

  Lemma null_false_iff {A} (l : list A) : negb (null l) = true <-> l <> [].
  Proof. destruct l; simpl; split; congruence. Qed.

  (* ================= C05, whole-tree input ================= *)
  Theorem check_options_exact o (T T' : fs) rep ef ex :
    NoDup (map fst T) ->
    (skip_hash o = false -> coll_free_at T T') ->
    check_db o None T' (gen_db T) = (rep, ef, ex) ->
    (forall p, In p (map fst rep) <-> exists c m, fs_lookup T p = Some (c, m) /\ flagged o T' p c m) /\
    NoDup (map fst rep) /\ ef = rep /\ (ex = true <-> rep <> []).
  Proof.
    intros Hnd Hcf Hck. rewrite check_db_list in Hck. inversion Hck; subst; clear Hck.
    split; [|split; [apply reported_NoDup; exact Hnd|split; [reflexivity|apply null_false_iff]]].
    intros p. rewrite (reported_iff o None T T' p Hnd). split.
    - intros (c & m & HT & _ & Hne). exists c, m. split; [exact HT|].
      apply (flagged_h_coll o T T' p c m Hcf HT). apply (row_errors_nonempty o None T' p c m eq_refl). exact Hne.
    - intros (c & m & HT & Hf). exists c, m. split; [exact HT|]. split; [reflexivity|].
      apply (row_errors_nonempty o None T' p c m eq_refl). apply (flagged_h_coll o T T' p c m Hcf HT). exact Hf.
  Qed.

  (* the error kinds attached to a reported path: one kind per attribute, each governed by its own option *)
  Theorem check_kinds o (T T' : fs) rep ef ex p ks c m :
    NoDup (map fst T) ->
    (skip_hash o = false -> coll_free_at T T') ->
    check_db o None T' (gen_db T) = (rep, ef, ex) ->
    In (p, ks) rep -> fs_lookup T p = Some (c, m) ->
    (In EMissing ks <-> (attr_missing T' p /\ skip_missing o = false)) /\
    ((In EBoth ks \/ In EOne ks) <-> (attr_content T' p c /\ skip_hash o = false)) /\
    (In ESize ks <-> attr_size T' p c) /\
    (In EMtime ks <-> (attr_mtime T' p m /\ no_mtime o = false)) /\
    ~ In EExt ks.
  Proof.
    intros Hnd Hcf Hck Hin HT. rewrite check_db_list in Hck. inversion Hck; subst; clear Hck.
    apply in_check_list in Hin. destruct Hin as (r & Hr & Hs & Hrp & He & Hne).
    apply in_gen_db in Hr. destruct Hr as (q & c0 & m0 & HinT & ->). simpl in Hrp. subst q.
    rewrite (In_lookup T p (c0, m0) Hnd HinT) in HT. inversion HT; subst c0 m0.
    destruct (row_errors_own o None T' p c m ks eq_refl He) as (H1 & H2 & H3 & H4 & H5).
    split; [exact H1|]. split; [|tauto].
    destruct (skip_hash o) eqn:Hs'.
    - rewrite H2. intuition congruence.
    - pose proof (hash_flag_coll T T' p c m (Hcf eq_refl) (In_lookup T p (c, m) Hnd HinT)). rewrite H2. tauto.
  Qed.

  (* nothing changed (T' agrees with T on every recorded path; extra files allowed): silent, exit 0 *)
  Theorem check_clean o (T T' : fs) :
    NoDup (map fst T) ->
    (forall p e, fs_lookup T p = Some e -> fs_lookup T' p = Some e) ->
    check_db o None T' (gen_db T) = ([], [], false).
  Proof.
    intros Hnd Hsame. rewrite check_db_list.
    assert (E : check_list o None T' (gen_db T) = []).
    { destruct (check_list o None T' (gen_db T)) as [|[p ks] l] eqn:E; [reflexivity|exfalso].
      assert (Hin : In p (map fst (check_list o None T' (gen_db T)))) by (rewrite E; left; reflexivity).
      apply (reported_iff o None T T' p Hnd) in Hin. destruct Hin as (c & m & HT & _ & Hne).
      apply (row_errors_nonempty o None T' p c m eq_refl) in Hne.
      specialize (Hsame p (c, m) HT).
      unfold flagged_h, attr_missing, hash_flag, hash_differs, attr_size, attr_mtime in Hne.
      destruct Hne as [[H _]|[[(c' & m' & E' & Hd) _]|[(c' & m' & E' & Hd)|[(c' & m' & E' & Hd) _]]]].
      - congruence.
      - rewrite Hsame in E'. inversion E'; subst. tauto.
      - rewrite Hsame in E'. inversion E'; subst. tauto.
      - rewrite Hsame in E'. inversion E'; subst. rewrite mtime_changed_same in Hd. discriminate. }
    rewrite E. reflexivity.
  Qed.

  (* ================= C05, single-file input ================= *)
  Lemma selected_top t p c m :
    basename t = t -> (selected (Some t) (gen_row (p, (c, m))) = true <-> p = t).
  Proof.
    intros Hb. simpl. rewrite Hb. destruct (bytes_eqb_spec p t); split; congruence.
  Qed.

  Definition single_statement (o : opts) (T T' : fs) (t : path) : Prop :=
    forall rep ef ex, check_db o (Some t) T' (gen_db T) = (rep, ef, ex) ->
      (forall p, In p (map fst rep) <-> (p = t /\ exists c m, fs_lookup T t = Some (c, m) /\ flagged o T' t c m)) /\
      NoDup (map fst rep) /\ ef = rep /\ (ex = true <-> rep <> []).

  Theorem check_single_top o (T T' : fs) t :
    NoDup (map fst T) ->
    (skip_hash o = false -> coll_free_at T T') ->
    basename t = t ->
    single_statement o T T' t.
  Proof.
    intros Hnd Hcf Hb rep ef ex Hck. rewrite check_db_list in Hck. inversion Hck; subst; clear Hck.
    split; [|split; [apply reported_NoDup; exact Hnd|split; [reflexivity|apply null_false_iff]]].
    intros p. rewrite (reported_iff o (Some t) T T' p Hnd). split.
    - intros (c & m & HT & Hs & Hne). apply (selected_top t p c m Hb) in Hs. subst p.
      split; [reflexivity|]. exists c, m. split; [exact HT|].
      apply (flagged_h_coll o T T' t c m Hcf HT). apply (row_errors_nonempty o (Some t) T' t c m eq_refl). exact Hne.
    - intros [-> (c & m & HT & Hf)]. exists c, m. split; [exact HT|].
      split; [apply (selected_top t t c m Hb); reflexivity|].
      apply (row_errors_nonempty o (Some t) T' t c m eq_refl). apply (flagged_h_coll o T T' t c m Hcf HT). exact Hf.
  Qed.
End Facts.

(* ================= C17 : file-scraping recovery ================= *)
Section Scrape.
  Variable content : Type.
  Variable csize : content -> N.
  Variables md5 sha1 : content -> list byte.

  Notation fs := (fs content).
  Notation fs_lookup := (@fs_lookup content).
  Notation gen_row := (gen_row content csize md5 sha1).
  Notation gen_db := (gen_db content csize md5 sha1).
  Notation scrape := (scrape content md5 sha1).
  Notation match_row := (match_row content md5 sha1).
  Notation scrape_step := (scrape_step content md5 sha1).
  Notation cont := (fun e : path * (content * Z) => fst (snd e)).

  (* hypotheses of the theorems, as named predicates *)
  Definition distinct_contents (T : fs) : Prop := NoDup (map cont T).
  Definition digests_nonempty (T : fs) : Prop :=
    forall c, In c (map cont T) -> md5 c <> [] /\ sha1 c <> [].
  Definition inj_on (h : content -> list byte) (T : fs) : Prop :=
    forall c c', In c (map cont T) -> In c' (map cont T) -> h c = h c' -> c = c'.
  Definition coll_free_scraped (T S : fs) : Prop :=
    forall c c', In c (map cont S) -> In c' (map cont T) -> md5 c = md5 c' -> sha1 c = sha1 c' -> c = c'.

  (* ----- generic list facts ----- *)
  Lemma NoDup_map_inj_on {A B} (h : A -> B) (l : list A) :
    NoDup l -> (forall x y, In x l -> In y l -> h x = h y -> x = y) -> NoDup (map h l).
  Proof.
    induction 1 as [|x l Hx Hnd IH]; intros Hinj; simpl; [constructor|].
    constructor.
    - intros Hin. apply in_map_iff in Hin. destruct Hin as (y & Hy & Hin).
      assert (y = x) by (apply Hinj; simpl; auto). subst. contradiction.
    - apply IH. intros a b Ha Hb. apply Hinj; simpl; auto.
  Qed.

  Lemma NoDup_map_eq {A B} (h : A -> B) (l : list A) x y :
    NoDup (map h l) -> In x l -> In y l -> h x = h y -> x = y.
  Proof.
    induction l as [|a l IH]; simpl; intros Hnd Hx Hy E; [contradiction|].
    inversion Hnd as [|? ? Ha Hnd']; subst.
    destruct Hx as [->|Hx], Hy as [->|Hy]; auto.
    - exfalso. apply Ha. rewrite E. apply in_map. exact Hy.
    - exfalso. apply Ha. rewrite <- E. apply in_map. exact Hx.
  Qed.

  Lemma dict_get_In {V} (d : list (list byte * V)) k v : dict_get d k = Some v -> In (k, v) d.
  Proof.
    induction d as [|[k' v'] t IH]; simpl; [discriminate|].
    destruct (bytes_eqb_spec k k') as [->|Hn]; intros H.
    - inversion H. left. reflexivity.
    - right. apply IH. exact H.
  Qed.

  Lemma In_dict_get {V} (d : list (list byte * V)) k v :
    NoDup (map fst d) -> In (k, v) d -> dict_get d k = Some v.
  Proof.
    induction d as [|[k' v'] t IH]; simpl; intros Hnd Hin; [contradiction|].
    inversion Hnd as [|? ? Hk Hnd']; subst.
    destruct Hin as [Heq|Hin].
    - inversion Heq; subst. rewrite bytes_eqb_refl. reflexivity.
    - destruct (bytes_eqb_spec k k') as [->|Hn].
      + exfalso. apply Hk. change k' with (fst (k', v)). apply in_map. exact Hin.
      + apply IH; assumption.
  Qed.

  Lemma row_get_In d k v : row_get d k = Some v -> In (k, v) d.
  Proof.
    induction d as [|[k' v'] t IH]; simpl; [discriminate|].
    destruct (Nat.eqb_spec k k') as [->|Hn]; intros H.
    - inversion H. left. reflexivity.
    - right. apply IH. exact H.
  Qed.

  Lemma In_row_get d k v : NoDup (map fst d) -> In (k, v) d -> row_get d k = Some v.
  Proof.
    induction d as [|[k' v'] t IH]; simpl; intros Hnd Hin; [contradiction|].
    inversion Hnd as [|? ? Hk Hnd']; subst.
    destruct Hin as [Heq|Hin].
    - inversion Heq; subst. rewrite Nat.eqb_refl. reflexivity.
    - destruct (Nat.eqb_spec k k') as [->|Hn].
      + exfalso. apply Hk. change k' with (fst (k', v)). apply in_map. exact Hin.
      + apply IH; assumption.
  Qed.

  (* ----- what load_db builds ----- *)
  Definition idxable (ir : nat * row) : bool := negb (null (r_md5 (snd ir))) && negb (null (r_sha1 (snd ir))).
  Definition numbered (db : list row) (id : nat) : list (nat * row) := combine (seq (S id) (length db)) db.

  Lemma load_db_spec db : forall id m,
    load_db db id m =
    mkMaps (rev (map (fun ir => (r_md5 (snd ir), fst ir)) (filter idxable (numbered db id))) ++ md5list m)
           (rev (map (fun ir => (r_sha1 (snd ir), fst ir)) (filter idxable (numbered db id))) ++ sha1list m)
           (rev (filter idxable (numbered db id)) ++ dbrows m).
  Proof.
    induction db as [|r db IH]; intros id m.
    - destruct m; reflexivity.
    - cbn [load_db]. unfold numbered. cbn [length seq combine filter].
      change (combine (seq (S (S id)) (length db)) db) with (numbered db (S id)).
      change (negb (null (r_md5 r)) && negb (null (r_sha1 r))) with (idxable (S id, r)).
      destruct (idxable (S id, r)).
      + rewrite IH. cbn [md5list sha1list dbrows map rev]. rewrite <- !app_assoc. reflexivity.
      + rewrite IH. reflexivity.
  Qed.

  Lemma numbered_fst db id : map fst (numbered db id) = seq (S id) (length db).
  Proof.
    unfold numbered. revert id. induction db as [|r db IH]; intros id; simpl; [reflexivity|].
    f_equal. apply IH.
  Qed.

  Lemma numbered_snd db id : map snd (numbered db id) = db.
  Proof.
    unfold numbered. revert id. induction db as [|r db IH]; intros id; simpl; [reflexivity|].
    f_equal. apply IH.
  Qed.

  Lemma filter_all {A} (g : A -> bool) l : (forall x, In x l -> g x = true) -> filter g l = l.
  Proof.
    induction l as [|x l IH]; simpl; intros H; [reflexivity|].
    rewrite (H x (or_introl eq_refl)). f_equal. apply IH. intros y Hy. apply H. right. exact Hy.
  Qed.

  (* ----- the matching function on a generated database ----- *)
  Section Matching.
    Variables T S : fs.
    Hypothesis HndT : NoDup (map fst T).
    Hypothesis Hdist : distinct_contents T.
    Hypothesis Hne : digests_nonempty T.
    Hypothesis Hmd5 : inj_on md5 T.
    Hypothesis Hsha1 : inj_on sha1 T.

    Let L := numbered (gen_db T) 0.
    Let M := load_db (gen_db T) 0 (mkMaps [] [] []).

    Lemma gen_db_snd_in ir : In ir L -> exists p c m, In (p, (c, m)) T /\ snd ir = gen_row (p, (c, m)).
    Proof.
      intros Hin. assert (H : In (snd ir) (gen_db T)).
      { rewrite <- (numbered_snd (gen_db T) 0). apply in_map. exact Hin. }
      unfold HashChk.gen_db in H. apply in_map_iff in H. destruct H as ([p [c m]] & E & HinT).
      exists p, c, m. split; [exact HinT|]. symmetry. exact E.
    Qed.

    Lemma all_idxable : filter idxable L = L.
    Proof.
      apply filter_all. intros ir Hin. destruct (gen_db_snd_in ir Hin) as (p & c & m & HinT & E).
      unfold idxable. rewrite E. cbn [r_md5 r_sha1 HashChk.gen_row].
      destruct (Hne c) as [H1 H2].
      { change c with (cont (p, (c, m))). apply in_map. exact HinT. }
      destruct (md5 c); [congruence|]. destruct (sha1 c); [congruence|]. reflexivity.
    Qed.

    Lemma M_eq : M = mkMaps (rev (map (fun ir => (r_md5 (snd ir), fst ir)) L))
                            (rev (map (fun ir => (r_sha1 (snd ir), fst ir)) L)) (rev L).
    Proof.
      unfold M. rewrite load_db_spec. fold L. rewrite all_idxable. cbn [md5list sha1list dbrows].
      rewrite !app_nil_r. reflexivity.
    Qed.

    Lemma L_ids_NoDup : NoDup (map fst L).
    Proof. unfold L. rewrite numbered_fst. apply seq_NoDup. Qed.

    Lemma L_same_id i r r' : In (i, r) L -> In (i, r') L -> r = r'.
    Proof.
      intros H1 H2.
      assert (E : (i, r) = (i, r')) by (apply (NoDup_map_eq fst L); auto using L_ids_NoDup).
      congruence.
    Qed.

    Lemma T_content_unique p c m p' m' : In (p, (c, m)) T -> In (p', (c, m')) T -> p = p' /\ m = m'.
    Proof.
      intros H1 H2.
      assert (E : (p, (c, m)) = (p', (c, m'))) by (apply (NoDup_map_eq cont T); auto).
      inversion E. split; reflexivity.
    Qed.

    Lemma rows_NoDup_by (h : content -> list byte) (g : row -> list byte) :
      inj_on h T -> (forall p c m, g (gen_row (p, (c, m))) = h c) ->
      NoDup (map fst (rev (map (fun ir : nat * row => (g (snd ir), fst ir)) L))).
    Proof.
      intros Hinj Hg. rewrite <- map_rev, map_map. cbn [fst].
      rewrite map_rev. apply NoDup_rev.
      replace (map (fun x : nat * row => g (snd x)) L) with (map g (gen_db T)).
      2:{ rewrite <- (numbered_snd (gen_db T) 0) at 1. fold L. rewrite map_map. reflexivity. }
      unfold HashChk.gen_db. rewrite map_map.
      replace (map (fun x => g (gen_row x)) T) with (map h (map cont T)).
      2:{ rewrite map_map. apply map_ext. intros [p [c m]]. symmetry. apply Hg. }
      apply NoDup_map_inj_on; [exact Hdist|]. intros x y Hx Hy. apply Hinj; assumption.
    Qed.

    (* a recorded content is matched to its own row *)
    Lemma match_recorded p c m : In (p, (c, m)) T -> match_row M c = Some (gen_row (p, (c, m))).
    Proof.
      intros HinT.
      assert (Hr : In (gen_row (p, (c, m))) (gen_db T)).
      { unfold HashChk.gen_db. apply in_map. exact HinT. }
      rewrite <- (numbered_snd (gen_db T) 0) in Hr. fold L in Hr.
      apply in_map_iff in Hr. destruct Hr as ([i r] & Er & HinL). cbn [snd] in Er. subst r.
      unfold HashChk.match_row. rewrite M_eq. cbn [md5list sha1list dbrows].
      rewrite (In_dict_get _ (md5 c) i).
      2:{ apply (rows_NoDup_by md5 r_md5 Hmd5). reflexivity. }
      2:{ apply -> in_rev. apply in_map_iff. exists (i, gen_row (p, (c, m))). split; [reflexivity|exact HinL]. }
      rewrite (In_dict_get _ (sha1 c) i).
      2:{ apply (rows_NoDup_by sha1 r_sha1 Hsha1). reflexivity. }
      2:{ apply -> in_rev. apply in_map_iff. exists (i, gen_row (p, (c, m))). split; [reflexivity|exact HinL]. }
      rewrite Nat.eqb_refl. apply In_row_get.
      - rewrite map_rev. apply NoDup_rev. apply L_ids_NoDup.
      - apply -> in_rev. exact HinL.
    Qed.

    (* whatever is matched carries both digests of the matched row *)
    Lemma match_sound c r : match_row M c = Some r ->
      exists p c0 m, In (p, (c0, m)) T /\ r = gen_row (p, (c0, m)) /\ md5 c = md5 c0 /\ sha1 c = sha1 c0.
    Proof.
      unfold HashChk.match_row. rewrite M_eq. cbn [md5list sha1list dbrows].
      destruct (dict_get _ (md5 c)) as [i|] eqn:E1; [|discriminate].
      destruct (dict_get _ (sha1 c)) as [j|] eqn:E2; [|discriminate].
      destruct (Nat.eqb_spec i j) as [<-|]; [|discriminate].
      intros E3. apply row_get_In in E3. apply in_rev in E3.
      apply dict_get_In in E1. apply in_rev in E1. apply in_map_iff in E1.
      destruct E1 as ([i1 r1] & Ea & H1). cbn [fst snd] in Ea. inversion Ea; subst i1.
      apply dict_get_In in E2. apply in_rev in E2. apply in_map_iff in E2.
      destruct E2 as ([i2 r2] & Eb & H2). cbn [fst snd] in Eb. inversion Eb; subst i2.
      assert (r1 = r) by (eapply L_same_id; eauto). assert (r2 = r) by (eapply L_same_id; eauto). subst r1 r2.
      destruct (gen_db_snd_in (i, r) E3) as (p & c0 & m & HinT & Er). cbn [snd] in Er.
      exists p, c0, m. split; [exact HinT|]. split; [exact Er|].
      rewrite Er in H0, H3. cbn [r_md5 r_sha1 HashChk.gen_row] in H0, H3. split; congruence.
    Qed.

    Hypothesis Hcf : coll_free_scraped T S.

    Lemma match_scraped c : In c (map cont S) ->
      (forall r, match_row M c = Some r -> exists p m, In (p, (c, m)) T /\ r = gen_row (p, (c, m))).
    Proof.
      intros HinS r Hm. destruct (match_sound c r Hm) as (p & c0 & m & HinT & Er & E1 & E2).
      assert (c = c0).
      { apply Hcf; auto. change c0 with (cont (p, (c0, m))). apply in_map. exact HinT. }
      subst c0. exists p, m. tauto.
    Qed.

    (* ----- the output tree ----- *)
    Lemma lookup_remove (f : fs) p q :
      fs_lookup (fs_remove content f p) q = if bytes_eqb q p then None else fs_lookup f q.
    Proof.
      induction f as [|[k e] t IH]; simpl.
      - destruct (bytes_eqb q p); reflexivity.
      - destruct (bytes_eqb_spec p k) as [->|Hn].
        + rewrite IH. destruct (bytes_eqb_spec q k); reflexivity.
        + simpl. rewrite IH. destruct (bytes_eqb_spec q k) as [->|Hn2].
          * rewrite bytes_eqb_neq; [reflexivity|congruence].
          * reflexivity.
    Qed.

    Lemma lookup_write (f : fs) p e q :
      fs_lookup (fs_write content f p e) q = if bytes_eqb q p then Some e else fs_lookup f q.
    Proof.
      unfold fs_write. simpl. rewrite lookup_remove. destruct (bytes_eqb q p); reflexivity.
    Qed.

    Definition Inv (out done : fs) : Prop :=
      forall p e, fs_lookup out p = Some e <-> (In (p, e) T /\ In (fst e) (map cont done)).

    Lemma step_inv out done x : In x S -> Inv out done -> Inv (scrape_step M out x) (done ++ [x]).
    Proof.
      intros HxS HI p e. unfold HashChk.scrape_step.
      assert (Hc : In (cont x) (map cont S)) by (exact (in_map cont S x HxS)).
      rewrite map_app, in_app_iff. cbn [map In].
      destruct (match_row M (fst (snd x))) as [r|] eqn:Em.
      - destruct (match_scraped (cont x) Hc r Em) as (p0 & m0 & HinT & ->).
        cbn [r_path r_mtime HashChk.gen_row]. rewrite lookup_write.
        destruct (bytes_eqb_spec p p0) as [->|Hn].
        + split.
          * intros E. inversion E; subst e. split; [exact HinT|]. right. left. reflexivity.
          * intros [HinT' _].
            assert (E : (p0, e) = (p0, (cont x, m0))) by (apply (NoDup_map_eq fst T); auto).
            inversion E. reflexivity.
        + rewrite (HI p e). split.
          * intros [H1 H2]. tauto.
          * intros [H1 [H2|[H2|[]]]]; [tauto|]. exfalso. destruct e as [c' m']. cbn [fst] in H2. subst c'.
            destruct (T_content_unique _ _ _ _ _ H1 HinT). congruence.
      - rewrite (HI p e). split.
        + intros [H1 H2]. tauto.
        + intros [H1 [H2|[H2|[]]]]; [tauto|]. exfalso. destruct e as [c' m']. cbn [fst] in H2. subst c'.
          rewrite (match_recorded p _ m' H1) in Em. discriminate.
    Qed.

    Lemma fold_inv S2 : forall out done, (forall x, In x S2 -> In x S) -> Inv out done ->
      Inv (fold_left (scrape_step M) S2 out) (done ++ S2).
    Proof.
      induction S2 as [|x S2 IH]; intros out done Hsub HI; simpl.
      - rewrite app_nil_r. exact HI.
      - replace (done ++ x :: S2) with ((done ++ [x]) ++ S2) by (rewrite <- app_assoc; reflexivity).
        apply IH.
        + intros y Hy. apply Hsub. right. exact Hy.
        + apply step_inv; [apply Hsub; left; reflexivity|exact HI].
    Qed.

    Lemma null_rev {A} (l : list A) : null (rev l) = null l.
    Proof. destruct l as [|x l]; simpl; [reflexivity|]. destruct (rev l); reflexivity. Qed.

    Lemma null_numbered db id : null (numbered db id) = null db.
    Proof. destruct db; reflexivity. Qed.
    Lemma null_map {A B} (h : A -> B) l : null (map h l) = null l.
    Proof. destruct l; reflexivity. Qed.
    Lemma null_true {A} (l : list A) : null l = true -> l = [].
    Proof. destruct l; [reflexivity|discriminate]. Qed.

    Lemma scrape_eq : scrape (gen_db T) S =
      if null T then ([], 1) else (fold_left (scrape_step M) S [], 0).
    Proof.
      unfold HashChk.scrape. fold M. rewrite M_eq. cbn [dbrows]. rewrite null_rev.
      unfold L. rewrite null_numbered. unfold HashChk.gen_db. rewrite null_map. reflexivity.
    Qed.

    Theorem scrape_exact p c m :
      fs_lookup (fst (scrape (gen_db T) S)) p = Some (c, m) <->
      (fs_lookup T p = Some (c, m) /\ In c (map cont S)).
    Proof.
      rewrite scrape_eq. destruct (null T) eqn:ET.
      - apply null_true in ET. rewrite ET. simpl. split; [discriminate|intros [H _]; discriminate].
      - cbn [fst].
        assert (HI : Inv (fold_left (scrape_step M) S []) ([] ++ S)).
        { apply fold_inv; [auto|]. intros q e. simpl. split; [discriminate|tauto]. }
        rewrite (HI p (c, m)). cbn [fst app]. split.
        + intros [H1 H2]. split; [apply In_lookup; assumption|exact H2].
        + intros [H1 H2]. split; [apply lookup_In; exact H1|exact H2].
    Qed.

    Theorem scrape_status : snd (scrape (gen_db T) S) = if null T then 1 else 0.
    Proof. rewrite scrape_eq. destruct (null T); reflexivity. Qed.

    Theorem scrape_full :
      (forall c, In c (map cont T) -> In c (map cont S)) ->
      forall p, fs_lookup (fst (scrape (gen_db T) S)) p = fs_lookup T p.
    Proof.
      intros Hall p.
      destruct (fs_lookup (fst (scrape (gen_db T) S)) p) as [[c m]|] eqn:E.
      - apply scrape_exact in E. symmetry. tauto.
      - destruct (fs_lookup T p) as [[c m]|] eqn:E2; [|reflexivity].
        assert (H : fs_lookup (fst (scrape (gen_db T) S)) p = Some (c, m)).
        { apply scrape_exact. rewrite E2. split; [reflexivity|]. apply Hall.
          change c with (cont (p, (c, m))). apply in_map. apply lookup_In. exact E2. }
        congruence.
    Qed.
  End Matching.
End Scrape.
