(* Proofs/EntryP.v — lemmas about Entry.v: block layout of the intra fields, round-trip and repair of
   the intra-ecc, entry_fields on a well-formed (unambiguous) entry, decimal text. *)
From Coq Require Import List Arith NArith ZArith Bool Lia Decimal DecimalN DecimalPos.
From Coq Require Import Strings.Byte.
From PFF Require Import Bytes Entry.
Import ListNotations.

(* ================================================================== lists *)

Lemma byte_eqb_refl x : byte_eqb x x = true.
Proof. destruct (byte_eqb_spec x x); congruence. Qed.

Lemma skipn_min_firstn (n : nat) (x : list byte) : skipn (length (firstn n x)) x = skipn n x.
Proof.
  rewrite firstn_length. destruct (Nat.le_ge_cases n (length x)) as [H|H].
  - rewrite Nat.min_l by exact H. reflexivity.
  - rewrite Nat.min_r by exact H. rewrite !skipn_all2; auto.
Qed.

Lemma skipn_skipn (a b : nat) (l : list byte) : skipn a (skipn b l) = skipn (b + a) l.
Proof.
  revert l. induction b as [|b IH]; intros l; simpl; [reflexivity|].
  destruct l; simpl; [apply skipn_nil | apply IH].
Qed.

Lemma skipn_advance (n cur : nat) (l : list byte) :
  skipn (cur + length (firstn n (skipn cur l))) l = skipn n (skipn cur l).
Proof. rewrite <- skipn_skipn. apply skipn_min_firstn. Qed.

Lemma sub_firstn_skipn (l : list byte) (i n : nat) : sub l i (i + n) = firstn n (skipn i l).
Proof. unfold sub. replace (i + n - i)%nat with n by lia. reflexivity. Qed.

(* ================================================================== chunks *)

Lemma chunks_aux_fuel n : (1 <= n)%nat -> forall f1 f2 l,
  (length l <= f1)%nat -> (length l <= f2)%nat -> chunks_aux f1 n l = chunks_aux f2 n l.
Proof.
  intros Hn. induction f1 as [|f1 IH]; intros f2 l H1 H2.
  - destruct l; [|simpl in H1; lia]. destruct f2; reflexivity.
  - destruct l as [|c l]; [destruct f2; reflexivity|].
    destruct f2 as [|f2]; [simpl in H2; lia|].
    simpl chunks_aux. f_equal.
    assert (L : (length (skipn n (c :: l)) <= length l)%nat).
    { rewrite skipn_length. cbn [length]. lia. }
    simpl in H1, H2. apply IH; lia.
Qed.

Lemma chunks_nil n : chunks n [] = [].
Proof. reflexivity. Qed.

Lemma chunks_cons n l : (1 <= n)%nat -> l <> [] -> chunks n l = firstn n l :: chunks n (skipn n l).
Proof.
  intros Hn Hl. unfold chunks. destruct l as [|c l]; [congruence|].
  simpl length. simpl chunks_aux. f_equal.
  apply chunks_aux_fuel; [exact Hn| |lia].
  rewrite skipn_length. cbn [length]. lia.
Qed.

(* induction following the cutting *)
Lemma chunk_ind n : (1 <= n)%nat -> forall (P : list byte -> Prop),
  P [] -> (forall l, l <> [] -> P (skipn n l) -> P l) -> forall l, P l.
Proof.
  intros Hn P H0 Hs l. remember (length l) as m eqn:Hm. revert l Hm.
  induction m as [m IH] using lt_wf_ind. intros l Hm.
  destruct l as [|c l]; [exact H0|].
  apply Hs; [congruence|]. eapply IH; [|reflexivity].
  rewrite skipn_length. subst m. cbn [length]. lia.
Qed.

Lemma concat_chunks n l : (1 <= n)%nat -> concat (chunks n l) = l.
Proof.
  intros Hn. induction l as [|l Hl IH] using (chunk_ind n Hn); [reflexivity|].
  rewrite chunks_cons by assumption. simpl. rewrite IH. apply firstn_skipn.
Qed.

Lemma chunks_le n l : (1 <= n)%nat -> Forall (fun c => (length c <= n)%nat) (chunks n l).
Proof.
  intros Hn. induction l as [|l Hl IH] using (chunk_ind n Hn); [constructor|].
  rewrite chunks_cons by assumption. constructor; [|exact IH].
  rewrite firstn_length. lia.
Qed.

(* pieces of uniform length n are recovered by cutting their concatenation *)
Lemma chunks_concat_uniform n xs : (1 <= n)%nat -> Forall (fun x => length x = n) xs ->
  chunks n (concat xs) = xs.
Proof.
  intros Hn H. induction H as [|x xs Hx _ IH]; [reflexivity|].
  simpl concat. rewrite chunks_cons; [|exact Hn|].
  - rewrite firstn_app, skipn_app, Hx, Nat.sub_diag. simpl.
    rewrite firstn_all2, skipn_all2 by lia. simpl. rewrite app_nil_r, IH. reflexivity.
  - destruct x; [simpl in Hx; lia|discriminate].
Qed.

Lemma concat_uniform_length n (xs : list (list byte)) : Forall (fun x => length x = n) xs ->
  length (concat xs) = (length xs * n)%nat.
Proof.
  intros H. induction H as [|x xs Hx _ IH]; [reflexivity|]. simpl. rewrite app_length. lia.
Qed.

(* equal lengths give the same cutting shape *)
Lemma chunks_shape n a b : (1 <= n)%nat -> length a = length b ->
  Forall2 (fun x y => length x = length y) (chunks n a) (chunks n b).
Proof.
  intros Hn. revert b. induction a as [|a Ha IH] using (chunk_ind n Hn); intros b Hab.
  - destruct b; [constructor|discriminate].
  - assert (Hb : b <> []) by (destruct b; [destruct a; [congruence|discriminate]|discriminate]).
    rewrite (chunks_cons n a), (chunks_cons n b) by assumption. constructor.
    + rewrite !firstn_length. lia.
    + apply IH. rewrite !skipn_length. lia.
Qed.

(* ================================================================== ranges and the four block walks *)

Lemma range_chunks n (l : list byte) : (1 <= n)%nat -> forall fuel s,
  (length l - s <= fuel)%nat -> (s <= length l)%nat ->
  map (fun i => sub l i (i + n)) (py_range fuel s (length l) n) = chunks n (skipn s l).
Proof.
  intros Hn. induction fuel as [|fuel IH]; intros s Hf Hs.
  - simpl. rewrite skipn_all2 by lia. reflexivity.
  - simpl. destruct (Nat.ltb_spec s (length l)) as [Hlt|Hge].
    + simpl. rewrite chunks_cons; [|exact Hn|].
      * rewrite sub_firstn_skipn. f_equal.
        destruct (Nat.le_ge_cases (s + n) (length l)) as [H|H].
        -- rewrite IH by lia. rewrite skipn_skipn. reflexivity.
        -- rewrite skipn_skipn. rewrite (skipn_all2 (n := s + n)) by lia.
           destruct fuel; [reflexivity|]. simpl.
           destruct (Nat.ltb_spec (s + n) (length l)); [lia|reflexivity].
      * intros E. apply (f_equal (@length byte)) in E. rewrite skipn_length in E. cbn [length] in E. lia.
    + rewrite skipn_all2 by lia. reflexivity.
Qed.

Lemma range0_chunks n (l : list byte) : (1 <= n)%nat ->
  map (fun i => sub l i (i + n)) (range0 (length l) n) = chunks n l.
Proof. intros Hn. unfold range0. rewrite range_chunks by lia. reflexivity. Qed.

Lemma map_combine_pair {A B C D} (g1 : A -> C) (g2 : B -> D) (a : list A) (b : list B) :
  map (fun ij => (g1 (fst ij), g2 (snd ij))) (combine a b) = combine (map g1 a) (map g2 b).
Proof.
  revert b. induction a as [|x a IH]; intros b; [reflexivity|].
  destruct b; [reflexivity|]. simpl. rewrite IH. reflexivity.
Qed.

Section Layout.
  Variables (k es : nat).
  Variable enc : list byte -> list byte.
  Hypothesis k_pos : (1 <= k)%nat.

  (* the zip of two ranges of the header tool is the block list *)
  Lemma hdr_blocks_eq field ecc : (1 <= es)%nat -> hdr_blocks k es field ecc = intra_blocks k es field ecc.
  Proof.
    intros He. unfold hdr_blocks, intra_blocks. simpl (0 + es)%nat.
    rewrite (map_combine_pair (fun i => sub field i (i + k)) (fun j => sub ecc (j + 0) (j + 0 + es))).
    rewrite range0_chunks by exact k_pos. f_equal.
    rewrite <- (range0_chunks es ecc He). apply map_ext. intros j. rewrite Nat.add_0_r. reflexivity.
  Qed.

  (* the cursor loop of the whole-file tool is the same block list *)
  Lemma stream_blocks_eq field ecc : (1 <= es)%nat -> forall fuel cf ce,
    (length ecc - ce < fuel)%nat ->
    stream_blocks k es fuel field ecc cf ce = combine (chunks k (skipn cf field)) (chunks es (skipn ce ecc)).
  Proof.
    intros He. induction fuel as [|fuel IH]; intros cf ce Hf; [lia|].
    simpl stream_blocks. destruct (Nat.ltb_spec ce (length ecc)) as [Hlt|Hge].
    - rewrite sub_firstn_skipn.
      destruct (skipn cf field) as [|c r] eqn:Er.
      + rewrite firstn_nil. reflexivity.
      + assert (Ef : firstn k (c :: r) <> []) by (destruct k; [lia|discriminate]).
        destruct (firstn k (c :: r)) as [|c1 r1] eqn:Ek; [congruence|].
        rewrite <- Ek. clear Ef.
        rewrite (chunks_cons k (c :: r)) by (auto; discriminate).
        assert (Ee : skipn ce ecc <> []).
        { intros E. apply (f_equal (@length byte)) in E. rewrite skipn_length in E. cbn [length] in E. lia. }
        rewrite (chunks_cons es (skipn ce ecc)) by assumption.
        simpl (0 + es)%nat. rewrite sub_firstn_skipn. simpl skipn at 1. simpl combine. f_equal.
        rewrite IH.
        * f_equal.
          -- f_equal. rewrite <- Er. apply skipn_advance.
          -- f_equal. apply skipn_advance.
        * rewrite firstn_length, skipn_length. lia.
    - rewrite (skipn_all2 (n := ce)) by lia. rewrite chunks_nil.
      destruct (chunks k (skipn cf field)); reflexivity.
  Qed.

  Lemma whole_blocks_eq field ecc : (1 <= es)%nat -> whole_blocks k es field ecc = intra_blocks k es field ecc.
  Proof. intros He. unfold whole_blocks. rewrite stream_blocks_eq by (auto; lia). reflexivity. Qed.

  (* generation: both tools emit the parity of the consecutive k-chunks *)
  Lemma hdr_intra_encode_eq f : hdr_intra_encode k enc f = concat (map enc (chunks k f)).
  Proof.
    unfold hdr_intra_encode. rewrite <- (range0_chunks k f k_pos). rewrite map_map. reflexivity.
  Qed.

  Lemma stream_encode_eq f : forall fuel cur, (length f - cur <= fuel)%nat ->
    stream_encode k enc fuel f cur = concat (map enc (chunks k (skipn cur f))).
  Proof.
    induction fuel as [|fuel IH]; intros cur Hf.
    - simpl. rewrite skipn_all2 by lia. reflexivity.
    - simpl. destruct (Nat.ltb_spec cur (length f)) as [Hlt|Hge].
      + assert (Ee : skipn cur f <> []).
        { intros E. apply (f_equal (@length byte)) in E. rewrite skipn_length in E. cbn [length] in E. lia. }
        rewrite (chunks_cons k (skipn cur f)) by assumption.
        rewrite sub_firstn_skipn. simpl. f_equal. rewrite IH.
        * do 3 f_equal. apply skipn_advance.
        * rewrite firstn_length, skipn_length. lia.
      + rewrite skipn_all2 by lia. reflexivity.
  Qed.

  Lemma whole_intra_encode_eq f : whole_intra_encode k enc f = concat (map enc (chunks k f)).
  Proof. unfold whole_intra_encode. rewrite stream_encode_eq by lia. reflexivity. Qed.

  Hypothesis enc_len : forall m, (length m <= k)%nat -> length (enc m) = es.

  Lemma enc_chunks_len f : Forall (fun x => length x = es) (map enc (chunks k f)).
  Proof.
    apply Forall_map. eapply Forall_impl; [|apply chunks_le; exact k_pos]. intros c Hc. apply enc_len. exact Hc.
  Qed.

  Lemma encode_length f : length (concat (map enc (chunks k f))) = (length (chunks k f) * es)%nat.
  Proof.
    rewrite (concat_uniform_length es) by apply enc_chunks_len. rewrite map_length. reflexivity.
  Qed.

  (* the blocks of a freshly generated field: every chunk with its own parity *)
  Lemma blocks_generated f : (1 <= es)%nat ->
    intra_blocks k es f (concat (map enc (chunks k f))) = map (fun m => (m, enc m)) (chunks k f).
  Proof.
    intros He. unfold intra_blocks. rewrite chunks_concat_uniform by (auto using enc_chunks_len).
    induction (chunks k f) as [|m ms IH]; [reflexivity|]. simpl. rewrite IH. reflexivity.
  Qed.
End Layout.

(* ================================================================== the codec: round-trip and repair of one field *)

Lemma hamming_refl a : hamming a a = 0%nat.
Proof. induction a as [|x a IH]; [reflexivity|]. simpl. rewrite byte_eqb_refl, IH. reflexivity. Qed.

Lemma hamming_zero a : forall b, length a = length b -> hamming a b = 0%nat -> a = b.
Proof.
  induction a as [|x a IH]; intros [|y b] Hl H; try discriminate; [reflexivity|].
  simpl in H. destruct (byte_eqb_spec x y) as [->|]; [|lia].
  f_equal. apply IH; [simpl in Hl; lia|lia].
Qed.

Lemma correct_blocks_cons chk dec b bl :
  correct_blocks chk dec (b :: bl) =
  (fst (fst (correct_block chk dec b)) ++ fst (fst (correct_blocks chk dec bl)),
   snd (fst (correct_block chk dec b)) || snd (fst (correct_blocks chk dec bl)),
   snd (correct_block chk dec b) && snd (correct_blocks chk dec bl)).
Proof. reflexivity. Qed.

Lemma map_pair_combine (enc : list byte -> list byte) ms :
  map (fun m => (m, enc m)) ms = combine ms (map enc ms).
Proof. induction ms as [|m ms IH]; [reflexivity|]. simpl. rewrite IH. reflexivity. Qed.

Section Codec.
  Variables (k es : nat).
  Variable enc : list byte -> list byte.
  Variable chk : list byte -> list byte -> bool.
  Variable dec : list byte -> list byte -> option (list byte * list byte).
  Hypothesis k_pos : (1 <= k)%nat.
  Hypothesis enc_len : forall m, (length m <= k)%nat -> length (enc m) = es.
  Hypothesis chk_enc : forall m, (length m <= k)%nat -> chk m (enc m) = true.

  Notation cblocks := (correct_blocks chk dec).
  Notation cblock := (correct_block chk dec).
  Notation samelen := (fun x y : list byte => length x = length y).
  Notation bound := (fun b' b : list byte * list byte =>
                       (hamming (fst b') (fst b) + hamming (snd b') (snd b) <= es / 2)%nat).

  Lemma correct_clean ms : Forall (fun m => (length m <= k)%nat) ms ->
    cblocks (map (fun m => (m, enc m)) ms) = (concat ms, false, true).
  Proof.
    intros H. induction H as [|m ms Hm _ IH]; [reflexivity|].
    simpl map. rewrite correct_blocks_cons, IH. unfold correct_block. rewrite chk_enc by exact Hm. reflexivity.
  Qed.

  (* undamaged: the field comes back, nothing reported *)
  Lemma field_roundtrip f :
    cblocks (intra_blocks k es f (concat (map enc (chunks k f)))) = (f, false, true) \/ es = 0%nat.
  Proof.
    destruct es as [|es'] eqn:E; [right; reflexivity|left]. rewrite <- E in *.
    rewrite (blocks_generated k es enc k_pos enc_len) by lia.
    rewrite correct_clean by (apply chunks_le; exact k_pos). rewrite concat_chunks by exact k_pos. reflexivity.
  Qed.

  Hypothesis chk_detect : forall m m' c', (length m <= k)%nat -> length m' = length m -> length c' = es ->
    (0 < hamming m' m + hamming c' (enc m) <= es)%nat -> chk m' c' = false.
  Hypothesis dec_complete : forall m m' c', (length m <= k)%nat -> length m' = length m -> length c' = es ->
    (hamming m' m + hamming c' (enc m) <= es / 2)%nat -> dec m' c' = Some (m, enc m).

  Lemma correct_block_ok m m' c' : (length m <= k)%nat -> length m' = length m -> length c' = es ->
    (hamming m' m + hamming c' (enc m) <= es / 2)%nat ->
    exists fl, cblock (m', c') = (m, fl, true) /\ (fl = false <-> (m' = m /\ c' = enc m)).
  Proof.
    intros Hm Hl Hc Hd. unfold correct_block. destruct (chk m' c') eqn:E.
    - assert (D0 : (hamming m' m + hamming c' (enc m) = 0)%nat).
      { destruct (Nat.eq_dec (hamming m' m + hamming c' (enc m)) 0) as [D|D]; [exact D|].
        rewrite (chk_detect m m' c') in E; [discriminate|exact Hm|exact Hl|exact Hc|].
        split; [lia|]. assert (es / 2 <= es)%nat by (apply Nat.div_le_upper_bound; lia). lia. }
      assert (E1 : m' = m) by (apply hamming_zero; [exact Hl|lia]).
      assert (E2 : c' = enc m) by (apply hamming_zero; [rewrite enc_len by exact Hm; exact Hc|lia]).
      exists false. subst. split; [reflexivity|]. split; auto.
    - rewrite (dec_complete m m' c') by assumption. rewrite chk_enc by exact Hm.
      exists true. split; [reflexivity|]. split; [discriminate|].
      intros [-> ->]. rewrite chk_enc in E by exact Hm. discriminate.
  Qed.

  Lemma correct_damaged ms : forall ms' cs', Forall (fun m => (length m <= k)%nat) ms ->
    Forall2 samelen ms' ms -> Forall2 samelen cs' (map enc ms) ->
    Forall2 bound (combine ms' cs') (combine ms (map enc ms)) ->
    exists fl, cblocks (combine ms' cs') = (concat ms, fl, true) /\ (fl = false <-> (ms' = ms /\ cs' = map enc ms)).
  Proof.
    induction ms as [|m ms IH]; intros ms' cs' Hk H1 H2 Hb.
    - inversion H1; subst. inversion H2; subst. exists false. split; [reflexivity|]. split; auto.
    - inversion H1 as [|m' ? ms0' ? Hm1 Hms1]; subst. simpl in H2. inversion H2 as [|c' ? cs0' ? Hc1 Hcs1]; subst.
      inversion Hk as [|? ? Hkm Hkms]; subst.
      simpl in Hb. inversion Hb as [|? ? ? ? Hb1 Hbs]; subst. simpl in Hb1.
      rewrite enc_len in Hc1 by exact Hkm.
      destruct (correct_block_ok m m' c' Hkm Hm1 Hc1 Hb1) as (fl1 & E1 & F1).
      destruct (IH ms0' cs0' Hkms Hms1 Hcs1 Hbs) as (fl2 & E2 & F2).
      exists (fl1 || fl2). simpl combine. rewrite correct_blocks_cons, E1, E2. simpl. split; [reflexivity|].
      rewrite orb_false_iff, F1, F2. split.
      + intros [[-> ->] [-> ->]]. auto.
      + intros [A B]. inversion A; inversion B; subst. auto.
  Qed.

  (* damaged within the bound: the original field comes back, reported as corrected; the
     `corrupted` flag is raised exactly when something differs *)
  Lemma field_repair f f' e' : (1 <= es)%nat ->
    within_bound k es f f' (concat (map enc (chunks k f))) e' ->
    exists fl, cblocks (intra_blocks k es f' e') = (f, fl, true) /\
               (fl = false <-> (f' = f /\ e' = concat (map enc (chunks k f)))).
  Proof.
    intros He (Hf & Hel & Hb).
    rewrite (blocks_generated k es enc k_pos enc_len f He) in Hb.
    assert (Hgen : chunks es (concat (map enc (chunks k f))) = map enc (chunks k f)).
    { apply chunks_concat_uniform; [exact He|apply (enc_chunks_len k es enc k_pos enc_len)]. }
    assert (Hb' : Forall2 bound (combine (chunks k f') (chunks es e')) (combine (chunks k f) (map enc (chunks k f)))).
    { rewrite <- map_pair_combine. exact Hb. }
    destruct (correct_damaged (chunks k f) (chunks k f') (chunks es e')) as (fl & E & F).
    - apply chunks_le; exact k_pos.
    - apply chunks_shape; [exact k_pos|exact Hf].
    - rewrite <- Hgen. apply chunks_shape; [exact He|exact Hel].
    - exact Hb'.
    - exists fl. unfold intra_blocks. rewrite E, concat_chunks by exact k_pos. split; [reflexivity|].
      rewrite F. split.
      + intros [A B]. split.
        * rewrite <- (concat_chunks k f' k_pos), A. apply concat_chunks; exact k_pos.
        * rewrite <- (concat_chunks es e' He), B. reflexivity.
      + intros [-> ->]. split; [reflexivity|exact Hgen].
  Qed.
End Codec.

(* chk_detect follows from soundness of the check plus the minimum distance of the code *)
Lemma chk_detect_from_distance (k es : nat) (enc : list byte -> list byte) (chk : list byte -> list byte -> bool) :
  (forall m c, (length m <= k)%nat -> length c = es -> chk m c = true -> c = enc m) ->
  (forall m1 m2, (length m1 <= k)%nat -> length m2 = length m1 -> m1 <> m2 ->
                 (es < hamming m1 m2 + hamming (enc m1) (enc m2))%nat) ->
  forall m m' c', (length m <= k)%nat -> length m' = length m -> length c' = es ->
    (0 < hamming m' m + hamming c' (enc m) <= es)%nat -> chk m' c' = false.
Proof.
  intros Hsound Hdist m m' c' Hm Hl Hc [Hpos Hle].
  destruct (chk m' c') eqn:E; [|reflexivity]. exfalso.
  assert (Hm' : (length m' <= k)%nat) by lia.
  pose proof (Hsound m' c' Hm' Hc E) as ->.
  destruct (list_eq_dec byte_eq_dec m' m) as [->|Hne].
  - rewrite !hamming_refl in Hpos. lia.
  - pose proof (Hdist m' m Hm' (eq_sym Hl) Hne). lia.
Qed.

(* ================================================================== find, slices, entry_fields *)

Lemma prefixb_app d a r : (length d <= length a)%nat -> prefixb d (a ++ r) = prefixb d a.
Proof.
  revert a. induction d as [|x d IH]; intros a H; [reflexivity|].
  destruct a as [|y a]; [simpl in H; lia|]. simpl. rewrite IH by (simpl in H; lia). reflexivity.
Qed.

Lemma prefixb_self d r : prefixb d (d ++ r) = true.
Proof. induction d as [|x d IH]; [reflexivity|]. simpl. rewrite byte_eqb_refl, IH. reflexivity. Qed.

Lemma find_aux_shift d s : forall off, find_aux d s (S off) = option_map S (find_aux d s off).
Proof.
  induction s as [|c s IH]; intros off; simpl.
  - destruct (prefixb d []); reflexivity.
  - destruct (prefixb d (c :: s)); [reflexivity|]. apply IH.
Qed.

Lemma find_aux_hit d s off : prefixb d s = true -> find_aux d s off = Some off.
Proof. intros H. destruct s; simpl; rewrite H; reflexivity. Qed.

Lemma clean_tail d c x : clean d (c :: x) = true -> prefixb d (c :: x ++ d) = false /\ clean d x = true.
Proof.
  unfold clean. simpl app. simpl find_aux.
  destruct (prefixb d (c :: x ++ d)) eqn:E; [simpl; discriminate|].
  rewrite find_aux_shift. destruct (find_aux d (x ++ d) 0) as [i|]; simpl; [|discriminate].
  intros H. split; [reflexivity|]. apply Nat.eqb_eq in H. apply Nat.eqb_eq. lia.
Qed.

(* the first occurrence of d in x ++ d ++ r is the one after x *)
Lemma find_aux_clean d x r : clean d x = true -> forall off,
  find_aux d (x ++ d ++ r) off = Some (off + length x)%nat.
Proof.
  induction x as [|c x IH]; intros Hc off.
  - change ([] ++ d ++ r) with (d ++ r). rewrite (find_aux_hit d (d ++ r) off (prefixb_self d r)). f_equal. simpl. lia.
  - destruct (clean_tail d c x Hc) as [Hp Hx].
    simpl app. simpl find_aux.
    replace (c :: x ++ d ++ r) with ((c :: x ++ d) ++ r) by (simpl; rewrite <- app_assoc; reflexivity).
    rewrite prefixb_app by (simpl; rewrite app_length; lia). rewrite Hp.
    replace ((c :: x ++ d) ++ r) with (c :: x ++ d ++ r) by (simpl; rewrite <- app_assoc; reflexivity).
    rewrite (IH Hx). f_equal. simpl. lia.
Qed.

Lemma zlen_app a b : zlen (a ++ b) = (zlen a + zlen b)%Z.
Proof. unfold zlen. rewrite app_length. lia. Qed.

Lemma zlen_nonneg a : (0 <= zlen a)%Z.
Proof. unfold zlen. lia. Qed.

Lemma py_find_at d a x r : clean d x = true ->
  py_find d (a ++ x ++ d ++ r) (zlen a) = (zlen a + zlen x)%Z.
Proof.
  intros Hc. unfold py_find. pose proof (zlen_nonneg a) as Ha.
  destruct (Z.ltb_spec (zlen a) 0) as [H|_]; [lia|].
  destruct (Z.ltb_spec (zlen (a ++ x ++ d ++ r)) (zlen a)) as [H|_].
  { rewrite zlen_app in H. pose proof (zlen_nonneg (x ++ d ++ r)). lia. }
  unfold zlen at 1 2. rewrite Nat2Z.id. rewrite skipn_app, Nat.sub_diag, skipn_all. simpl skipn. change ([] ++ x ++ d ++ r) with (x ++ d ++ r).
  rewrite find_aux_clean by exact Hc. unfold zlen. lia.
Qed.

Lemma py_slice_at a x r : py_slice (a ++ x ++ r) (zlen a) (zlen a + zlen x) = x.
Proof.
  unfold py_slice, py_norm. pose proof (zlen_nonneg a). pose proof (zlen_nonneg x). pose proof (zlen_nonneg r).
  rewrite !zlen_app.
  destruct (Z.ltb_spec (zlen a) 0); [lia|]. destruct (Z.ltb_spec (zlen a + zlen x) 0); [lia|].
  rewrite !Z.min_l by lia.
  replace (zlen a + zlen x - zlen a)%Z with (zlen x) by lia.
  unfold zlen. rewrite !Nat2Z.id. rewrite skipn_app, Nat.sub_diag, skipn_all. simpl.
  rewrite firstn_app, Nat.sub_diag, firstn_all. simpl. apply app_nil_r.
Qed.

Lemma py_find_at0 d x r : clean d x = true -> py_find d (x ++ d ++ r) 0 = zlen x.
Proof. intros Hc. exact (py_find_at d [] x r Hc). Qed.

Lemma py_slice_at0 x r : py_slice_to (x ++ r) (zlen x) = x.
Proof. exact (py_slice_at [] x r). Qed.

Lemma py_slice_from_at a r : py_slice_from (a ++ r) (zlen a) = r.
Proof.
  unfold py_slice_from. pose proof (py_slice_at a r []) as H. rewrite app_nil_r in H.
  rewrite zlen_app. exact H.
Qed.

Lemma strip_delim_none fuel d e : prefixb d e = false -> strip_delim fuel d e = e.
Proof. intros H. destruct fuel; [reflexivity|]. simpl. destruct d; [reflexivity|]. rewrite H. reflexivity. Qed.

Lemma clean_no_prefix d x r : nonempty x = true -> clean d x = true -> prefixb d (x ++ d ++ r) = false.
Proof.
  intros Hn Hc. destruct x as [|c x]; [discriminate|].
  destruct (clean_tail d c x Hc) as [Hp _].
  replace ((c :: x) ++ d ++ r) with ((c :: x ++ d) ++ r) by (simpl; rewrite <- app_assoc; reflexivity).
  rewrite prefixb_app by (simpl; rewrite app_length; lia). exact Hp.
Qed.

(* entry_fields on an unambiguous entry finds exactly the four fields and the start of the block track *)
Lemma entry_fields_core_ok d p s pe se rest : unambiguous d p s pe se = true ->
  entry_fields_core d (p ++ d ++ s ++ d ++ pe ++ d ++ se ++ d ++ rest) =
  mkFields p s pe se (zlen (p ++ d ++ s ++ d ++ pe ++ d ++ se ++ d)) (p ++ d ++ s ++ d ++ pe ++ d ++ se ++ d ++ rest).
Proof.
  unfold unambiguous. rewrite !andb_true_iff. intros [[[[Hn Hp] Hs] Hpe] Hse].
  set (e := p ++ d ++ s ++ d ++ pe ++ d ++ se ++ d ++ rest).
  unfold entry_fields_core.
  rewrite strip_delim_none by (apply clean_no_prefix; assumption).
  pose proof (py_find_at0 d p (s ++ d ++ pe ++ d ++ se ++ d ++ rest) Hp) as F1.
  fold e in F1. rewrite F1. clear F1.
  assert (E2 : e = (p ++ d) ++ s ++ d ++ (pe ++ d ++ se ++ d ++ rest)) by (unfold e; rewrite <- !app_assoc; reflexivity).
  pose proof (py_find_at d (p ++ d) s (pe ++ d ++ se ++ d ++ rest) Hs) as F2. rewrite <- E2 in F2.
  rewrite zlen_app in F2. rewrite F2. clear F2.
  assert (E3 : e = (p ++ d ++ s ++ d) ++ pe ++ d ++ (se ++ d ++ rest)) by (unfold e; rewrite <- !app_assoc; reflexivity).
  pose proof (py_find_at d (p ++ d ++ s ++ d) pe (se ++ d ++ rest) Hpe) as F3. rewrite <- E3 in F3.
  rewrite !zlen_app in F3.
  replace (zlen p + zlen d + zlen s + zlen d)%Z with (zlen p + (zlen d + (zlen s + zlen d)))%Z by lia.
  rewrite F3. clear F3.
  assert (E4 : e = (p ++ d ++ s ++ d ++ pe ++ d) ++ se ++ d ++ rest) by (unfold e; rewrite <- !app_assoc; reflexivity).
  pose proof (py_find_at d (p ++ d ++ s ++ d ++ pe ++ d) se rest Hse) as F4. rewrite <- E4 in F4.
  rewrite !zlen_app in F4.
  replace (zlen p + (zlen d + (zlen s + zlen d)) + zlen pe + zlen d)%Z
    with (zlen p + (zlen d + (zlen s + (zlen d + (zlen pe + zlen d)))))%Z by lia.
  rewrite F4. clear F4.
  f_equal.
  - exact (py_slice_at0 p (d ++ s ++ d ++ pe ++ d ++ se ++ d ++ rest)).
  - pose proof (py_slice_at (p ++ d) s (d ++ pe ++ d ++ se ++ d ++ rest)) as S2.
    replace ((p ++ d) ++ s ++ d ++ pe ++ d ++ se ++ d ++ rest) with e in S2 by (unfold e; rewrite <- !app_assoc; reflexivity).
    rewrite zlen_app in S2. rewrite <- S2 at 2. f_equal; lia.
  - pose proof (py_slice_at (p ++ d ++ s ++ d) pe (d ++ se ++ d ++ rest)) as S3.
    replace ((p ++ d ++ s ++ d) ++ pe ++ d ++ se ++ d ++ rest) with e in S3 by (unfold e; rewrite <- !app_assoc; reflexivity).
    rewrite !zlen_app in S3. rewrite <- S3 at 2. f_equal; lia.
  - pose proof (py_slice_at (p ++ d ++ s ++ d ++ pe ++ d) se (d ++ rest)) as S4.
    replace ((p ++ d ++ s ++ d ++ pe ++ d) ++ se ++ d ++ rest) with e in S4 by (unfold e; rewrite <- !app_assoc; reflexivity).
    rewrite !zlen_app in S4. rewrite <- S4 at 2. f_equal; lia.
  - rewrite !zlen_app. lia.
Qed.

(* ================================================================== decimal text *)

Lemma int_digits_uint u : forall b, (u <> Nil \/ b = true) -> int_digits (bytes_of_uint u) b = Some u.
Proof.
  induction u; intros b H; simpl;
    try (rewrite IHu by (right; reflexivity); reflexivity).
  destruct H as [H| ->]; [congruence|reflexivity].
Qed.

Lemma bytes_of_uint_head u : u <> Nil ->
  exists c t, bytes_of_uint u = c :: t /\ is_space c = false /\ c <> x2d /\ c <> x2b.
Proof.
  destruct u; intros H; [congruence| | | | | | | | | |]; simpl; eexists; eexists; (split; [reflexivity|]); (split; [reflexivity|]); split; discriminate.
Qed.

Lemma N_to_uint_nonnil n : N.to_uint n <> Nil.
Proof. destruct n; [discriminate|]. apply Unsigned.to_uint_nonnil. Qed.

Lemma py_int_decimal n : py_int (decimal n) = Some (Z.of_N n).
Proof.
  unfold py_int, decimal. pose proof (N_to_uint_nonnil n) as Hn.
  destruct (bytes_of_uint_head _ Hn) as (c & t & E & Hs & H1 & H2).
  rewrite E. simpl lstrip_space. rewrite Hs.
  assert (X : (match c :: t with x2d :: r => (true, r) | x2b :: r => (false, r) | _ => (false, c :: t) end) = (false, c :: t)).
  { destruct c; try reflexivity; congruence. }
  rewrite X, <- E. rewrite int_digits_uint by (left; exact Hn).
  rewrite DecimalN.Unsigned.of_to. reflexivity.
Qed.

Lemma bytes_of_uint_digits u : Forall (fun c => c <> xfa) (bytes_of_uint u).
Proof. induction u; simpl; constructor; try discriminate; assumption. Qed.

Lemma clean_no_head h d x : Forall (fun c => c <> h) x -> clean (h :: d) x = true.
Proof.
  intros H. unfold clean. induction H as [|c x Hc _ IH].
  - simpl app. pose proof (prefixb_self (h :: d) []) as P. rewrite app_nil_r in P.
    rewrite find_aux_hit by exact P. reflexivity.
  - simpl app. simpl find_aux.
    destruct (byte_eqb_spec h c) as [->|_]; [congruence|]. simpl.
    rewrite find_aux_shift. destruct (find_aux (h :: d) (x ++ h :: d) 0); [|discriminate].
    simpl. exact IH.
Qed.

Lemma clean_decimal n : clean field_delim (decimal n) = true.
Proof. apply clean_no_head. apply bytes_of_uint_digits. Qed.

Lemma nonempty_decimal n : decimal n <> [].
Proof.
  unfold decimal. destruct (bytes_of_uint_head _ (N_to_uint_nonnil n)) as (c & t & E & _). rewrite E. discriminate.
Qed.

(* ================================================================== the metadata of one entry, both tools *)

Lemma core_join d p s pe se rest : unambiguous d p s pe se = true ->
  entry_fields_core d (join_meta d p s pe se ++ rest) =
  mkFields p s pe se (zlen (join_meta d p s pe se)) (join_meta d p s pe se ++ rest).
Proof.
  intros H. unfold join_meta. rewrite <- !app_assoc. apply entry_fields_core_ok. exact H.
Qed.

Lemma hdr_fields_join d p s pe se rest : unambiguous d p s pe se = true ->
  hdr_entry_fields d (join_meta d p s pe se ++ rest) = (p, s, pe, se, rest).
Proof.
  intros H. unfold hdr_entry_fields. rewrite core_join by exact H. simpl.
  rewrite py_slice_from_at. reflexivity.
Qed.

Lemma whole_fields_join bs d pre p s pe se rest pos1 : unambiguous d p s pe se = true ->
  (length (join_meta d p s pe se) <= bs)%nat ->
  whole_entry_fields bs d (pre ++ join_meta d p s pe se ++ rest) (zlen pre) pos1 =
  (p, s, pe, se, ((zlen pre + zlen (join_meta d p s pe se))%Z, pos1)).
Proof.
  intros H Hb.
  assert (E : firstn bs (skipn (Z.to_nat (zlen pre)) (pre ++ join_meta d p s pe se ++ rest)) =
              join_meta d p s pe se ++ firstn (bs - length (join_meta d p s pe se)) rest).
  { unfold zlen. rewrite Nat2Z.id, skipn_app, Nat.sub_diag, skipn_all. simpl skipn.
    change ([] ++ join_meta d p s pe se ++ rest) with (join_meta d p s pe se ++ rest).
    rewrite firstn_app. rewrite (firstn_all2 (n := bs)) by exact Hb. reflexivity. }
  unfold whole_entry_fields. rewrite E, core_join by exact H. reflexivity.
Qed.

Section Meta.
  Variables (k es : nat).
  Variable enc : list byte -> list byte.
  Variable chk : list byte -> list byte -> bool.
  Variable dec : list byte -> list byte -> option (list byte * list byte).
  Hypothesis k_pos : (1 <= k)%nat.
  Hypothesis enc_len : forall m, (length m <= k)%nat -> length (enc m) = es.
  Hypothesis chk_enc : forall m, (length m <= k)%nat -> chk m (enc m) = true.
  Notation D := field_delim.

  Lemma hdr_intra_roundtrip f : hdr_intra_correct k es chk dec f (hdr_intra_encode k enc f) = (f, false, true).
  Proof.
    unfold hdr_intra_correct. destruct (Nat.eqb_spec es 0) as [E|E]; [reflexivity|].
    rewrite hdr_blocks_eq by (auto; lia). rewrite hdr_intra_encode_eq by exact k_pos.
    destruct (field_roundtrip k es enc chk dec k_pos enc_len chk_enc f) as [H|H]; [exact H|lia].
  Qed.

  Lemma whole_intra_roundtrip f : whole_intra_correct k es chk dec f (whole_intra_encode k enc f) = (f, false, true).
  Proof.
    unfold whole_intra_correct. destruct (Nat.eqb_spec es 0) as [E|E]; [reflexivity|].
    rewrite whole_blocks_eq by (auto; lia). rewrite whole_intra_encode_eq by exact k_pos.
    destruct (field_roundtrip k es enc chk dec k_pos enc_len chk_enc f) as [H|H]; [exact H|lia].
  Qed.

  Lemma format_meta_join ie d path size :
    format_meta ie d path size = join_meta d path (decimal size) (ie path) (ie (decimal size)).
  Proof. reflexivity. Qed.

  Lemma hdr_meta_roundtrip path size rest :
    unambiguous D path (decimal size) (hdr_intra_encode k enc path) (hdr_intra_encode k enc (decimal size)) = true ->
    hdr_entry_meta k es chk dec D (format_meta (hdr_intra_encode k enc) D path size ++ rest) =
    ((path, false, true), (decimal size, false, true), Some (Z.of_N size), rest).
  Proof.
    intros H. unfold hdr_entry_meta. rewrite format_meta_join, hdr_fields_join by exact H.
    rewrite !hdr_intra_roundtrip. simpl. rewrite py_int_decimal. reflexivity.
  Qed.

  Lemma whole_meta_roundtrip bs pre path size rest pos1 :
    unambiguous D path (decimal size) (whole_intra_encode k enc path) (whole_intra_encode k enc (decimal size)) = true ->
    (length (format_meta (whole_intra_encode k enc) D path size) <= bs)%nat ->
    whole_entry_meta k es chk dec bs D (pre ++ format_meta (whole_intra_encode k enc) D path size ++ rest) (zlen pre) pos1 =
    ((path, false, true), (decimal size, false, true), Some (Z.of_N size),
     ((zlen pre + zlen (format_meta (whole_intra_encode k enc) D path size))%Z, pos1)).
  Proof.
    intros H Hb. unfold whole_entry_meta. rewrite format_meta_join in *. rewrite whole_fields_join by assumption.
    rewrite !whole_intra_roundtrip. simpl. rewrite py_int_decimal. reflexivity.
  Qed.

  Hypothesis es_pos : (1 <= es)%nat.
  Hypothesis chk_detect : forall m m' c', (length m <= k)%nat -> length m' = length m -> length c' = es ->
    (0 < hamming m' m + hamming c' (enc m) <= es)%nat -> chk m' c' = false.
  Hypothesis dec_complete : forall m m' c', (length m <= k)%nat -> length m' = length m -> length c' = es ->
    (hamming m' m + hamming c' (enc m) <= es / 2)%nat -> dec m' c' = Some (m, enc m).

  Lemma hdr_intra_repair f f' e' : within_bound k es f f' (hdr_intra_encode k enc f) e' ->
    exists fl, hdr_intra_correct k es chk dec f' e' = (f, fl, true) /\
               (fl = false <-> (f' = f /\ e' = hdr_intra_encode k enc f)).
  Proof.
    intros H. unfold hdr_intra_correct. destruct (Nat.eqb_spec es 0) as [E|E]; [lia|].
    rewrite hdr_blocks_eq by assumption. rewrite hdr_intra_encode_eq in * by exact k_pos.
    apply (field_repair k es enc chk dec k_pos enc_len chk_enc chk_detect dec_complete f f' e' es_pos H).
  Qed.

  Lemma whole_intra_repair f f' e' : within_bound k es f f' (whole_intra_encode k enc f) e' ->
    exists fl, whole_intra_correct k es chk dec f' e' = (f, fl, true) /\
               (fl = false <-> (f' = f /\ e' = whole_intra_encode k enc f)).
  Proof.
    intros H. unfold whole_intra_correct. destruct (Nat.eqb_spec es 0) as [E|E]; [lia|].
    rewrite whole_blocks_eq by assumption. rewrite whole_intra_encode_eq in * by exact k_pos.
    apply (field_repair k es enc chk dec k_pos enc_len chk_enc chk_detect dec_complete f f' e' es_pos H).
  Qed.

  Lemma hdr_meta_repair path size path' size' pecc' secc' rest :
    within_bound k es path path' (hdr_intra_encode k enc path) pecc' ->
    within_bound k es (decimal size) size' (hdr_intra_encode k enc (decimal size)) secc' ->
    unambiguous D path' size' pecc' secc' = true ->
    exists fp fs,
      hdr_entry_meta k es chk dec D (join_meta D path' size' pecc' secc' ++ rest) =
      ((path, fp, true), (decimal size, fs, true), Some (Z.of_N size), rest) /\
      (fp = false <-> (path' = path /\ pecc' = hdr_intra_encode k enc path)) /\
      (fs = false <-> (size' = decimal size /\ secc' = hdr_intra_encode k enc (decimal size))).
  Proof.
    intros Hp Hs Hu. destruct (hdr_intra_repair _ _ _ Hp) as (fp & Ep & Fp). destruct (hdr_intra_repair _ _ _ Hs) as (fs & Es & Fs).
    exists fp, fs. unfold hdr_entry_meta. rewrite hdr_fields_join by exact Hu. rewrite Ep, Es. simpl.
    rewrite py_int_decimal. auto.
  Qed.

  Lemma whole_meta_repair bs pre path size path' size' pecc' secc' rest pos1 :
    within_bound k es path path' (whole_intra_encode k enc path) pecc' ->
    within_bound k es (decimal size) size' (whole_intra_encode k enc (decimal size)) secc' ->
    unambiguous D path' size' pecc' secc' = true ->
    (length (join_meta D path' size' pecc' secc') <= bs)%nat ->
    exists fp fs,
      whole_entry_meta k es chk dec bs D (pre ++ join_meta D path' size' pecc' secc' ++ rest) (zlen pre) pos1 =
      ((path, fp, true), (decimal size, fs, true), Some (Z.of_N size),
       ((zlen pre + zlen (join_meta D path' size' pecc' secc'))%Z, pos1)) /\
      (fp = false <-> (path' = path /\ pecc' = whole_intra_encode k enc path)) /\
      (fs = false <-> (size' = decimal size /\ secc' = whole_intra_encode k enc (decimal size))).
  Proof.
    intros Hp Hs Hu Hb. destruct (whole_intra_repair _ _ _ Hp) as (fp & Ep & Fp). destruct (whole_intra_repair _ _ _ Hs) as (fs & Es & Fs).
    exists fp, fs. unfold whole_entry_meta. rewrite whole_fields_join by assumption. rewrite Ep, Es. simpl.
    rewrite py_int_decimal. auto.
  Qed.
End Meta.
