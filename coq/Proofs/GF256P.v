(* GF256P.v — GF(2^8) is a field, for both instances F3 and F4.
   Finite facts are proved by reflection over the WHOLE finite domain (all 256 bytes, all
   65 536 pairs); associativity and distributivity are then derived structurally
   (log/exp representation; bit-linearity of the multiply). *)
From Coq Require Import List NArith Bool Arith Lia Ring.
From Coq Require Import Strings.Byte.
From PFF Require Import Bytes GF256.
Import ListNotations.

(* ------------------------------------------------------------------ *)
(* every byte is in all_bytes; lifting boolean sweeps                   *)
(* ------------------------------------------------------------------ *)
Lemma all_bytes_def : all_bytes = map byte_of_N (map N.of_nat (seq 0 256)).
Proof. vm_compute. reflexivity. Qed.

Lemma in_all_bytes (a : byte) : In a all_bytes.
Proof.
  rewrite all_bytes_def. apply in_map_iff. exists (N_of_byte a). split; [apply byte_of_N_of_byte|].
  apply in_map_iff. exists (N.to_nat (N_of_byte a)). split; [apply N2Nat.id|].
  apply in_seq. pose proof (Byte.to_N_bounded a) as H. unfold N_of_byte. lia.
Qed.

Definition all1 (P : byte -> bool) : bool := forallb P all_bytes.
Definition all2 (P : byte -> byte -> bool) : bool := forallb (fun a => forallb (P a) all_bytes) all_bytes.

Lemma all1_spec P : all1 P = true -> forall a, P a = true.
Proof. unfold all1. intros H a. rewrite forallb_forall in H. apply H, in_all_bytes. Qed.
Lemma all2_spec P : all2 P = true -> forall a b, P a b = true.
Proof.
  unfold all2. intros H a b. rewrite forallb_forall in H. specialize (H a (in_all_bytes a)).
  rewrite forallb_forall in H. apply H, in_all_bytes.
Qed.

Lemma beq_eq a b : byte_eqb a b = true -> a = b.
Proof. destruct (byte_eqb_spec a b); [auto|discriminate]. Qed.
Lemma beq_refl a : byte_eqb a a = true.
Proof. destruct (byte_eqb_spec a a); [reflexivity|contradiction]. Qed.

Lemma N_of_byte_inj a b : N_of_byte a = N_of_byte b -> a = b.
Proof. intro H. rewrite <- (byte_of_N_of_byte a), <- (byte_of_N_of_byte b), H. reflexivity. Qed.

(* ------------------------------------------------------------------ *)
(* addition = xor                                                       *)
(* ------------------------------------------------------------------ *)
Lemma badd_N a b : N_of_byte (badd a b) = N.lxor (N_of_byte a) (N_of_byte b).
Proof.
  apply N.eqb_eq.
  exact (all2_spec (fun a b => N.eqb (N_of_byte (badd a b)) (N.lxor (N_of_byte a) (N_of_byte b)))
           ltac:(vm_compute; reflexivity) a b).
Qed.

Lemma badd_comm a b : badd a b = badd b a.
Proof. apply N_of_byte_inj. rewrite !badd_N. apply N.lxor_comm. Qed.
Lemma badd_assoc a b c : badd a (badd b c) = badd (badd a b) c.
Proof. apply N_of_byte_inj. rewrite !badd_N. symmetry. apply N.lxor_assoc. Qed.
Lemma badd_0_l a : badd x00 a = a.
Proof. apply N_of_byte_inj. rewrite badd_N. apply N.lxor_0_l. Qed.
Lemma badd_0_r a : badd a x00 = a.
Proof. rewrite badd_comm. apply badd_0_l. Qed.
Lemma badd_self a : badd a a = x00.
Proof. apply N_of_byte_inj. rewrite badd_N. apply N.lxor_nilpotent. Qed.
Lemma badd_eq0 a b : badd a b = x00 -> a = b.
Proof.
  intro H. rewrite <- (badd_0_r a), <- (badd_self b), badd_assoc, H. apply badd_0_l.
Qed.

Lemma bits8_badd b c : bits8 (badd b c) = map (fun p => xorb (fst p) (snd p)) (combine (bits8 b) (bits8 c)).
Proof.
  unfold bits8. rewrite badd_N. cbn [map combine fst snd]. rewrite !N.lxor_spec. reflexivity.
Qed.

(* ------------------------------------------------------------------ *)
(* xor-sums of selected terms                                           *)
(* ------------------------------------------------------------------ *)
Definition sel (t : bool) (v : byte) : byte := if t then v else x00.
Fixpoint xsum (l : list byte) : byte := match l with [] => x00 | h :: t => badd h (xsum t) end.
Definition selsum (bs : list bool) (vs : list byte) : byte :=
  xsum (map (fun p => sel (fst p) (snd p)) (combine bs vs)).

Lemma selsum_xor : forall vs bs cs, length bs = length vs -> length cs = length vs ->
  selsum (map (fun p => xorb (fst p) (snd p)) (combine bs cs)) vs = badd (selsum bs vs) (selsum cs vs).
Proof.
  unfold selsum. induction vs as [|v vs IH]; intros [|b bs] [|c cs] Hb Hc; try discriminate.
  - cbn [combine map xsum]. rewrite badd_0_l. reflexivity.
  - cbn [combine map xsum fst snd]. rewrite IH by (cbn in *; lia).
    set (X := xsum (map _ (combine bs vs))). set (Y := xsum (map _ (combine cs vs))).
    assert (E : sel (xorb b c) v = badd (sel b v) (sel c v)).
    { destruct b, c; cbn [sel xorb]; rewrite ?badd_self, ?badd_0_l, ?badd_0_r; reflexivity. }
    rewrite E.
    rewrite <- !badd_assoc. f_equal. rewrite !badd_assoc. f_equal. apply badd_comm.
Qed.

(* ------------------------------------------------------------------ *)
(* the field laws, from the finite facts of one instance                *)
(* ------------------------------------------------------------------ *)
Definition gexp (tab : list byte) (i : nat) : byte := nth i tab x00.
Definition glog (tab : list byte) (a : byte) : nat := index_of a tab.
Definition bz (a : byte) : bool := byte_eqb a x00.

Fixpoint bytes_eqb (a b : list byte) : bool :=
  match a, b with
  | [], [] => true
  | x :: a', y :: b' => byte_eqb x y && bytes_eqb a' b'
  | _, _ => false
  end.
Lemma bytes_eqb_eq : forall a b, bytes_eqb a b = true -> a = b.
Proof.
  induction a as [|x a IH]; intros [|y b] H; try discriminate; [reflexivity|].
  cbn [bytes_eqb] in H. apply andb_prop in H. destruct H as [H1 H2].
  f_equal; [apply beq_eq; exact H1 | apply IH; exact H2].
Qed.

Definition gf_ok (f : gf) (tab : list byte) : bool :=
  all2 (fun a b => byte_eqb (bmul f a b) (bmul f b a)) &&
  all1 (fun a => byte_eqb (bmul f x01 a) a) &&
  all1 (fun a => byte_eqb (bmul f x00 a) x00) &&
  all2 (fun a b => bz a || bz b || byte_eqb (bmul f a b) (gexp tab ((glog tab a + glog tab b) mod 255))) &&
  forallb (fun i => Nat.eqb (glog tab (gexp tab i)) i && negb (bz (gexp tab i))) (seq 0 255) &&
  all1 (fun a => bz a || (byte_eqb (gexp tab (glog tab a)) a && (glog tab a <? 255))) &&
  all2 (fun a b => byte_eqb (bmul f a b) (selsum (bits8 b) (map (bmul f a) two_pows))) &&
  bytes_eqb tab (exp_list f).

Section Laws.
  Variable f : gf.
  Variable tab : list byte.
  Notation mul := (bmul f).
  Hypothesis OK : gf_ok f tab = true.

  Local Lemma OKs : (all2 (fun a b => byte_eqb (mul a b) (mul b a)) = true /\
    all1 (fun a => byte_eqb (mul x01 a) a) = true /\
    all1 (fun a => byte_eqb (mul x00 a) x00) = true /\
    all2 (fun a b => bz a || bz b || byte_eqb (mul a b) (gexp tab ((glog tab a + glog tab b) mod 255))) = true) /\
    (forallb (fun i => Nat.eqb (glog tab (gexp tab i)) i && negb (bz (gexp tab i))) (seq 0 255) = true /\
    all1 (fun a => bz a || (byte_eqb (gexp tab (glog tab a)) a && (glog tab a <? 255))) = true /\
    all2 (fun a b => byte_eqb (mul a b) (selsum (bits8 b) (map (mul a) two_pows))) = true /\
    tab = exp_list f).
  Proof.
    pose proof OK as H. unfold gf_ok in H. repeat (apply andb_prop in H; destruct H as [H ?]).
    repeat split; try assumption.
    apply bytes_eqb_eq. assumption.
  Qed.
  Let F_comm := proj1 (proj1 OKs).
  Let F_one := proj1 (proj2 (proj1 OKs)).
  Let F_zero := proj1 (proj2 (proj2 (proj1 OKs))).
  Let F_explog := proj2 (proj2 (proj2 (proj1 OKs))).
  Let F_logexp := proj1 (proj2 OKs).
  Let F_explog1 := proj1 (proj2 (proj2 OKs)).
  Let F_bits := proj1 (proj2 (proj2 (proj2 OKs))).
  Let F_tab := proj2 (proj2 (proj2 (proj2 OKs))).

  Lemma mul_comm a b : mul a b = mul b a.
  Proof. apply beq_eq. exact (all2_spec _ F_comm a b). Qed.
  Lemma mul_1_l a : mul x01 a = a.
  Proof. apply beq_eq. exact (all1_spec _ F_one a). Qed.
  Lemma mul_0_l a : mul x00 a = x00.
  Proof. apply beq_eq. exact (all1_spec _ F_zero a). Qed.
  Lemma mul_0_r a : mul a x00 = x00.
  Proof. rewrite mul_comm. apply mul_0_l. Qed.

  Lemma bz_spec a : reflect (a = x00) (bz a).
  Proof. apply byte_eqb_spec. Qed.

  Lemma mul_explog a b : a <> x00 -> b <> x00 ->
    mul a b = gexp tab ((glog tab a + glog tab b) mod 255).
  Proof.
    intros Ha Hb. pose proof (all2_spec _ F_explog a b) as H. cbn beta in H.
    destruct (bz_spec a); [contradiction|]. destruct (bz_spec b); [contradiction|].
    cbn [orb] in H. apply beq_eq. exact H.
  Qed.

  Lemma logexp i : i < 255 -> glog tab (gexp tab i) = i /\ gexp tab i <> x00.
  Proof.
    intro Hi. rewrite forallb_forall in F_logexp. specialize (F_logexp i).
    assert (Hin : In i (seq 0 255)) by (apply in_seq; lia). specialize (F_logexp Hin).
    apply andb_prop in F_logexp. destruct F_logexp as [H1 H2]. split.
    - apply Nat.eqb_eq. exact H1.
    - destruct (bz_spec (gexp tab i)); [discriminate|assumption].
  Qed.

  Lemma explog a : a <> x00 -> gexp tab (glog tab a) = a /\ glog tab a < 255.
  Proof.
    intro Ha. pose proof (all1_spec _ F_explog1 a) as H. cbn beta in H.
    destruct (bz_spec a); [contradiction|]. cbn [orb] in H. apply andb_prop in H. destruct H as [H1 H2].
    split; [apply beq_eq; exact H1| apply Nat.ltb_lt; exact H2].
  Qed.

  Lemma mul_nz a b : a <> x00 -> b <> x00 -> mul a b <> x00.
  Proof.
    intros Ha Hb. rewrite (mul_explog a b Ha Hb). apply logexp. apply Nat.mod_upper_bound. lia.
  Qed.

  Lemma integral a b : mul a b = x00 -> a = x00 \/ b = x00.
  Proof.
    intro H. destruct (bz_spec a) as [|Ha]; [left; assumption|]. destruct (bz_spec b) as [|Hb]; [right; assumption|].
    exfalso. exact (mul_nz a b Ha Hb H).
  Qed.

  Lemma log_mul a b : a <> x00 -> b <> x00 -> glog tab (mul a b) = (glog tab a + glog tab b) mod 255.
  Proof.
    intros Ha Hb. rewrite (mul_explog a b Ha Hb). apply logexp. apply Nat.mod_upper_bound. lia.
  Qed.

  Lemma mul_assoc a b c : mul a (mul b c) = mul (mul a b) c.
  Proof.
    destruct (bz_spec a) as [->|Ha]; [rewrite !mul_0_l; reflexivity|].
    destruct (bz_spec b) as [->|Hb]; [rewrite ?mul_0_l, ?mul_0_r, ?mul_0_l; reflexivity|].
    destruct (bz_spec c) as [->|Hc]; [rewrite !mul_0_r; reflexivity|].
    pose proof (mul_nz b c Hb Hc) as Hbc. pose proof (mul_nz a b Ha Hb) as Hab.
    rewrite (mul_explog a (mul b c) Ha Hbc), (mul_explog (mul a b) c Hab Hc).
    rewrite (log_mul b c Hb Hc), (log_mul a b Ha Hb). f_equal.
    rewrite Nat.add_mod_idemp_r, Nat.add_mod_idemp_l by lia. f_equal. lia.
  Qed.

  (* bit-linearity in the second argument *)
  Lemma mul_bits a b : mul a b = selsum (bits8 b) (map (mul a) two_pows).
  Proof. apply beq_eq. exact (all2_spec _ F_bits a b). Qed.

  Lemma mul_add_r a b c : mul a (badd b c) = badd (mul a b) (mul a c).
  Proof.
    rewrite (mul_bits a (badd b c)), (mul_bits a b), (mul_bits a c), bits8_badd.
    apply selsum_xor; reflexivity.
  Qed.
  Lemma mul_add_l a b c : mul (badd a b) c = badd (mul a c) (mul b c).
  Proof. rewrite mul_comm, mul_add_r, (mul_comm c a), (mul_comm c b). reflexivity. Qed.

  Definition bid (a : byte) : byte := a.
  Lemma gf_ring : ring_theory x00 x01 badd mul badd bid (@eq byte).
  Proof.
    constructor.
    - exact badd_0_l.
    - exact badd_comm.
    - exact badd_assoc.
    - exact mul_1_l.
    - exact mul_comm.
    - exact mul_assoc.
    - exact mul_add_l.
    - reflexivity.
    - exact badd_self.
  Qed.

  (* the generator has order exactly 255: its first 255 powers are pairwise distinct and non-zero *)
  Lemma pow_list_nth : forall n cur i, i < n -> nth i (pow_list f n cur) x00 = mul (bpow f (gf_alpha f) i) cur.
  Proof.
    induction n as [|n IH]; intros cur i Hi; [lia|]. destruct i as [|i]; cbn [pow_list nth bpow].
    - rewrite mul_1_l. reflexivity.
    - rewrite IH by lia. rewrite mul_assoc. f_equal. apply mul_comm.
  Qed.

  Lemma gexp_pow i : i < 255 -> gexp tab i = bpow f (gf_alpha f) i.
  Proof.
    intro Hi. unfold gexp. rewrite F_tab. unfold exp_list. rewrite pow_list_nth by exact Hi.
    rewrite mul_comm. apply mul_1_l.
  Qed.

  Lemma alpha_pow_nz i : i < 255 -> bpow f (gf_alpha f) i <> x00.
  Proof. intro Hi. rewrite <- gexp_pow by exact Hi. apply logexp. exact Hi. Qed.

  Lemma alpha_pow_inj i j : i < 255 -> j < 255 -> bpow f (gf_alpha f) i = bpow f (gf_alpha f) j -> i = j.
  Proof.
    intros Hi Hj H. rewrite <- !gexp_pow in H by assumption.
    destruct (logexp i Hi) as [Ei _]. destruct (logexp j Hj) as [Ej _]. rewrite <- Ei, <- Ej, H. reflexivity.
  Qed.
End Laws.

(* ------------------------------------------------------------------ *)
(* the two instances                                                    *)
(* ------------------------------------------------------------------ *)
Lemma F3_ok : gf_ok F3 exp_tab3 = true.
Proof. vm_compute. reflexivity. Qed.
Lemma F4_ok : gf_ok F4 exp_tab4 = true.
Proof. vm_compute. reflexivity. Qed.

Definition F3_ring := gf_ring F3 exp_tab3 F3_ok.
Definition F4_ring := gf_ring F4 exp_tab4 F4_ok.
Definition F3_integral := integral F3 exp_tab3 F3_ok.
Definition F4_integral := integral F4 exp_tab4 F4_ok.
Definition F3_alpha_inj := alpha_pow_inj F3 exp_tab3 F3_ok.
Definition F4_alpha_inj := alpha_pow_inj F4 exp_tab4 F4_ok.
Definition F3_alpha_nz := alpha_pow_nz F3 exp_tab3 F3_ok.
Definition F4_alpha_nz := alpha_pow_nz F4 exp_tab4 F4_ok.
