(* ScanLink.v — ties the entry-stream model (Stream.v: C08, C13, C03), which scans by the SPECIFICATION
   next_entry / entries_spec, to the model of the real buffered scanner (Scan.v: get_next_entry, C14):
   for every non-empty marker, every block size and every position, one call of the scanner model returns
   exactly Stream.next_entry.  This discharges the assumption "the scanner equals its spec" that the stream
   theorems were built on. *)
From Coq Require Import List Arith Bool Lia.
From Coq Require Import Strings.Byte.
From PFF Require Import Bytes.
From PFF Require Scan Stream Proofs.ScanP.
Import ListNotations.

Lemma prefixb_same m s : Stream.prefixb m s = Scan.prefixb m s.
Proof. reflexivity. Qed.   (* the two definitions are the same fixpoint *)

Lemma find_aux_stream m : forall t i0, Scan.find_aux m t i0 = option_map (fun i => i0 + i) (Stream.find m t).
Proof.
  induction t as [|y t IH]; intro i0; cbn [Scan.find_aux Stream.find]; rewrite <- prefixb_same.
  - destruct (Stream.prefixb m []); cbn [option_map]; [f_equal; lia|reflexivity].
  - destruct (Stream.prefixb m (y :: t)); cbn [option_map]; [f_equal; lia|].
    rewrite IH. destruct (Stream.find m t); cbn [option_map]; [f_equal; lia|reflexivity].
Qed.

Lemma stream_find_nil m : m <> [] -> Stream.find m [] = None.
Proof. destruct m; [contradiction|reflexivity]. Qed.

Lemma find_stream m s pos : m <> [] ->
  Scan.find m s pos = option_map (fun i => pos + i) (Stream.find m (skipn pos s)).
Proof.
  intro Hm. unfold Scan.find. destruct (Nat.leb_spec pos (length s)) as [H|H].
  - apply find_aux_stream.
  - rewrite skipn_all2 by lia. rewrite stream_find_nil by exact Hm. reflexivity.
Qed.

(* one call of the scanner model (coordinate mode, any block size) = the stream model's next_entry *)
Theorem scanner_is_next_entry m bs s pos : m <> [] ->
  Scan.get_next_entry m true bs s pos =
  match Stream.next_entry m s pos with
  | Some (a, e) => (Scan.RCoord a e, a)
  | None => (Scan.RNone, Nat.max pos (length s))
  end.
Proof.
  intro Hm. rewrite (ScanP.get_next_entry_spec m true bs s pos Hm).
  unfold Stream.next_entry. rewrite (find_stream m s pos Hm).
  destruct (Stream.find m (skipn pos s)) as [i|]; cbn [option_map]; [|reflexivity].
  unfold ScanP.fend. rewrite (find_stream m s (pos + i + length m) Hm).
  destruct (Stream.find m (skipn (pos + i + length m) s)) as [j|]; cbn [option_map Scan.render]; reflexivity.
Qed.

(* content mode (header tool): the bytes of the same span, the file left at the entry's end *)
Theorem scanner_is_next_entry_content m bs s pos : m <> [] ->
  Scan.get_next_entry m false bs s pos =
  match Stream.next_entry m s pos with
  | Some (a, e) => (Scan.RBytes (firstn (e - a) (skipn a s)), e)
  | None => (Scan.RNone, Nat.max pos (length s))
  end.
Proof.
  intro Hm. rewrite (ScanP.get_next_entry_spec m false bs s pos Hm).
  unfold Stream.next_entry. rewrite (find_stream m s pos Hm).
  destruct (Stream.find m (skipn pos s)) as [i|]; cbn [option_map]; [|reflexivity].
  unfold ScanP.fend. rewrite (find_stream m s (pos + i + length m) Hm).
  destruct (Stream.find m (skipn (pos + i + length m) s)) as [j|]; cbn [option_map Scan.render]; reflexivity.
Qed.
