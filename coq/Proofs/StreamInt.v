(* StreamInt.v — CPython's int() (Stream.py_int) reads back str(n) (Stream.dec): py_int (dec n) = Some n for every n
   with at most 4300 digits (CPython's own limit).  Discharges the hypothesis `int_roundtrip` of the stream theorems. *)
From Coq Require Import List Arith Bool ZArith NArith Lia.
From Coq Require Import Strings.Byte.
From PFF Require Import Bytes Stream.
Import ListNotations.
Ltac Zify.zify_post_hook ::= Z.to_euclidean_division_equations.

Definition dch (n : N) : byte :=
  match (n mod 10)%N with
  | 0%N => x30 | 1%N => x31 | 2%N => x32 | 3%N => x33 | 4%N => x34
  | 5%N => x35 | 6%N => x36 | 7%N => x37 | 8%N => x38 | _ => x39
  end.

Lemma dec_digits_S f n : dec_digits (S f) n = if (n <? 10)%N then [dch n] else dec_digits f (n / 10)%N ++ [dch n].
Proof. reflexivity. Qed.

Lemma dch_val n : digit_val (dch n) = Some (Z.of_N (n mod 10)).
Proof.
  unfold dch. assert (H : (n mod 10 < 10)%N) by (apply N.mod_lt; discriminate).
  destruct (n mod 10)%N as [|p] eqn:E; [reflexivity|].
  do 10 (destruct p as [p|p|]; try (cbn in H; lia); try reflexivity).
Qed.
Lemma dch_nonspace n : is_space (dch n) = false.
Proof. unfold dch. destruct (n mod 10)%N as [|p]; [reflexivity|]. do 4 (destruct p as [p|p|]; try reflexivity). Qed.
Lemma dch_not_sign n : dch n <> x2d /\ dch n <> x2b.
Proof. unfold dch. destruct (n mod 10)%N as [|p]; [split; discriminate|]. do 4 (destruct p as [p|p|]; try (split; discriminate)). Qed.

(* reading the digits of n multiplies the accumulator by 10^len and adds n *)
Lemma digits_dec : forall f n rest acc after nd, (n < 2 ^ N.of_nat f)%N -> (1 <= f)%nat ->
  digits (dec_digits f n ++ rest) acc after nd =
  digits rest (acc * 10 ^ Z.of_nat (length (dec_digits f n)) + Z.of_N n) true (nd + N.of_nat (length (dec_digits f n))).
Proof.
  induction f as [|f IH]; intros n rest acc after nd Hn Hf; [lia|].
  rewrite dec_digits_S. destruct (N.ltb_spec n 10) as [Hs|Hb].
  - cbn [app length digits]. rewrite dch_val. rewrite N.mod_small by exact Hs.
    f_equal; lia.
  - assert (Hf' : (1 <= f)%nat).
    { destruct f; [|lia]. cbn in Hn. lia. }
    assert (Hq : (n / 10 < 2 ^ N.of_nat f)%N).
    { rewrite Nat2N.inj_succ, N.pow_succ_r' in Hn. apply N.div_lt_upper_bound; [discriminate|]. lia. }
    rewrite <- app_assoc. cbn [app]. rewrite (IH (n / 10)%N (dch n :: rest) acc after nd Hq Hf').
    cbn [digits]. rewrite dch_val. rewrite app_length. cbn [length].
    f_equal.
    + rewrite Nat.add_1_r, Nat2Z.inj_succ, Z.pow_succ_r by lia.
      rewrite N2Z.inj_mod, N2Z.inj_div. lia.
    + lia.
Qed.

Lemma dec_digits_nonempty f n : (1 <= f)%nat -> dec_digits f n <> [].
Proof. destruct f; [lia|]. intros _. rewrite dec_digits_S. destruct (n <? 10)%N; [discriminate|]. destruct (dec_digits f (n / 10)); discriminate. Qed.

Lemma dec_digits_all : forall f n b, In b (dec_digits f n) -> exists k, b = dch k.
Proof.
  induction f as [|f IH]; intros n b H; [destruct H|]. rewrite dec_digits_S in H.
  destruct (n <? 10)%N.
  - destruct H as [<-|[]]. exists n. reflexivity.
  - apply in_app_or in H. destruct H as [H|[<-|[]]]; [exact (IH _ _ H)|exists n; reflexivity].
Qed.

Lemma dec_digits_len : forall f n k, (n < 10 ^ N.of_nat k)%N -> (1 <= k)%nat -> (length (dec_digits f n) <= k)%nat.
Proof.
  induction f as [|f IH]; intros n k Hn Hk; [cbn; lia|]. rewrite dec_digits_S.
  destruct (N.ltb_spec n 10) as [Hs|Hb]; [cbn; lia|].
  rewrite app_length. cbn [length].
  destruct k as [|k]; [lia|]. destruct k as [|k].
  { cbn in Hn. lia. }
  assert (Hq : (n / 10 < 10 ^ N.of_nat (S k))%N).
  { rewrite (Nat2N.inj_succ (S k)), N.pow_succ_r' in Hn. apply N.div_lt_upper_bound; [discriminate|]. lia. }
  specialize (IH (n / 10)%N (S k) Hq ltac:(lia)). lia.
Qed.

Lemma lstrip_nonspace b t : is_space b = false -> lstrip_sp (b :: t) = b :: t.
Proof. intro H. cbn [lstrip_sp]. rewrite H. reflexivity. Qed.

Lemma strip_digits l : l <> [] -> (forall b, In b l -> is_space b = false) -> strip_sp l = l.
Proof.
  intros Hne Hall. unfold strip_sp.
  destruct l as [|b t]; [contradiction|]. rewrite lstrip_nonspace by (apply Hall; left; reflexivity).
  destruct (rev (b :: t)) as [|c r] eqn:E.
  - apply (f_equal (@length byte)) in E. rewrite rev_length in E. discriminate.
  - rewrite lstrip_nonspace.
    + rewrite <- E. apply rev_involutive.
    + apply Hall. apply in_rev. rewrite E. left. reflexivity.
Qed.

Theorem py_int_dec n : (n < 10 ^ 4300)%N -> py_int (dec n) = Some (Z.of_N n).
Proof.
  intro Hn. unfold py_int, dec. set (f := S (N.to_nat (N.log2 n))).
  assert (Hf : (1 <= f)%nat) by (unfold f; lia).
  assert (H2 : (n < 2 ^ N.of_nat f)%N).
  { unfold f. rewrite Nat2N.inj_succ, N2Nat.id. destruct n as [|p]; [cbn; lia|]. apply N.log2_spec. lia. }
  pose proof (dec_digits_nonempty f n Hf) as Hne.
  assert (Hall : forall b, In b (dec_digits f n) -> is_space b = false).
  { intros b Hb. destruct (dec_digits_all f n b Hb) as (k & ->). apply dch_nonspace. }
  rewrite (strip_digits _ Hne Hall).
  destruct (dec_digits f n) as [|b t] eqn:E; [contradiction|].
  assert (Hb : exists k, b = dch k) by (apply (dec_digits_all f n); rewrite E; left; reflexivity).
  destruct Hb as (k & Hk). destruct (dch_not_sign k) as [N1 N2]. rewrite <- Hk in N1, N2.
  assert (Hsign : (match b :: t with x2d :: t0 => (true, t0) | x2b :: t0 => (false, t0) | _ => (false, b :: t) end) = (false, b :: t)).
  { destruct b; try reflexivity; contradiction. }
  rewrite Hsign. rewrite <- E.
  pose proof (digits_dec f n [] 0 false 0%N H2 Hf) as D. rewrite app_nil_r in D. rewrite D.
  cbn [digits].
  assert (HL : (length (dec_digits f n) <= 4300)%nat).
  { apply dec_digits_len; [|lia]. replace (N.of_nat 4300) with 4300%N by reflexivity. exact Hn. }
  destruct (N.ltb_spec 4300 (0 + N.of_nat (length (dec_digits f n)))) as [Hgt|Hle]; [lia|].
  rewrite Z.mul_0_l, Z.add_0_l. reflexivity.
Qed.
