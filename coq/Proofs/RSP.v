(* RSP.v — Reed-Solomon theory over an arbitrary field of characteristic 2 with a generator
   of order 255: encoder validity, the BCH bound (determinant-free induction), detection of
   1..nsym symbol errors, uniqueness of the parity and of bounded-distance decoding. *)
From Coq Require Import List Arith Bool Lia Ring.
From PFF Require Import RS.
Import ListNotations.

Section RSP.
  Variable F : Type.
  Variables (zero one : F) (add mul : F -> F -> F) (eqb : F -> F -> bool).
  Variable alpha : F.
  Definition idf (x : F) : F := x.
  Hypothesis Rth : ring_theory zero one add mul add idf (@eq F).
  Hypothesis integral : forall a b, mul a b = zero -> a = zero \/ b = zero.
  Hypothesis eqb_spec : forall a b, reflect (a = b) (eqb a b).
  Notation pow := (RS.pow F one mul).
  Notation apow := (RS.apow F one mul alpha).
  Notation peval := (RS.peval F zero add mul).
  Notation mul_lin := (RS.mul_lin F zero add mul).
  Notation mul_lin_aux := (RS.mul_lin_aux F add mul).
  Notation gen := (RS.gen F zero one add mul alpha).
  Notation gen_from := (RS.gen_from F zero one add mul alpha).
  Notation xor_prefix := (RS.xor_prefix F add).
  Notation synth := (RS.synth F add mul).
  Notation rs_parity := (RS.rs_parity F zero one add mul alpha).
  Notation synd := (RS.synd F zero one add mul alpha).
  Notation rs_check := (RS.rs_check F zero one add mul eqb alpha).
  Notation weight := (RS.weight F zero eqb).
  Notation hdist := (RS.hdist F eqb).
  Notation zipadd := (RS.zipadd F add).
  Hypothesis alpha_order : pow alpha 255 = one.
  Hypothesis alpha_inj : forall i j, i < 255 -> j < 255 -> pow alpha i = pow alpha j -> i = j.
  Hypothesis alpha_nz : forall i, i < 255 -> pow alpha i <> zero.

  Add Ring Fring : Rth.
  Notation "0" := zero. Notation "1" := one.
  Infix "+" := add. Infix "*" := mul.

  Lemma add_self a : a + a = 0.
  Proof. exact (Ropp_def Rth a). Qed.
  Lemma add_eq0 a b : a + b = 0 -> a = b.
  Proof. intro H. replace a with (a + (b + b)) by (rewrite add_self; ring). replace (a + (b + b)) with ((a + b) + b) by ring. rewrite H. ring. Qed.
  Lemma eqb_refl a : eqb a a = true.
  Proof. destruct (eqb_spec a a); [reflexivity|contradiction]. Qed.

  (* ---------------- powers ---------------- *)
  Lemma pow_add x m n : pow x (m + n)%nat = pow x m * pow x n.
  Proof. induction m as [|m IH]; cbn [RS.pow Nat.add]; [ring|]. rewrite IH. ring. Qed.
  Lemma pow_mul x m n : pow x (m * n)%nat = pow (pow x m) n.
  Proof.
    induction n as [|n IH]; cbn [RS.pow]; [rewrite Nat.mul_0_r; reflexivity|].
    rewrite Nat.mul_succ_r, Nat.add_comm, pow_add, IH. reflexivity.
  Qed.
  Lemma pow_one n : pow 1 n = 1.
  Proof. induction n as [|n IH]; cbn [RS.pow]; [reflexivity|]. rewrite IH. ring. Qed.
  Lemma apow_pow e : apow e = pow alpha e.
  Proof.
    unfold RS.apow. rewrite (Nat.div_mod_eq e 255) at 2.
    rewrite pow_add, pow_mul, alpha_order, pow_one. ring.
  Qed.
  Lemma pow_nz x e : x <> 0 -> pow x e <> 0.
  Proof.
    intros HX. induction e as [|e IH]; cbn [RS.pow].
    - intro H. apply HX. replace x with (x * 1) by ring. rewrite H. ring.
    - intro H. destruct (integral _ _ H); tauto.
  Qed.

  (* ---------------- evaluation ---------------- *)
  Definition pev (acc : F) (w : list F) (x : F) : F := fold_left (fun y c => y * x + c) w acc.
  Lemma peval_pev w x : peval w x = pev 0 w x.
  Proof. reflexivity. Qed.
  Lemma pev_acc : forall w acc x, pev acc w x = acc * pow x (length w) + pev 0 w x.
  Proof.
    induction w as [|c w IH]; intros acc x; cbn [pev fold_left length RS.pow]; [ring|].
    fold (pev (acc * x + c) w x). fold (pev (0 * x + c) w x).
    rewrite (IH (acc * x + c)), (IH (0 * x + c)). ring.
  Qed.
  Lemma peval_nil x : peval [] x = 0.
  Proof. reflexivity. Qed.
  Lemma peval_cons c w x : peval (c :: w) x = c * pow x (length w) + peval w x.
  Proof.
    rewrite !peval_pev. cbn [pev fold_left]. fold (pev (0 * x + c) w x). rewrite pev_acc. ring.
  Qed.
  Lemma peval_app : forall u v x, peval (u ++ v) x = peval u x * pow x (length v) + peval v x.
  Proof.
    induction u as [|c u IH]; intros v x; cbn [app].
    - rewrite peval_nil. ring.
    - rewrite !peval_cons, IH, app_length, pow_add. ring.
  Qed.
  Lemma peval_zeros k x : peval (repeat 0 k) x = 0.
  Proof. induction k as [|k IH]; cbn [repeat]; [reflexivity|]. rewrite peval_cons, IH. ring. Qed.
  Lemma peval_zeros_l k w x : peval (repeat 0 k ++ w) x = peval w x.
  Proof. rewrite peval_app, peval_zeros. ring. Qed.
  Lemma peval_scale c : forall w x, peval (map (mul c) w) x = c * peval w x.
  Proof.
    induction w as [|d w IH]; intro x; cbn [map]; [rewrite peval_nil; ring|].
    rewrite !peval_cons, IH, map_length. ring.
  Qed.
  Lemma zipadd_length u v : length u = length v -> length (zipadd u v) = length u.
  Proof. intro H. unfold RS.zipadd. rewrite map_length, combine_length. lia. Qed.
  Lemma peval_zipadd : forall u v x, length u = length v -> peval (zipadd u v) x = peval u x + peval v x.
  Proof.
    induction u as [|a u IH]; intros [|b v] x H; try discriminate; [rewrite !peval_nil; ring|].
    unfold RS.zipadd. cbn [combine map fst snd]. fold (zipadd u v).
    cbn [length] in H. rewrite !peval_cons, IH, zipadd_length by lia.
    replace (length v) with (length u) by lia. ring.
  Qed.

  (* ---------------- generator polynomial ---------------- *)
  Lemma mul_lin_aux_eval : forall g prev r x,
    peval (mul_lin_aux prev g r) x = peval g x * (x + r) + r * prev * pow x (length g).
  Proof.
    induction g as [|c g IH]; intros prev r x; cbn [RS.mul_lin_aux length RS.pow].
    - rewrite peval_cons, !peval_nil. cbn [length RS.pow]. ring.
    - rewrite !peval_cons, IH. assert (L : forall g' p, length (mul_lin_aux p g' r) = S (length g')).
      { induction g' as [|c' g' IHg]; intro p; cbn [RS.mul_lin_aux length]; [reflexivity|]. rewrite IHg. reflexivity. }
      rewrite L. cbn [RS.pow]. ring.
  Qed.
  Lemma mul_lin_eval g r x : peval (mul_lin g r) x = peval g x * (x + r).
  Proof. unfold RS.mul_lin. rewrite mul_lin_aux_eval. ring. Qed.
  Lemma mul_lin_length g r : length (mul_lin g r) = S (length g).
  Proof.
    unfold RS.mul_lin. generalize 0. induction g as [|c g IH]; intro p; cbn [RS.mul_lin_aux length]; [reflexivity|].
    rewrite IH. reflexivity.
  Qed.
  Lemma mul_lin_hd g r : hd 0 g = 1 -> hd 0 (mul_lin g r) = 1.
  Proof.
    destruct g as [|c g]; cbn [hd]; intro H.
    - exfalso. apply (alpha_nz 0); [lia|]. cbn [RS.pow]. symmetry. exact H.
    - unfold RS.mul_lin. cbn [RS.mul_lin_aux hd]. rewrite H. ring.
  Qed.

  Lemma gen_from_props : forall k i fcr g,
    hd 0 g = 1 ->
    length (gen_from k i fcr g) = (k + length g)%nat /\
    hd 0 (gen_from k i fcr g) = 1 /\
    forall x, (peval g x = 0 \/ exists j, i <= j < i + k /\ x = apow (j + fcr)) -> peval (gen_from k i fcr g) x = 0.
  Proof.
    induction k as [|k IH]; intros i fcr g Hg; cbn [RS.gen_from].
    - split; [reflexivity|]. split; [exact Hg|]. intros x [H|(j & Hj & _)]; [exact H|lia].
    - destruct (IH (S i) fcr (mul_lin g (apow (i + fcr))) (mul_lin_hd _ _ Hg)) as (L & H1 & R).
      split; [rewrite L, mul_lin_length; lia|]. split; [exact H1|].
      intros x Hx. apply R. destruct Hx as [H|(j & Hj & ->)].
      + left. rewrite mul_lin_eval, H. ring.
      + destruct (Nat.eq_dec j i) as [->|Hne].
        * left. rewrite mul_lin_eval, add_self. ring.
        * right. exists j. split; [lia|reflexivity].
  Qed.

  Lemma gen_length nsym fcr : length (gen nsym fcr) = S nsym.
  Proof. unfold RS.gen. destruct (gen_from_props nsym 0 fcr [1] eq_refl) as (L & _). rewrite L. cbn. lia. Qed.
  Lemma gen_monic nsym fcr : exists gt, gen nsym fcr = 1 :: gt /\ length gt = nsym.
  Proof.
    pose proof (gen_length nsym fcr) as L. destruct (gen_from_props nsym 0 fcr [1] eq_refl) as (_ & H & _).
    fold (gen nsym fcr) in H. destruct (gen nsym fcr) as [|c gt]; [discriminate|].
    cbn [hd] in H. subst c. exists gt. cbn [length] in L. split; [reflexivity|lia].
  Qed.
  Lemma gen_root nsym fcr i : i < nsym -> peval (gen nsym fcr) (apow (i + fcr)) = 0.
  Proof.
    intro Hi. destruct (gen_from_props nsym 0 fcr [1] eq_refl) as (_ & _ & R). apply R.
    right. exists i. split; [lia|reflexivity].
  Qed.

  (* ---------------- the encoder produces valid codewords ---------------- *)
  Lemma xor_prefix_zipadd : forall l v, length v <= length l ->
    xor_prefix l v = zipadd l (v ++ repeat 0 (length l - length v)).
  Proof.
    induction l as [|a l IH]; intros [|b v] H; cbn [length] in H; try lia.
    - reflexivity.
    - cbn [RS.xor_prefix length Nat.sub app repeat]. unfold RS.zipadd. cbn [combine map fst snd].
      f_equal; [ring|]. clear IH H. induction l as [|c l IHl]; cbn [repeat combine map fst snd length]; [reflexivity|].
      f_equal; [ring|exact IHl].
    - cbn [RS.xor_prefix length Nat.sub app]. unfold RS.zipadd. cbn [combine map fst snd]. f_equal.
      apply IH. lia.
  Qed.
  Lemma xor_prefix_length : forall l v, length (xor_prefix l v) = length l.
  Proof. induction l as [|a l IH]; intros [|b v]; cbn [RS.xor_prefix length]; try reflexivity. rewrite IH. reflexivity. Qed.

  (* one step of the synthetic division does not change the value at a root of the (monic) divisor *)
  Lemma synth_step_root gt c rest x :
    length gt <= length rest -> peval (1 :: gt) x = 0 ->
    peval (xor_prefix rest (map (mul c) gt)) x = peval (c :: rest) x.
  Proof.
    intros L Hroot. rewrite xor_prefix_zipadd by (rewrite map_length; exact L).
    rewrite peval_zipadd by (rewrite app_length, repeat_length, map_length; lia).
    rewrite peval_app, peval_zeros, repeat_length, map_length, peval_scale, peval_cons.
    rewrite peval_cons in Hroot.
    assert (E : peval gt x = pow x (length gt)).
    { apply add_eq0. transitivity (1 * pow x (length gt) + peval gt x); [ring|exact Hroot]. }
    rewrite E. replace (length rest) with (length gt + (length rest - length gt))%nat at 2 by lia.
    rewrite pow_add. ring.
  Qed.

  Lemma synth_root gt x : peval (1 :: gt) x = 0 ->
    forall n l, length gt + n <= length l -> peval (synth gt l n) x = peval l x /\ length (synth gt l n) = (length l - n)%nat.
  Proof.
    intro Hroot. induction n as [|n IH]; intros l L; cbn [RS.synth].
    - split; [reflexivity|lia].
    - destruct l as [|c rest]; [cbn [length] in L; lia|]. cbn [length] in L.
      destruct (IH (xor_prefix rest (map (mul c) gt))) as [E1 E2]; [rewrite xor_prefix_length; lia|].
      rewrite E1, E2, xor_prefix_length. split; [apply synth_step_root; [lia|exact Hroot]|cbn [length]; lia].
  Qed.

  Lemma rs_parity_length nsym fcr m : length (rs_parity nsym fcr m) = nsym.
  Proof.
    unfold RS.rs_parity. destruct (gen_monic nsym fcr) as (gt & -> & Lg). cbn [tl].
    (* length does not depend on a root: redo the length part *)
    assert (H : forall n l, length gt + n <= length l -> length (synth gt l n) = (length l - n)%nat).
    { induction n as [|n IH]; intros l L; cbn [RS.synth]; [lia|].
      destruct l as [|c rest]; [cbn [length] in L; lia|]. cbn [length] in L.
      rewrite IH by (rewrite xor_prefix_length; lia). rewrite xor_prefix_length. cbn [length]. lia. }
    rewrite H; rewrite app_length, repeat_length; lia.
  Qed.

  Lemma synd_all_zero nsym fcr w : rs_check nsym fcr w = true <-> forall i, i < nsym -> peval w (apow (i + fcr)) = 0.
  Proof.
    unfold RS.rs_check, RS.synd. rewrite forallb_forall. split.
    - intros H i Hi. specialize (H (peval w (apow (i + fcr)))).
      destruct (eqb_spec (peval w (apow (i + fcr))) 0) as [E|E]; [exact E|].
      exfalso. assert (false = true); [|discriminate]. apply H. apply in_map_iff. exists i. split; [reflexivity|apply in_seq; lia].
    - intros H s Hs. apply in_map_iff in Hs. destruct Hs as (i & <- & Hi). apply in_seq in Hi.
      rewrite H by lia. apply eqb_refl.
  Qed.

  Theorem parity_valid nsym fcr m : rs_check nsym fcr (m ++ rs_parity nsym fcr m) = true.
  Proof.
    apply synd_all_zero. intros i Hi.
    pose proof (rs_parity_length nsym fcr m) as Lp.
    unfold RS.rs_parity in *. pose proof (gen_root nsym fcr i Hi) as Hroot.
    destruct (gen_monic nsym fcr) as (gt & Eg & Lg). rewrite Eg in *. cbn [tl] in *.
    destruct (synth_root gt _ Hroot (length m) (m ++ repeat 0 nsym)) as [E _]; [rewrite app_length, repeat_length; lia|].
    rewrite peval_app, Lp. rewrite E. rewrite peval_app, peval_zeros, repeat_length.
    set (P := peval m (apow (i + fcr)) * pow (apow (i + fcr)) nsym). replace (P + (P + 0)) with ((P + P) + 0) by ring.
    rewrite add_self. ring.
  Qed.

  (* ---------------- BCH bound ---------------- *)
  Definition word := list (F * F).
  Fixpoint Ssum (l : word) (e : nat) : F := match l with [] => 0 | (X, c) :: t => c * pow X e + Ssum t e end.
  Definition pweight (l : word) : nat := length (filter (fun p => negb (eqb (snd p) 0)) l).
  Definition allzero (l : word) := Forall (fun p => snd p = 0) l.
  Definition twist (X0 : F) (l : word) : word := map (fun p => (fst p, snd p * (fst p + X0))) l.

  Lemma S_twist X0 l e : Ssum (twist X0 l) e = Ssum l (S e) + X0 * Ssum l e.
  Proof.
    induction l as [|[X c] t IH]; cbn [twist map Ssum fst snd RS.pow]; [ring|]. fold (twist X0 t). rewrite IH. cbn [RS.pow]. ring.
  Qed.
  Lemma weight_zero_allzero l : pweight l = 0%nat -> allzero l.
  Proof.
    unfold pweight, allzero. induction l as [|[X c] t IH]; cbn [filter snd]; intro H; [constructor|].
    destruct (eqb_spec c 0) as [E|E]; cbn [negb] in H.
    - constructor; [exact E| apply IH; exact H].
    - cbn [length] in H. discriminate.
  Qed.
  Lemma mul0l a : 0 * a = 0. Proof. ring. Qed.
  Lemma weight_twist_le X0 l : (pweight (twist X0 l) <= pweight l)%nat.
  Proof.
    unfold pweight. induction l as [|[X c] t IH]; cbn [twist map filter fst snd]; [lia|]. fold (twist X0 t).
    destruct (eqb_spec c 0) as [E|E]; cbn [negb].
    - subst c. rewrite mul0l. rewrite eqb_refl. cbn [negb]. exact IH.
    - destruct (eqb_spec (c * (X + X0)) 0); cbn [negb length]; lia.
  Qed.
  Lemma weight_twist_lt X0 c0 l : In (X0, c0) l -> c0 <> 0 -> (pweight (twist X0 l) < pweight l)%nat.
  Proof.
    unfold pweight. induction l as [|[X c] t IH]; cbn [In]; intros HIn Hc; [tauto|].
    cbn [twist map filter fst snd]. fold (twist X0 t).
    destruct HIn as [E|HIn].
    - inversion E; subst X c. rewrite add_self. replace (c0 * 0) with 0 by ring. rewrite eqb_refl. cbn [negb].
      destruct (eqb_spec c0 0) as [E0|_]; [contradiction|]. cbn [negb length].
      pose proof (weight_twist_le X0 t) as Hle. unfold pweight in Hle. lia.
    - specialize (IH HIn Hc).
      destruct (eqb_spec c 0) as [E|E]; cbn [negb].
      + subst c. rewrite mul0l, eqb_refl. cbn [negb]. exact IH.
      + destruct (eqb_spec (c * (X + X0)) 0); cbn [negb length]; lia.
  Qed.
  Lemma S_allzero l e : allzero l -> Ssum l e = 0.
  Proof. induction 1 as [|[X c] t Hc _ IH]; cbn [Ssum]; [reflexivity|]. cbn [snd] in Hc. subst c. rewrite IH. ring. Qed.
  Lemma exists_nonzero l : ~ allzero l -> exists X c, In (X, c) l /\ c <> 0.
  Proof.
    induction l as [|[X c] t IH]; intro H; [exfalso; apply H; constructor|].
    destruct (eqb_spec c 0) as [E|E].
    - destruct IH as (X' & c' & HI & Hc). { intro A. apply H. constructor; [exact E|exact A]. }
      exists X', c'. split; [right; exact HI|exact Hc].
    - exists X, c. split; [left; reflexivity|exact E].
  Qed.
  Lemma allzero_dec l : {allzero l} + {~ allzero l}.
  Proof.
    induction l as [|[X c] t [IH|IH]].
    - left; constructor.
    - destruct (eqb_spec c 0); [left; constructor; assumption| right; intro A; inversion A; subst; cbn in *; contradiction].
    - right; intro A; inversion A; contradiction.
  Qed.

  Theorem bch : forall d b l,
    NoDup (map fst l) -> Forall (fun p => fst p <> 0) l ->
    (pweight l <= d)%nat -> (forall i, (i < d)%nat -> Ssum l (b + i) = 0) -> allzero l.
  Proof.
    induction d as [|d IH]; intros b l Hnd Hnz Hw Hs.
    - apply weight_zero_allzero. lia.
    - destruct (allzero_dec l) as [A|A]; [exact A|exfalso].
      destruct (exists_nonzero l A) as (X0 & c0 & HIn & Hc0).
      assert (Hz : allzero (twist X0 l)).
      { apply (IH b).
        - unfold twist. rewrite map_map. cbn [fst]. exact Hnd.
        - unfold twist. rewrite Forall_map. cbn [fst]. exact Hnz.
        - pose proof (weight_twist_lt X0 c0 l HIn Hc0). lia.
        - intros i Hi. rewrite S_twist. replace (S (b + i)) with (b + S i)%nat by lia.
          rewrite (Hs (S i)) by lia. rewrite (Hs i) by lia. ring. }
      assert (Hother : forall X c, In (X, c) l -> X <> X0 -> c = 0).
      { intros X c HI HX. unfold allzero, twist in Hz. rewrite Forall_map in Hz. rewrite Forall_forall in Hz.
        specialize (Hz _ HI). cbn [fst snd] in Hz. destruct (integral _ _ Hz) as [E|E]; [exact E|].
        exfalso. apply HX. apply add_eq0. exact E. }
      assert (HS0 : forall e, Ssum l e = c0 * pow X0 e).
      { intro e. clear - HIn Hother Hnd Rth. induction l as [|[X c] t IHl]; [destruct HIn|].
        cbn [Ssum]. cbn [map fst] in Hnd. inversion Hnd as [|? ? Hni Hnd']; subst.
        destruct HIn as [E|HI].
        - inversion E; subst X c.
          assert (Ht : Ssum t e = 0).
          { apply S_allzero. apply Forall_forall. intros [X c] HI. cbn [snd]. apply (Hother X c); [right; exact HI|].
            intro EX; subst X. apply Hni. apply in_map_iff. exists (X0, c). split; [reflexivity|exact HI]. }
          rewrite Ht. ring.
        - assert (c = 0). { apply (Hother X c); [left; reflexivity|]. intro EX; subst X. apply Hni. apply in_map_iff. exists (X0, c0). split; [reflexivity|exact HI]. }
          subst c. rewrite IHl; [ring| exact Hnd' | exact HI | intros X' c' HI' HX'; apply (Hother X' c'); [right; exact HI'|exact HX']]. }
      specialize (Hs 0%nat ltac:(lia)). rewrite HS0 in Hs.
      destruct (integral _ _ Hs) as [E|E]; [contradiction|].
      rewrite Forall_forall in Hnz. specialize (Hnz _ HIn). cbn [fst] in Hnz.
      exact (pow_nz X0 _ Hnz E).
  Qed.

  (* words as (locator, coefficient) lists: position j of w (degree |w|-1-j) has locator alpha^(|w|-1-j) *)
  Fixpoint wpairs (w : list F) : word :=
    match w with [] => [] | c :: l => (pow alpha (length l), c) :: wpairs l end.

  Lemma peval_Ssum : forall w e, peval w (pow alpha e) = Ssum (wpairs w) e.
  Proof.
    induction w as [|c l IH]; intro e; cbn [wpairs Ssum]; [reflexivity|].
    rewrite peval_cons, IH. rewrite <- !pow_mul, Nat.mul_comm. reflexivity.
  Qed.
  Lemma wpairs_fst_lt : forall w X, In X (map fst (wpairs w)) -> exists i, i < length w /\ X = pow alpha i.
  Proof.
    induction w as [|c l IH]; intros X H; cbn [wpairs map fst In length] in *; [tauto|].
    destruct H as [<-|H]; [exists (length l); split; [lia|reflexivity]|].
    destruct (IH X H) as (i & Hi & E). exists i. split; [lia|exact E].
  Qed.
  Lemma wpairs_nodup : forall w, length w <= 255 -> NoDup (map fst (wpairs w)).
  Proof.
    induction w as [|c l IH]; intro L; cbn [wpairs map fst length] in *; constructor.
    - intro H. destruct (wpairs_fst_lt l _ H) as (i & Hi & E). apply alpha_inj in E; lia.
    - apply IH. lia.
  Qed.
  Lemma wpairs_nz : forall w, length w <= 255 -> Forall (fun p => fst p <> 0) (wpairs w).
  Proof.
    induction w as [|c l IH]; intro L; cbn [wpairs length] in *; constructor.
    - cbn [fst]. apply alpha_nz. lia.
    - apply IH. lia.
  Qed.
  Lemma wpairs_weight : forall w, pweight (wpairs w) = weight w.
  Proof.
    unfold pweight, RS.weight. induction w as [|c l IH]; cbn [wpairs filter snd]; [reflexivity|].
    destruct (eqb c 0); cbn [negb length]; rewrite IH; reflexivity.
  Qed.
  Lemma wpairs_allzero : forall w, allzero (wpairs w) -> w = repeat 0 (length w).
  Proof.
    unfold allzero. induction w as [|c l IH]; cbn [wpairs length repeat]; intro H; [reflexivity|].
    pose proof (Forall_inv H) as H1. pose proof (Forall_inv_tail H) as H2. cbn [snd] in H1. rewrite H1. f_equal. apply IH. exact H2.
  Qed.

  (* BCH bound on words: a word of length <= 255 with nsym vanishing consecutive syndromes and weight
     <= nsym is the zero word *)
  Theorem bch_bound nsym fcr w : length w <= 255 -> rs_check nsym fcr w = true -> weight w <= nsym ->
    w = repeat 0 (length w).
  Proof.
    intros L Hc Hw. apply wpairs_allzero. apply (bch nsym fcr).
    - apply wpairs_nodup. exact L.
    - apply wpairs_nz. exact L.
    - rewrite wpairs_weight. exact Hw.
    - intros i Hi. rewrite <- peval_Ssum, <- apow_pow. rewrite Nat.add_comm. apply (proj1 (synd_all_zero nsym fcr w) Hc). exact Hi.
  Qed.

  (* ---------------- corollaries: distance, detection, uniqueness ---------------- *)
  Lemma rs_check_zipadd nsym fcr u v : length u = length v ->
    rs_check nsym fcr u = true -> rs_check nsym fcr v = true -> rs_check nsym fcr (zipadd u v) = true.
  Proof.
    intros L Hu Hv. apply synd_all_zero. intros i Hi. rewrite peval_zipadd by exact L.
    rewrite (proj1 (synd_all_zero _ _ _) Hu i Hi), (proj1 (synd_all_zero _ _ _) Hv i Hi). ring.
  Qed.
  Lemma weight_zipadd : forall u v, weight (zipadd u v) = hdist u v.
  Proof.
    unfold RS.weight, RS.hdist, RS.zipadd. induction u as [|a u IH]; intros [|b v]; cbn [combine map filter fst snd]; try reflexivity.
    assert (E : eqb (a + b) 0 = eqb a b).
    { destruct (eqb_spec a b) as [->|N]; [rewrite add_self; apply eqb_refl|].
      destruct (eqb_spec (a + b) 0) as [E|_]; [exfalso; apply N, add_eq0, E|reflexivity]. }
    rewrite E. destruct (eqb a b); cbn [negb length]; rewrite IH; reflexivity.
  Qed.
  Lemma zipadd_zero_eq : forall u v, length u = length v -> zipadd u v = repeat 0 (length (zipadd u v)) -> u = v.
  Proof.
    unfold RS.zipadd. induction u as [|a u IH]; intros [|b v] L H; try discriminate; [reflexivity|].
    cbn [combine map fst snd length repeat] in H. injection H as H1 H2. f_equal; [apply add_eq0; exact H1|].
    apply IH; [cbn [length] in L; lia|]. exact H2.
  Qed.

  (* two codewords of the same length <= 255 at Hamming distance <= nsym are equal *)
  Theorem code_distance nsym fcr u v : length u = length v -> length u <= 255 ->
    rs_check nsym fcr u = true -> rs_check nsym fcr v = true -> hdist u v <= nsym -> u = v.
  Proof.
    intros L L255 Hu Hv Hd. apply zipadd_zero_eq; [exact L|].
    apply (bch_bound nsym fcr).
    - rewrite zipadd_length by exact L. exact L255.
    - apply rs_check_zipadd; assumption.
    - rewrite weight_zipadd. exact Hd.
  Qed.

  Lemma hdist_refl : forall l, hdist l l = 0%nat.
  Proof.
    unfold RS.hdist. induction l as [|a l IH]; cbn [combine filter fst snd]; [reflexivity|]. rewrite eqb_refl. cbn [negb]. exact IH.
  Qed.

  (* detection: a word at distance 1..nsym from a codeword fails the check *)
  Theorem detect nsym fcr c w : length w = length c -> length c <= 255 ->
    rs_check nsym fcr c = true -> 1 <= hdist w c <= nsym -> rs_check nsym fcr w = false.
  Proof.
    intros L L255 Hc [H1 H2]. destruct (rs_check nsym fcr w) eqn:Hw; [exfalso|reflexivity].
    assert (E : w = c) by (apply (code_distance nsym fcr); try assumption; lia).
    subst w. rewrite hdist_refl in H1. lia.
  Qed.

  Lemma hdist_app : forall m u v, hdist (m ++ u) (m ++ v) = hdist u v.
  Proof.
    unfold RS.hdist. induction m as [|a m IH]; intros u v; cbn [app combine filter fst snd]; [reflexivity|].
    rewrite eqb_refl. cbn [negb]. apply IH.
  Qed.
  Lemma hdist_le_length : forall u v, hdist u v <= length u.
  Proof.
    unfold RS.hdist. induction u as [|a u IH]; intros [|b v]; cbn [combine filter length]; try lia.
    destruct (negb _); cbn [length]; specialize (IH v); lia.
  Qed.

  (* uniqueness of the parity: any nsym symbols that make m ++ p pass the check are rs_parity *)
  Theorem parity_unique nsym fcr m p : length m + nsym <= 255 -> length p = nsym ->
    rs_check nsym fcr (m ++ p) = true -> p = rs_parity nsym fcr m.
  Proof.
    intros L Lp Hc. pose proof (rs_parity_length nsym fcr m) as Lq.
    assert (E : m ++ p = m ++ rs_parity nsym fcr m).
    { apply (code_distance nsym fcr); try assumption.
      - rewrite !app_length. lia.
      - rewrite app_length. lia.
      - apply parity_valid.
      - rewrite hdist_app. pose proof (hdist_le_length p (rs_parity nsym fcr m)). lia. }
    apply app_inv_head in E. exact E.
  Qed.

  (* ---------------- errors-and-erasures: uniqueness of bounded-distance decoding ---------------- *)
  Notation errs_from := (RS.errs_from F eqb).
  Notation errs := (RS.errs F eqb).
  Notation within := (RS.within F eqb).
  Fixpoint hd_from (i : nat) (E : list nat) (inE : bool) (u v : list F) : nat :=
    match u, v with
    | x :: u', y :: v' =>
        ((if negb (eqb x y) && Bool.eqb (existsb (Nat.eqb i) E) inE then 1 else 0) + hd_from (S i) E inE u' v')%nat
    | _, _ => 0%nat
    end.
  Lemma hdist_split : forall u v i E, hdist u v = (hd_from i E true u v + hd_from i E false u v)%nat.
  Proof.
    unfold RS.hdist. induction u as [|x u IH]; intros [|y v] i E; cbn [combine filter hd_from fst snd length]; try reflexivity.
    destruct (negb (eqb x y)); cbn [length andb]; rewrite (IH v (S i) E); [|lia].
    destruct (existsb (Nat.eqb i) E); cbn [Bool.eqb]; lia.
  Qed.
  Lemma hd_out_triangle : forall r u v i E, length r = length u -> length r = length v ->
    (hd_from i E false u v <= errs_from i E r u + errs_from i E r v)%nat.
  Proof.
    induction r as [|z r IH]; intros [|x u] [|y v] i E Lu Lv; try discriminate; cbn [hd_from RS.errs_from]; [lia|].
    cbn [length] in Lu, Lv. specialize (IH u v (S i) E ltac:(lia) ltac:(lia)).
    destruct (existsb (Nat.eqb i) E); cbn [Bool.eqb negb andb]; rewrite ?andb_false_r; cbn; [lia|].
    rewrite !andb_true_r.
    destruct (eqb_spec x y) as [->|Nxy]; cbn [negb]; [lia|].
    destruct (eqb_spec z x) as [->|Nzx]; cbn [negb]; [|lia].
    destruct (eqb_spec x y) as [E1|_]; [contradiction|]. cbn [negb]. lia.
  Qed.
  Lemma existsb_remove i j E : i <> j -> existsb (Nat.eqb j) (remove Nat.eq_dec i E) = existsb (Nat.eqb j) E.
  Proof.
    intro N. induction E as [|e E IH]; cbn [remove existsb]; [reflexivity|].
    destruct (Nat.eq_dec i e) as [->|Ne]; cbn [existsb]; rewrite IH; [|reflexivity].
    destruct (Nat.eqb_spec j e); [lia|reflexivity].
  Qed.
  Lemma hd_in_remove : forall u v i j E, (j < i)%nat -> hd_from i (remove Nat.eq_dec j E) true u v = hd_from i E true u v.
  Proof.
    induction u as [|x u IH]; intros [|y v] i j E Hj; cbn [hd_from]; try reflexivity.
    rewrite existsb_remove by lia. rewrite IH by lia. reflexivity.
  Qed.
  Lemma hd_in_le : forall u v i E, (hd_from i E true u v <= length E)%nat.
  Proof.
    induction u as [|x u IH]; intros [|y v] i E; cbn [hd_from]; try lia.
    destruct (existsb (Nat.eqb i) E) eqn:Ex; cbn [Bool.eqb]; rewrite ?andb_false_r, ?andb_true_r.
    - rewrite <- (hd_in_remove u v (S i) i E) by lia.
      specialize (IH v (S i) (remove Nat.eq_dec i E)).
      assert (In i E). { apply existsb_exists in Ex. destruct Ex as (e & He & Ee). apply Nat.eqb_eq in Ee. subst e. exact He. }
      pose proof (remove_length_lt Nat.eq_dec E i H). destruct (negb (eqb x y)); lia.
    - specialize (IH v (S i) E). cbn. lia.
  Qed.

  Lemma hdist_errata r u v E : length r = length u -> length r = length v ->
    (hdist u v <= errs E r u + errs E r v + length E)%nat.
  Proof.
    intros Lu Lv. rewrite (hdist_split u v 0 E). pose proof (hd_out_triangle r u v 0 E Lu Lv). pose proof (hd_in_le u v 0 E).
    unfold RS.errs. lia.
  Qed.

  (* two codewords that each explain the same received word within the errors-and-erasures
     radius (2*errors + erasures <= nsym, common erasure set) are equal *)
  Theorem decode_unique nsym fcr r E c1 c2 : length r <= 255 ->
    rs_check nsym fcr c1 = true -> rs_check nsym fcr c2 = true ->
    within nsym E r c1 = true -> within nsym E r c2 = true -> c1 = c2.
  Proof.
    unfold RS.within. intros L H1 H2 W1 W2.
    apply andb_prop in W1. destruct W1 as [L1 W1]. apply andb_prop in W2. destruct W2 as [L2 W2].
    apply Nat.eqb_eq in L1, L2. apply Nat.leb_le in W1, W2.
    apply (code_distance nsym fcr); try assumption; [lia|lia|].
    pose proof (hdist_errata r c1 c2 E L1 L2). lia.
  Qed.
End RSP.
