(* C01 at tool level: the Stream run (Proofs/StreamRepair.v) with the per-block stage := the Pipeline model
   (hdr_file / sa_file through bres_of, as in Proofs/C03Inst.v), the intra-ecc := the Entry model, over the verified facade of
   any real codec.  Files damaged within the capacity of every block (ecc file pristine) are all repaired completely:
   processed = |T|, corrupted = repaired completely, nothing skipped, exit 0, and the output folder holds, for exactly the
   files the per-block stage flagged, the original protected content (+ the damaged tail for the header tool).
   The only codec hypothesis left is the completeness of the third-party decoder (dec_complete), as in C01_file_*_rs. *)
From Coq Require Import List Arith Bool ZArith NArith Lia.
From Coq Require Import Strings.Byte.
From PFF Require Import Bytes Stream Proofs.StreamP Proofs.StreamInt Proofs.StreamRepair.
From PFF Require Pipeline Entry Facade Proofs.PipelineP Proofs.PipelineClean Proofs.CodecInst Proofs.C03Inst.
From PFF Require Select Proofs.SelectP.
Import ListNotations.

Section ClassOut.
  Variable opts_t : Type.
  Variable hash : list byte -> list byte.
  Variable chk : nat -> list byte -> list byte -> bool.
  Variable dec : nat -> opts_t -> list byte -> list byte -> option (list byte * list byte).
  Variable o : opts_t.
  Variable fast : bool.

  Lemma hdr_file_complete_out ms mb hlen hdr recorded file track :
    let r := Pipeline.hdr_file opts_t hash chk dec o fast ms mb hlen hdr recorded file track in
    Pipeline.f_class r = Pipeline.Complete -> exists out, Pipeline.f_out r = Some out.
  Proof.
    cbv zeta. unfold Pipeline.hdr_file.
    destruct (Pipeline.blocks_loop opts_t hash chk dec o fast 0 true _) as [res q].
    destruct (existsb Pipeline.is_flagged (map snd res)); cbn; [eexists; reflexivity|discriminate].
  Qed.

  Lemma sa_file_complete_out mu mb hlen file db tlen :
    let r := Pipeline.sa_file opts_t hash chk dec o fast mu mb hlen file db tlen in
    Pipeline.f_class r = Pipeline.Complete -> exists out, Pipeline.f_out r = Some out.
  Proof.
    cbv zeta. unfold Pipeline.sa_file.
    destruct (Pipeline.sa_detect hash chk fast _) as [det q1]. destruct det; [|cbn; discriminate].
    destruct (Pipeline.blocks_loop opts_t hash chk dec o fast 0 true _) as [res q2].
    destruct (existsb Pipeline.is_repaired (map snd res)); cbn; [eexists; reflexivity|discriminate].
  Qed.
End ClassOut.

(* the readable form of a run whose per-entry results are related to the tree by `rel` *)
Lemma rel_summary (T : list (list byte * list byte)) want must rs (run : outcome) :
  Forall2 (rel want must) T rs ->
  run = Done (mkC (length T) (n_full_of rs) (n_full_of rs) 0 0) (outs_of rs) 0 ->
  exists outs k, run = Done (mkC (length T) k k 0 0) outs 0 /\ k <= length T /\
    (forall p b, In (p, b) outs -> exists f, In f T /\ p = fst f /\ b = want f) /\
    (forall f, In f T -> must f -> In (fst f, want f) outs).
Proof.
  intros F E. destruct (rel_facts want must T rs F) as (_ & _ & _ & O & I & N).
  exists (outs_of rs), (n_full_of rs). split; [exact E|]. split; [exact N|]. split.
  - intros p b H. destruct (O p b H) as (f & Hf & E1 & E2 & _). exists f. auto.
  - exact I.
Qed.

Section Inst.
  Variable algo : N.
  Variable mb : nat.
  Hypothesis mb255 : mb <= 255.
  Variable hash : list byte -> list byte.
  Variable hlen : nat.
  Hypothesis hash_len : forall m, length (hash m) = hlen.
  Variable bdec : nat -> option byte -> list byte -> list byte -> option (list byte * list byte).
  Variable o : option byte.
  Variable fast : bool.
  Variables ik ies : nat.
  Hypothesis ik_pos : 1 <= ik.
  Hypothesis ik_le : ik + ies <= 255.
  Variable idec : list byte -> list byte -> option (list byte * list byte).

  Notation penc := (CodecInst.penc algo mb).
  Notation pchk := (CodecInst.pchk algo mb).
  Notation pcap := (CodecInst.pcap mb).
  Notation pwf := (CodecInst.pwf mb).
  Notation damaged_ok := (PipelineP.damaged_ok (option byte) hash penc o pcap pwf).

  (* the one assumption about the third-party decoder *)
  Hypothesis dec_complete : PipelineP.dec_complete_hyp (option byte) pchk bdec penc o pcap pwf.

  Section Header.
    Variables ms hdr : nat.
    Hypothesis ms_ok : 1 <= ms <= mb.
    Hypothesis track_pos : 1 <= hlen + (mb - ms).
    Notation track_h := (C03Inst.track_h algo mb hash ms hdr).
    Notation blocksH := (C03Inst.blocksH_pipe algo mb hash hlen bdec o fast ms hdr).

    (* file f = (path, F0) is found as D: blocks within capacity (stored hash and parity as generated), any tail after the header *)
    Definition found_h (F0 D W : list byte) : Prop :=
      exists bl tail,
        D = concat (map Pipeline.msg bl) ++ tail /\
        Forall2 damaged_ok (Pipeline.hdr_gen hash penc ms hdr F0) bl /\
        Pipeline.track_of bl = track_h F0 /\
        length tail = length F0 - hdr /\
        W = firstn hdr F0 ++ tail.

    Lemma found_h_blocks F0 D W : found_h F0 D W ->
      length D = length F0 /\
      ((blocksH (track_h F0) (zlen F0) D = BClean /\ ~ D <> W) \/ blocksH (track_h F0) (zlen F0) D = BCorrupt RFull (Some W)).
    Proof.
      intros (bl & tail & -> & FD & TR & LT & ->).
      destruct (PipelineP.hdr_file_repairs (option byte) hash pchk bdec penc o fast pcap pwf mb hlen
                  (CodecInst.pipe_chk_enc algo mb) dec_complete (CodecInst.pipe_code_dist algo mb mb255 o) hash_len
                  (CodecInst.pipe_enc_len algo mb) ms hdr (proj1 ms_ok) track_pos F0 bl tail FD LT) as (L & C & O1 & O2).
      split; [exact L|].
      unfold C03Inst.blocksH_pipe, zlen. rewrite Nat2Z.id, <- TR. unfold PipelineClean.bres_of.
      destruct C as [C|C]; rewrite C; [left; split; [reflexivity|]|right].
      { intros NE. assert (NE' : concat (map Pipeline.msg bl) <> firstn hdr F0) by (intros E; apply NE; rewrite E; reflexivity).
        specialize (O2 NE'). unfold Pipeline.hdr_file in C, O2.
        destruct (Pipeline.blocks_loop _ _ _ _ _ _ 0 true _) as [res q].
        destruct (existsb Pipeline.is_flagged (map snd res)); cbn in C, O2; [destruct (existsb Pipeline.is_failed (map snd res)); discriminate|discriminate]. }
      destruct (hdr_file_complete_out _ _ _ _ _ _ _ _ _ _ _ _ _ C) as [out Ho]. rewrite Ho, (O1 out Ho). reflexivity.
    Qed.

    Theorem repair_header marker delim ignore_size look preamble (T : list (list byte * list byte)) dmg want :
      marker <> [] ->
      clean_pieces marker (preamble :: map (gen_entry delim (C03Inst.fenc_h algo ik ies) track_h) T) ->
      (forall f, In f T ->
         prefixb delim (fst f ++ delim) = false /\ clean_mid delim (fst f) /\ clean_mid delim (size_of f) /\
         clean_mid delim (C03Inst.fenc_h algo ik ies (fst f)) /\ clean_mid delim (C03Inst.fenc_h algo ik ies (size_of f))) ->
      (forall f, In f T -> (N.of_nat (length (snd f)) < 10 ^ 4300)%N) ->
      (forall f, In f T -> has_nul (fst f) = false) ->
      NoDup (map fst T) ->
      (forall f, In f T -> look (fst f) = Some (dmg f)) ->
      (forall f, In f T -> found_h (snd f) (dmg f) (want f)) ->
      exists rs, Forall2 (rel want (fun f => dmg f <> want f)) T rs /\
        run_h marker delim ignore_size look (C03Inst.intra_h algo ik ies idec) blocksH
              (generate marker delim (C03Inst.fenc_h algo ik ies) track_h preamble T)
        = Done (mkC (length T) (n_full_of rs) (n_full_of rs) 0 0) (outs_of rs) 0.
    Proof.
      intros Hm U1 U2 SZ NN ND LK FH.
      apply (repair_h T want (fun f => dmg f <> want f) marker delim ignore_size look (C03Inst.intra_h algo ik ies idec) blocksH
               (C03Inst.fenc_h algo ik ies) track_h preamble dmg Hm U1 U2).
      - intros f _. split; apply (C03Inst.intra_facts algo ik ies ik_pos ik_le idec).
      - intros f Hf. unfold size_of, zlen. rewrite (py_int_dec _ (SZ f Hf)), nat_N_Z. reflexivity.
      - exact NN.
      - exact ND.
      - exact LK.
      - intros f Hf. exact (proj1 (found_h_blocks _ _ _ (FH f Hf))).
      - intros f Hf. exact (proj2 (found_h_blocks _ _ _ (FH f Hf))).
    Qed.

    (* the same run restricted with a non-empty errors file L (Select.v): only the listed files, all repaired *)
    Theorem sel_repair_header marker delim ignore_size look preamble (T : list (list byte * list byte)) dmg want L :
      L <> [] -> marker <> [] ->
      clean_pieces marker (preamble :: map (gen_entry delim (C03Inst.fenc_h algo ik ies) track_h) T) ->
      (forall f, In f T ->
         prefixb delim (fst f ++ delim) = false /\ clean_mid delim (fst f) /\ clean_mid delim (size_of f) /\
         clean_mid delim (C03Inst.fenc_h algo ik ies (fst f)) /\ clean_mid delim (C03Inst.fenc_h algo ik ies (size_of f))) ->
      (forall f, In f T -> (N.of_nat (length (snd f)) < 10 ^ 4300)%N) ->
      (forall f, In f T -> has_nul (fst f) = false) ->
      NoDup (map fst T) ->
      (forall f, In f T -> look (fst f) = Some (dmg f)) ->
      (forall f, In f T -> found_h (snd f) (dmg f) (want f)) ->
      exists rs, Forall2 (rel want (fun f => dmg f <> want f)) (SelectP.Tsel T L) rs /\
        Select.run_h_sel marker delim ignore_size look (C03Inst.intra_h algo ik ies idec) L blocksH
              (generate marker delim (C03Inst.fenc_h algo ik ies) track_h preamble T)
        = Done (mkC (length (SelectP.Tsel T L)) (n_full_of rs) (n_full_of rs) 0 0) (outs_of rs) 0.
    Proof.
      intros HL Hm U1 U2 SZ NN ND LK FH.
      apply (SelectP.sel_repair_h T want (fun f => dmg f <> want f) marker delim ignore_size look (C03Inst.intra_h algo ik ies idec) blocksH
               (C03Inst.fenc_h algo ik ies) track_h preamble dmg L HL Hm U1 U2).
      - intros f _. split; apply (C03Inst.intra_facts algo ik ies ik_pos ik_le idec).
      - intros f Hf. unfold size_of, zlen. rewrite (py_int_dec _ (SZ f Hf)), nat_N_Z. reflexivity.
      - exact NN.
      - exact ND.
      - exact LK.
      - intros f Hf. exact (proj1 (found_h_blocks _ _ _ (FH f Hf))).
      - intros f Hf. exact (proj2 (found_h_blocks _ _ _ (FH f Hf))).
    Qed.
  End Header.

  Section Whole.
    Variable mu : nat -> nat -> nat.               (* file size -> file offset -> message size *)
    Hypothesis mu_ok : forall s c, 1 <= mu s c <= mb.
    Hypothesis track_pos : forall s c, 1 <= hlen + (mb - mu s c).
    Variable window : nat.
    Notation track_w := (C03Inst.track_w algo mb hash mu).
    Notation blocksW := (C03Inst.blocksW_pipe algo mb hash hlen bdec o fast mu).

    Definition found_w (F0 D W : list byte) : Prop :=
      exists bl,
        D = concat (map Pipeline.msg bl) /\
        Forall2 damaged_ok (Pipeline.sa_gen hash (mu (length F0)) penc F0) bl /\
        Pipeline.track_of bl = track_w F0 /\
        W = F0.

    Lemma found_w_blocks F0 D W : found_w F0 D W ->
      length D = length F0 /\
      forall d t e, sub d t e = track_w F0 -> e - t = length (track_w F0) ->
        (fst (blocksW d t e (zlen F0) D) = BClean /\ ~ D <> W) \/ fst (blocksW d t e (zlen F0) D) = BCorrupt RFull (Some W).
    Proof.
      intros (bl & -> & FD & TR & ->).
      pose proof (fun junk => PipelineP.sa_file_repairs (option byte) hash pchk bdec penc o fast pcap pwf mb hlen
                  (CodecInst.pipe_chk_enc algo mb) dec_complete (CodecInst.pipe_code_dist algo mb mb255 o) hash_len
                  (CodecInst.pipe_enc_len algo mb) (mu (length F0)) (fun c => proj1 (mu_ok (length F0) c)) (track_pos (length F0)) F0 bl junk FD) as R.
      split; [exact (proj1 (R []))|].
      intros d t e S LE. unfold C03Inst.blocksW_pipe, zlen. rewrite Nat2Z.id. cbn [fst]. unfold sub in S.
      remember (skipn (e - t) (skipn t d)) as junk eqn:EJ.
      assert (D : skipn t d = track_w F0 ++ junk) by (rewrite EJ, <- S; symmetry; apply firstn_skipn).
      rewrite D, LE, <- TR.
      destruct (R junk) as (_ & C & O1 & O2).
      unfold PipelineClean.bres_of.
      destruct C as [C|C]; rewrite C; [left; split; [reflexivity|]|right].
      { intros NE. specialize (O2 NE). unfold Pipeline.sa_file in C, O2.
        destruct (Pipeline.sa_detect hash pchk fast _) as [det q1]. destruct det; [|cbn in O2; discriminate].
        destruct (Pipeline.blocks_loop _ _ _ _ _ _ 0 true _) as [res q2].
        destruct (existsb Pipeline.is_repaired (map snd res)); cbn in C, O2; [destruct (existsb Pipeline.is_failed (map snd res)); discriminate|discriminate]. }
      destruct (sa_file_complete_out _ _ _ _ _ _ _ _ _ _ _ _ C) as [out Ho]. rewrite Ho, (O1 out Ho). reflexivity.
    Qed.

    Theorem repair_whole marker delim ignore_size look preamble (T : list (list byte * list byte)) dmg want :
      marker <> [] ->
      clean_pieces marker (preamble :: map (gen_entry delim (C03Inst.fenc_w algo ik ies) track_w) T) ->
      (forall f, In f T ->
         prefixb delim (fst f ++ delim) = false /\ clean_mid delim (fst f) /\ clean_mid delim (size_of f) /\
         clean_mid delim (C03Inst.fenc_w algo ik ies (fst f)) /\ clean_mid delim (C03Inst.fenc_w algo ik ies (size_of f))) ->
      (forall f, In f T -> (N.of_nat (length (snd f)) < 10 ^ 4300)%N) ->
      (forall f, In f T -> has_nul (fst f) = false) ->
      NoDup (map fst T) ->
      (forall f, In f T -> look (fst f) = Some (dmg f)) ->
      (forall f, In f T -> found_w (snd f) (dmg f) (want f)) ->
      (forall f, In f T -> meta_len delim (fst f) (size_of f) (C03Inst.fenc_w algo ik ies (fst f)) (C03Inst.fenc_w algo ik ies (size_of f)) <= window) ->
      exists rs, Forall2 (rel want (fun f => dmg f <> want f)) T rs /\
        run_w marker delim ignore_size look (C03Inst.intra_w algo ik ies idec) window blocksW
              (generate marker delim (C03Inst.fenc_w algo ik ies) track_w preamble T)
        = Done (mkC (length T) (n_full_of rs) (n_full_of rs) 0 0) (outs_of rs) 0.
    Proof.
      intros Hm U1 U2 SZ NN ND LK FW MF.
      apply (repair_w T want (fun f => dmg f <> want f) marker delim ignore_size look (C03Inst.intra_w algo ik ies idec) window blocksW
               (C03Inst.fenc_w algo ik ies) track_w preamble dmg Hm U1 U2).
      - intros f _. split; apply (C03Inst.intra_facts algo ik ies ik_pos ik_le idec).
      - intros f Hf. unfold size_of, zlen. rewrite (py_int_dec _ (SZ f Hf)), nat_N_Z. reflexivity.
      - exact NN.
      - exact ND.
      - exact LK.
      - intros f Hf. exact (proj1 (found_w_blocks _ _ _ (FW f Hf))).
      - exact MF.
      - intros f d t e Hf S LE. exact (proj2 (found_w_blocks _ _ _ (FW f Hf)) d t e S LE).
    Qed.

    Theorem sel_repair_whole marker delim ignore_size look preamble (T : list (list byte * list byte)) dmg want L :
      L <> [] -> marker <> [] ->
      clean_pieces marker (preamble :: map (gen_entry delim (C03Inst.fenc_w algo ik ies) track_w) T) ->
      (forall f, In f T ->
         prefixb delim (fst f ++ delim) = false /\ clean_mid delim (fst f) /\ clean_mid delim (size_of f) /\
         clean_mid delim (C03Inst.fenc_w algo ik ies (fst f)) /\ clean_mid delim (C03Inst.fenc_w algo ik ies (size_of f))) ->
      (forall f, In f T -> (N.of_nat (length (snd f)) < 10 ^ 4300)%N) ->
      (forall f, In f T -> has_nul (fst f) = false) ->
      NoDup (map fst T) ->
      (forall f, In f T -> look (fst f) = Some (dmg f)) ->
      (forall f, In f T -> found_w (snd f) (dmg f) (want f)) ->
      (forall f, In f T -> meta_len delim (fst f) (size_of f) (C03Inst.fenc_w algo ik ies (fst f)) (C03Inst.fenc_w algo ik ies (size_of f)) <= window) ->
      exists rs, Forall2 (rel want (fun f => dmg f <> want f)) (SelectP.Tsel T L) rs /\
        Select.run_w_sel marker delim ignore_size look (C03Inst.intra_w algo ik ies idec) L window blocksW
              (generate marker delim (C03Inst.fenc_w algo ik ies) track_w preamble T)
        = Done (mkC (length (SelectP.Tsel T L)) (n_full_of rs) (n_full_of rs) 0 0) (outs_of rs) 0.
    Proof.
      intros HL Hm U1 U2 SZ NN ND LK FW MF.
      apply (SelectP.sel_repair_w T want (fun f => dmg f <> want f) marker delim ignore_size look (C03Inst.intra_w algo ik ies idec) window blocksW
               (C03Inst.fenc_w algo ik ies) track_w preamble dmg L HL Hm U1 U2).
      - intros f _. split; apply (C03Inst.intra_facts algo ik ies ik_pos ik_le idec).
      - intros f Hf. unfold size_of, zlen. rewrite (py_int_dec _ (SZ f Hf)), nat_N_Z. reflexivity.
      - exact NN.
      - exact ND.
      - exact LK.
      - intros f Hf. exact (proj1 (found_w_blocks _ _ _ (FW f Hf))).
      - exact MF.
      - intros f d t e Hf S LE. exact (proj2 (found_w_blocks _ _ _ (FW f Hf)) d t e S LE).
    Qed.
  End Whole.
End Inst.
