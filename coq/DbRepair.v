(* DbRepair.v — executable model of the DATABASE branch of the per-path merge step of
   replication_repair.synchronize_files (pyFileFixity/replication_repair.py), of
   check_file_with_database, of the accumulation of the exit status, and of the single-file
   check of rfigc.main (pyFileFixity/rfigc.py) whose path resolution made it unfit for that job.
   Model only: no property proofs here.  The vote is Vote.vote_chunked (C06).

   For one relative path `p` (a list of components) the code has the list of replicas holding it
   (`to_process`, ascending replica index) and
     - one holder            : copies it, marks the replica 'O';
     - several, database     : looks for the first holder that check_file_with_database accepts
                               (True); found => copies it, 'O' for that replica, hash column 'OK';
     - otherwise             : majority_vote_byte_scan over the holders;
     - database              : checks the written file: False => error code 1, hash column 'KO';
                               True => 'OK'; None (no entry for this path) => nothing changes;
     - error code non-zero   : error column 'KO', message, exit status of the run becomes 1.
   md5 / sha1 are oracles (Section variables). *)
From Coq Require Import List Arith Bool NArith.
From Coq Require Import Strings.Byte.
From PFF Require Import Bytes Vote.
Import ListNotations.

Fixpoint list_eqb {A} (eqb : A -> A -> bool) (a b : list A) : bool :=
  match a, b with
  | [], [] => true
  | x :: a', y :: b' => eqb x y && list_eqb eqb a' b'
  | _, _ => false
  end.

Definition bytes_eqb : list byte -> list byte -> bool := list_eqb byte_eqb.

(* a relative posix path = its components ("sub/n.txt" = ["sub"; "n.txt"]); components hold no '/' *)
Definition path := list (list byte).
Definition path_eqb : path -> path -> bool := list_eqb bytes_eqb.

(* one row of the rfigc csv: path, md5, sha1 (hex digests as text), size *)
Record dbrow := { r_path : path; r_md5 : list byte; r_sha1 : list byte; r_size : N }.

(* report cells: '-', 'X', 'O', 'OK', 'KO' *)
Inductive cell := CDash | CX | CO | COK | CKO.

Definition is_nilb {A} (l : list A) : bool := match l with [] => true | _ => false end.

Fixpoint set_nth {A} (n : nat) (x : A) (l : list A) {struct l} : list A :=
  match l, n with
  | [], _ => []
  | _ :: t, 0 => x :: t
  | y :: t, S n' => y :: set_nth n' x t
  end.

(* outcome of the step for one path *)
Record result := {
  out : list byte;          (* content written to the output tree *)
  errcode : nat;            (* contribution to the exit status (non-zero => the run returns 1) *)
  taken : option nat;       (* replica used as the already-correct copy, if any *)
  row : option (list cell * cell * cell * bool)
                            (* report row: dirN columns, hash-correct, error_code, errors column filled? *)
}.

Section DbRepair.
  Variables md5 sha1 : list byte -> list byte.

  Definition row_ok (c : list byte) (r : dbrow) : bool :=
    bytes_eqb (md5 c) (r_md5 r) && bytes_eqb (sha1 c) (r_sha1 r).

  (* `if not row['path'] or path2unix(row['path']) != relfilepath: continue` *)
  Definition row_sel (p : path) (r : dbrow) : bool :=
    negb (is_nilb (r_path r)) && path_eqb (r_path r) p.

  (* check_file_with_database: the loop over the rows, `result` threaded *)
  Fixpoint db_check_loop (db : list dbrow) (p : path) (c : list byte) (result : option bool) : option bool :=
    match db with
    | [] => result
    | r :: t =>
        if row_sel p r then
          if row_ok c r then db_check_loop t p c (Some true) else Some false
        else db_check_loop t p c result
    end.

  Definition db_check (db : list dbrow) (p : path) (c : list byte) : option bool :=
    db_check_loop db p c None.

  Definition accepted (odb : option (list dbrow)) (p : path) (c : list byte) : bool :=
    match odb with
    | None => false
    | Some db => match db_check db p c with Some true => true | _ => false end
    end.

  (* `for id, filepath in enumerate(fileslist): if check(...): correct_file = filepath; break` *)
  Definition find_correct (odb : option (list dbrow)) (p : path) (holders : list (nat * list byte))
    : option (nat * list byte) :=
    find (fun h => accepted odb p (snd h)) holders.

  (* which content is written, with which error code, and which replica (if any) was taken as
     the already-correct copy *)
  Definition choose (odb : option (list dbrow)) (bs : nat) (p : path) (holders : list (nat * list byte))
    : list byte * nat * option nat :=
    match holders with
    | [h] => (snd h, 0, None)                       (* only one holder: shutil.copyfile *)
    | _ =>
        match find_correct odb p holders with
        | Some h => (snd h, 0, Some (fst h))        (* a holder the database accepts: copied over *)
        | None => let '(o, s) := vote_chunked byte_eqb bs (map snd holders) in (o, s, None)
        end
    end.

  (* the dirN cells: 'X' under every holder, then 'O' under the single holder / the taken replica *)
  Definition dir_cells (nrep : nat) (holders : list (nat * list byte)) (tk : option nat) : list cell :=
    let dirs0 := fold_left (fun d h => set_nth (fst h) CX d) holders (repeat CDash nrep) in
    match holders, tk with
    | [h], _ => set_nth (fst h) CO dirs0
    | _, Some i => set_nth i CO dirs0
    | _, None => dirs0
    end.

  (* the after-merge check of the written file *)
  Definition post_check (odb : option (list dbrow)) (p : path) (o : list byte) : option bool :=
    match odb with None => None | Some db => db_check db p o end.

  Definition merge_step (odb : option (list dbrow)) (report : bool) (bs nrep : nat) (p : path)
             (holders : list (nat * list byte)) : result :=
    let '(o, e, tk) := choose odb bs p holders in
    let post := post_check odb p o in
    let e2 := match post with Some false => 1 | _ => e end in
    let hc := match post with
              | Some false => CKO
              | Some true => COK
              | None => match tk with Some _ => COK | None => CDash end   (* set before the check *)
              end in
    {| out := o; errcode := e2; taken := tk;
       row := if report
              then Some (dir_cells nrep holders tk, hc, if e2 =? 0 then COK else CKO, negb (e2 =? 0))
              else None |}.

  (* ---- rfigc.main in check mode on a single file, as replication_repair used to call it
          (-i <replica root>/<rel> -d db -m --silent): rootfolderpath = dirname(inputpath); a row is
          looked at only when join(rootfolderpath, row.path) == inputpath; errors: hash mismatch or
          size change (mtime is disabled by -m; the ext field is taken to be the extension of the row
          path, as rfigc -g writes it).  The common prefix <replica root> is dropped from both sides.
          Returns the return value (true = 1 = errors found). *)
  Definition row_err (c : list byte) (r : dbrow) : bool :=
    negb (row_ok c r) || negb (N.eqb (N.of_nat (length c)) (r_size r)).

  Definition rfigc_single (db : list dbrow) (rel : path) (c : list byte) : bool :=
    existsb (fun r => path_eqb (removelast rel ++ r_path r) rel && row_err c r) db.
End DbRepair.

(* `retcode = 1` as soon as one path has a non-zero error code *)
Definition run_status (codes : list nat) : nat :=
  if existsb (fun c => negb (c =? 0)) codes then 1 else 0.
