(* Scan.v — model of pyFileFixity/lib/aux_funcs.py get_next_entry (after the C14 fix) and the
   specification of "the entries of an ecc stream".  Model and specification only; every
   lemma and proof is in Proofs/ScanP.v.

   A file object is a pair (stream : list byte, position : nat):
     file.tell()   = position
     file.seek(p)  : position := p            (p may lie beyond the end, as for real files)
     file.read(n)  = firstn n (skipn position stream); position += length of what was read
   bytes.find(sub, start) is [find]. *)
From Coq Require Import List Arith Bool.
From Coq Require Import Strings.Byte.
From PFF Require Import Bytes.
Import ListNotations.

(* ---------- byte strings ---------- *)

(* [prefixb m s] : s starts with m   (Python: s.startswith(m)) *)
Fixpoint prefixb (m s : list byte) : bool :=
  match m, s with
  | [], _ => true
  | x :: m', y :: s' => byte_eqb x y && prefixb m' s'
  | _ :: _, [] => false
  end.

(* first index >= i0 + (position in t) at which m occurs; t is the suffix of the searched string
   that begins at index i0 *)
Fixpoint find_aux (m t : list byte) (i0 : nat) : option nat :=
  if prefixb m t then Some i0
  else match t with
       | [] => None
       | _ :: t' => find_aux m t' (S i0)
       end.

(* Python  s.find(m, from)  for 0 <= from:  lowest index i >= from with s[i:i+len(m)] == m, else None (-1). *)
Definition find (m s : list byte) (from : nat) : option nat :=
  if from <=? length s then find_aux m (skipn from s) from else None.

(* file.read(n) at position pos *)
Definition read (s : list byte) (pos n : nat) : list byte := firstn n (skipn pos s).

(* ---------- get_next_entry ---------- *)

Inductive loop_result :=
| Found (startcursor endcursor : nat)     (* found = True *)
| NotFound (tell : nat)                   (* loop left by the EOF break with found = False; file position *)
| LoopFuel.                               (* model artefact: fuel exhausted (excluded by the theorems) *)

(* The while loop.  State carried from one round to the next: bufcursor, startcursor.
   [bs] is the block size after the sanity adjustment. *)
Fixpoint scan_loop (fuel : nat) (m s : list byte) (bs bufcursor : nat) (startcursor : option nat)
  : loop_result :=
  match fuel with
  | 0 => LoopFuel
  | S fuel' =>
    let buf := read s bufcursor bs in                       (* file.seek(bufcursor); buf = file.read(blocksize) *)
    let tell := bufcursor + length buf in
    let '(sc, searchfrom) :=
      match startcursor with
      | Some c => (Some c, 0)
      | None => match find m buf 0 with                     (* start = buf.find(entrymarker) *)
                | Some st => (Some (bufcursor + st), st + length m)
                | None => (None, 0)
                end
      end in
    let next := Nat.max (bufcursor + searchfrom) (bufcursor + length buf - (length m - 1)) in
    match sc with
    | Some c =>
      match find m buf searchfrom with                      (* end = buf.find(entrymarker, searchfrom) *)
      | Some e => Found c (bufcursor + e)
      | None => if length buf <? bs then Found c tell       (* EOF: the entry ends with the file *)
                else scan_loop fuel' m s bs next sc
      end
    | None => if length buf <? bs then NotFound tell        (* EOF break, nothing found *)
              else scan_loop fuel' m s bs next sc
    end
  end.

(* if blocksize <= len(entrymarker): blocksize = len(entrymarker) + 1 *)
Definition eff_bs (mlen bs : nat) : nat := if bs <=? mlen then S mlen else bs.

Inductive ret :=
| RNone                          (* return None *)
| RCoord (a e : nat)             (* only_coord: [startcursor + len(entrymarker), endcursor] *)
| RBytes (l : list byte)         (* the entry's content *)
| RFuel.                         (* model artefact *)

(* One call: result and the file position it leaves. *)
Definition get_next_entry (m : list byte) (only_coord : bool) (bs : nat) (s : list byte) (pos : nat)
  : ret * nat :=
  match scan_loop (S (length s)) m s (eff_bs (length m) bs) pos None with
  | Found c e =>
      let a := c + length m in                             (* file.seek(startcursor + len(entrymarker)) *)
      if only_coord then (RCoord a e, a)
      else let data := read s a (e - c - length m) in (RBytes data, a + length data)
  | NotFound t => (RNone, t)
  | LoopFuel => (RFuel, pos)
  end.

(* Calling it again and again on the same handle until it returns None (what the callers do):
   the list of (result, position after the call), the final None included. *)
Fixpoint scan_calls (fuel : nat) (m : list byte) (only_coord : bool) (bs : nat) (s : list byte) (pos : nat)
  : list (ret * nat) :=
  match fuel with
  | 0 => []
  | S fuel' =>
    let '(r, pos') := get_next_entry m only_coord bs s pos in
    match r with
    | RNone | RFuel => [(r, pos')]
    | _ => (r, pos') :: scan_calls fuel' m only_coord bs s pos'
    end
  end.

Definition scan_all (m : list byte) (only_coord : bool) (bs : nat) (s : list byte) (pos : nat) :=
  scan_calls (length s + 2) m only_coord bs s pos.

(* ---------- specification: the entries of a stream ---------- *)

(* Positions of the marker occurrences met when reading t (the suffix that begins at index i0) from
   left to right, an occurrence that begins inside the previous one being no occurrence
   ([skip] = how many more symbols belong to the previous occurrence). *)
Fixpoint marker_positions (m t : list byte) (i0 skip : nat) : list nat :=
  match t with
  | [] => []
  | _ :: t' =>
    match skip with
    | S k => marker_positions m t' (S i0) k
    | 0 => if prefixb m t then i0 :: marker_positions m t' (S i0) (length m - 1)
           else marker_positions m t' (S i0) 0
    end
  end.

(* from consecutive marker positions to entry spans: (end of marker, start of next marker | n) *)
Fixpoint spans (mlen n : nat) (ps : list nat) : list (nat * nat) :=
  match ps with
  | [] => []
  | c :: t => (c + mlen, match t with [] => n | c' :: _ => c' end) :: spans mlen n t
  end.

(* The entries of stream s seen from position p. *)
Definition entries_spec (m s : list byte) (p : nat) : list (nat * nat) :=
  spans (length m) (length s) (marker_positions m (skipn p s) p 0).

(* What a call must return for the entry (a,e), and where it must leave the file. *)
Definition render (only_coord : bool) (s : list byte) (ae : nat * nat) : ret * nat :=
  let '(a, e) := ae in
  if only_coord then (RCoord a e, a) else (RBytes (firstn (e - a) (skipn a s)), e).

Definition scan_spec (m : list byte) (only_coord : bool) (s : list byte) (p : nat) : list (ret * nat) :=
  map (render only_coord s) (entries_spec m s p) ++ [(RNone, Nat.max p (length s))].

(* m occurs in s at index i *)
Definition occ (m s : list byte) (i : nat) : Prop := i <= length s /\ prefixb m (skipn i s) = true.

(* a stream built from a preamble and entries, each entry preceded by the marker *)
Definition build (m pre : list byte) (es : list (list byte)) : list byte :=
  pre ++ concat (map (fun e => m ++ e) es).

(* no proper self-overlap: no k with 0 < k < |m| such that the last k symbols of m are its first k *)
Definition border_free (m : list byte) : bool :=
  forallb (fun k => negb (prefixb (skipn k m) m)) (seq 1 (length m - 1)).

Definition real_marker : list byte := [xfe;xff;xfe;xff;xfe;xff;xfe;xff;xfe;xff].

(* ---------- what "exact" means, stated on occurrences only ---------- *)

(* [exact_split m s p l] : l is the list of spans obtained from position p on when the stream is cut
   at full marker occurrences and nowhere else:
   - no marker begins between p and the first marker found (nothing is skipped),
   - each span begins right after a full marker and contains no beginning of a full marker
     (a run that only resembles a part of the marker ends no span: no split),
   - each span ends where a full marker begins, or at the end of the stream when no marker follows
     (a span never runs over a marker: no merge), and the next span belongs to that marker. *)
Inductive exact_split (m s : list byte) : nat -> list (nat * nat) -> Prop :=
| split_end p : (forall j, p <= j -> ~ occ m s j) -> exact_split m s p []
| split_entry p c e rest :
    p <= c -> occ m s c -> (forall j, p <= j -> j < c -> ~ occ m s j) ->
    c + length m <= e -> (forall j, c + length m <= j -> j < e -> ~ occ m s j) ->
    (occ m s e \/ (e = length s /\ forall j, c + length m <= j -> ~ occ m s j)) ->
    exact_split m s e rest ->
    exact_split m s p ((c + length m, e) :: rest).

(* ---------- streams built from a preamble and entries ---------- *)

(* [clean m e] : in e followed by a marker, the first marker met is that one (e may begin or end with
   any run that resembles a part of the marker, as long as no full marker arises before its end) *)
Definition clean (m e : list byte) : Prop := find m (e ++ m) 0 = Some (length e).

(* the pieces e0, e1, ... of a stream  e0 ++ m ++ e1 ++ m ++ ... ++ m ++ en : every piece that is followed by a
   marker is clean, the last one contains no marker *)
Fixpoint chain_ok (m e0 : list byte) (es : list (list byte)) : Prop :=
  match es with
  | [] => find m e0 0 = None
  | e1 :: t => clean m e0 /\ chain_ok m e1 t
  end.

(* where the entries lie in  u ++ m ++ e1 ++ m ++ e2 ...  when |u| = off *)
Fixpoint layout (mlen off : nat) (es : list (list byte)) : list (nat * nat) :=
  match es with
  | [] => []
  | e :: t => (off + mlen, off + mlen + length e) :: layout mlen (off + mlen + length e) t
  end.

Definition slice (s : list byte) (ae : nat * nat) : list byte := firstn (snd ae - fst ae) (skipn (fst ae) s).

(* what truncating the stream to its first k symbols does to the entries: those whose start marker
   is cut disappear, the last remaining one ends with the truncated stream *)
Definition clip_entries (mlen k : nat) (l : list (nat * nat)) : list (nat * nat) :=
  map (fun ae => (fst ae, if snd ae + mlen <=? k then snd ae else k))
      (filter (fun ae => fst ae <=? k) l).
