(* Walk.v — executable model of the sorted recursive walk used by `pff dup`
   (pyFileFixity/lib/aux_funcs.py `recwalk(path, sorting=True)` followed by
   replication_repair.relpath_posix).  Model only: no property proofs here.

   recwalk iterates os.walk (top-down): for a directory it gets (dirpath, dirs, files), sorts
   `files` and `dirs` in place, yields (dirpath, filename) for every file in sorted order, and
   os.walk then descends into the sub-directories in the (sorted) order of `dirs`, depth first.
   relpath_posix turns (dirpath, filename) into the list of parts of the path relative to the
   replica root: the directory parts followed by the file name.

   A directory is `Dir files subs`; `files` and `subs` are in arbitrary (listing) order.
   Names are compared by `nltb` (Python: str comparison = code point order). *)
From Coq Require Import List Bool.
Import ListNotations.

(* list.sort() / sorted(..., key=...): a stable sort by a key; modelled as insertion sort (any
   stable sort gives the same list when the key order is a strict total order) *)
Section Sort.
  Context {E K : Type} (key : E -> K) (klt : K -> K -> bool).
  Fixpoint ins_by (e : E) (l : list E) : list E :=
    match l with
    | [] => [e]
    | h :: t => if klt (key h) (key e) then h :: ins_by e t else e :: h :: t
    end.
  Definition sort_by (l : list E) : list E := fold_right ins_by [] l.
End Sort.

Section Walk.
  Context {name A : Type} (nltb : name -> name -> bool).

  Inductive tree := Dir (files : list (name * A)) (subs : list (name * tree)).

  (* files.sort() / dirs.sort(): by name *)
  Definition sort_by_name {B : Type} (l : list (name * B)) : list (name * B) := sort_by fst nltb l.

  (* one walk result: (directory parts relative to the root, file name, payload) *)
  Definition entry : Type := list name * name * A.

  Definition under (x : name) (e : entry) : entry :=
    match e with (d, n, a) => (x :: d, n, a) end.

  (* files of the directory in sorted order, then every sub-directory in sorted order *)
  Fixpoint walk (t : tree) : list entry :=
    match t with
    | Dir files subs =>
        map (fun f => ([], fst f, snd f)) (sort_by_name files) ++
        concat (map snd (sort_by_name
          (map (fun s => match s with (x, sub) => (x, map (under x) (walk sub)) end) subs)))
    end.

  (* relpath_posix(...)[1] : the parts of the relative path *)
  Definition parts_of (e : entry) : list name := match e with (d, n, _) => d ++ [n] end.
  Definition payload (e : entry) : A := snd e.

  (* ---- the order in which walk returns paths: compare the directory part lists
     lexicographically (a proper prefix first = files of a directory before the content of its
     sub-directories), then the file names ---- *)
  Fixpoint lex_ltb (l1 l2 : list name) : bool :=
    match l1, l2 with
    | [], [] => false
    | [], _ :: _ => true
    | _ :: _, [] => false
    | x :: a, y :: b => if nltb x y then true else if nltb y x then false else lex_ltb a b
    end.

  Definition walk_ltb (p q : list name * name) : bool :=
    if lex_ltb (fst p) (fst q) then true
    else if lex_ltb (fst q) (fst p) then false
    else nltb (snd p) (snd q).

  (* ---- what it means for a tree to hold a file (independent of walk) ---- *)
  Fixpoint file_at (d : list name) (n : name) (a : A) (t : tree) {struct d} : Prop :=
    match d, t with
    | [], Dir files _ => In (n, a) files
    | x :: d', Dir _ subs => exists sub, In (x, sub) subs /\ file_at d' n a sub
    end.

  (* names unique per directory, everywhere *)
  Fixpoint wf (t : tree) : Prop :=
    match t with
    | Dir files subs =>
        NoDup (map fst files) /\ NoDup (map fst subs) /\
        (fix all (l : list (name * tree)) : Prop :=
           match l with [] => True | (_, s) :: r => wf s /\ all r end) subs
    end.

  (* builder used by the driver: add a file / an (empty) directory at a path *)
  Section Build.
    Context (neqb : name -> name -> bool).
    Fixpoint upd_sub (x : name) (g : tree -> tree) (subs : list (name * tree)) : list (name * tree) :=
      match subs with
      | [] => [(x, g (Dir [] []))]
      | (y, s) :: r => if neqb x y then (y, g s) :: r else (y, s) :: upd_sub x g r
      end.
    Fixpoint add_file (d : list name) (n : name) (a : A) (t : tree) : tree :=
      match d with
      | [] => match t with Dir fs subs => Dir (fs ++ [(n, a)]) subs end
      | x :: d' => match t with Dir fs subs => Dir fs (upd_sub x (add_file d' n a) subs) end
      end.
    Fixpoint add_dir (d : list name) (t : tree) : tree :=
      match d with
      | [] => t
      | x :: d' => match t with Dir fs subs => Dir fs (upd_sub x (add_dir d') subs) end
      end.
  End Build.
End Walk.

Arguments Dir {name A} files subs.
