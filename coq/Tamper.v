(* Tamper.v — executable model of pyFileFixity/filetamper.py: tamper_file (block loop, block
   probability, burst, header-only stop, erasure / noise rewrite), tamper_dir (files in walk order)
   and the file-vs-directory dispatch of main.  Model only; proofs are in Proofs/TamperP.v.

   The random module is an oracle: [rnd] is the stream of values returned by random.random()
   (exact rationals, DU) and random.randint(a,b) (integers, DI), consumed in the order in which the
   code's control flow asks for them.  An exhausted stream, a draw of the wrong kind, a random()
   value outside [0,1) or a randint value outside [a,b] is an explicit error, never a default.
   No floating point: the probability handed to tamper_file is the EFFECTIVE one, i.e. the value
   of `proba` after line 85 (`if proba >= 1: proba = 1.0/max(1,size)*proba`), as an exact rational. *)
From Coq Require Import List NArith ZArith QArith Bool.
From Coq Require Import Strings.Byte.
From PFF Require Import Bytes.
Import ListNotations.
Local Open Scope nat_scope.

Inductive draw := DU (q : Q) | DI (z : Z).
Inductive tmode := Erase | Noise | Other.          (* 'e'/'erasure', 'n'/'noise', any other string *)
Inductive err :=
| OutOfStream      (* the stream holds fewer draws than the run asks for *)
| BadDraw          (* wrong kind of draw, random() outside [0,1), randint outside its range *)
| BadRange         (* random.randint(a, b) with b < a raises ValueError *)
| OutOfFuel.       (* never produced: see TamperP.loop_fuel_enough *)
Inductive res (A : Type) := Ok (a : A) | Err (e : err).
Arguments Ok {A} a.
Arguments Err {A} e.

(* exact comparison of rationals: x < y *)
Definition Qltb (x y : Q) : bool := (Qnum x * QDen y <? Qnum y * QDen x)%Z.
(* 0 <= q < 1 : what random.random() can return *)
Definition valid_u (q : Q) : bool := (0 <=? Qnum q)%Z && (Qnum q <? QDen q)%Z.

Definition next_u (rnd : list draw) : res (Q * list draw) :=
  match rnd with
  | [] => Err OutOfStream
  | DU q :: r => if valid_u q then Ok (q, r) else Err BadDraw
  | DI _ :: _ => Err BadDraw
  end.

Definition next_i (lo hi : Z) (rnd : list draw) : res (Z * list draw) :=
  if (hi <? lo)%Z then Err BadRange else
  match rnd with
  | [] => Err OutOfStream
  | DI z :: r => if (lo <=? z)%Z && (z <=? hi)%Z then Ok (z, r) else Err BadDraw
  | DU _ :: _ => Err BadDraw
  end.

(* fh.read(n) on what remains of the file: (bytes read, what remains after) *)
Fixpoint readn (n : N) (l : list byte) : list byte * list byte :=
  match l with
  | [] => ([], [])
  | x :: t => if (n =? 0)%N then ([], l) else let (a, b) := readn (N.pred n) t in (x :: a, b)
  end.

(* lines 90-99: the scan of one block.  Result: selection mask (True at i <-> i in pos2tamper).
   br = burst_remain (an integer; randint(..)-1 may be negative). *)
Fixpoint scan (p : Q) (burst : option (Z * Z)) (n : nat) (br : Z) (rnd : list draw)
  : res (list bool * list draw) :=
  match n with
  | O => Ok ([], rnd)
  | S n' =>
      if (0 <? br)%Z then
        match scan p burst n' (br - 1)%Z rnd with
        | Ok (m, r) => Ok (true :: m, r) | Err e => Err e end
      else
        match next_u rnd with
        | Err e => Err e
        | Ok (q, r1) =>
            if Qltb q p then
              match burst with
              | None =>
                  match scan p burst n' br r1 with
                  | Ok (m, r) => Ok (true :: m, r) | Err e => Err e end
              | Some (lo, hi) =>
                  match next_i lo hi r1 with
                  | Err e => Err e
                  | Ok (z, r2) =>
                      match scan p burst n' (z - 1)%Z r2 with
                      | Ok (m, r) => Ok (true :: m, r) | Err e => Err e end
                  end
              end
            else
              match scan p burst n' br r1 with
              | Ok (m, r) => Ok (false :: m, r) | Err e => Err e end
        end
  end.

Fixpoint count_true (m : list bool) : nat :=
  match m with [] => 0 | true :: t => S (count_true t) | false :: t => count_true t end.

Definition byte_of_Z (z : Z) : byte := byte_of_N (Z.to_N z).

(* lines 104-109: rewrite the selected positions *)
Fixpoint apply_mask (md : tmode) (buf : list byte) (m : list bool) (rnd : list draw)
  : res (list byte * list draw) :=
  match buf, m with
  | [], _ => Ok ([], rnd)
  | _, [] => Ok (buf, rnd)
  | b :: buf', false :: m' =>
      match apply_mask md buf' m' rnd with
      | Ok (o, r) => Ok (b :: o, r) | Err e => Err e end
  | b :: buf', true :: m' =>
      match md with
      | Erase =>
          match apply_mask md buf' m' rnd with
          | Ok (o, r) => Ok (x00 :: o, r) | Err e => Err e end
      | Noise =>
          match next_i 0 255 rnd with
          | Err e => Err e
          | Ok (z, r1) =>
              match apply_mask md buf' m' r1 with
              | Ok (o, r) => Ok (byte_of_Z z :: o, r) | Err e => Err e end
          end
      | Other =>
          match apply_mask md buf' m' rnd with
          | Ok (o, r) => Ok (b :: o, r) | Err e => Err e end
      end
  end.

(* `not block_proba` is True for None and for 0.0 *)
Definition block_prob (bp : option Q) : option Q :=
  match bp with
  | Some q => if (Qnum q =? 0)%Z then None else Some q
  | None => None
  end.

(* per-block record (model-internal trace): selected?, len(pos2tamper), len(buf) *)
Record blockrec := mkrec { b_sel : bool; b_cnt : nat; b_len : nat }.

(* lines 88-115: one block *)
Definition do_block (md : tmode) (p : Q) (bp : option Q) (burst : option (Z * Z))
           (buf : list byte) (rnd : list draw) : res (list byte * blockrec * list draw) :=
  match (match block_prob bp with
         | None => Ok (true, rnd)
         | Some bq => match next_u rnd with
                      | Ok (q, r) => Ok (Qltb q bq, r) | Err e => Err e end
         end) with
  | Err e => Err e
  | Ok (false, r1) => Ok (buf, mkrec false 0 (length buf), r1)
  | Ok (true, r1) =>
      match scan p burst (length buf) 0%Z r1 with
      | Err e => Err e
      | Ok (m, r2) =>
          match apply_mask md buf m r2 with
          | Err e => Err e
          | Ok (o, r3) => Ok (o, mkrec true (count_true m) (length buf), r3)
          end
      end
  end.

(* the while loop, lines 86-122.  hdr = `header and header > 0`; bs = the effective blocksize. *)
Fixpoint loop (fuel : nat) (md : tmode) (p : Q) (bp : option Q) (burst : option (Z * Z))
         (hdr : bool) (bs : N) (content : list byte) (rnd : list draw)
  : res (list byte * list blockrec * list draw) :=
  match fuel with
  | O => Err OutOfFuel
  | S f =>
      let (buf, rest) := readn bs content in
      match buf with
      | [] => Ok (content, [], rnd)
      | _ :: _ =>
          match do_block md p bp burst buf rnd with
          | Err e => Err e
          | Ok (o, rc, r1) =>
              if hdr then Ok (o ++ rest, [rc], r1)
              else match loop f md p bp burst hdr bs rest r1 with
                   | Err e => Err e
                   | Ok (o', rcs, r2) => Ok (o ++ o', rc :: rcs, r2)
                   end
          end
      end
  end.

Definition hdr_active (h : option Z) : bool :=
  match h with Some z => (0 <? z)%Z | None => false end.
(* lines 79-80 *)
Definition eff_bs (h : option Z) (bs : N) : N :=
  match h with Some z => if (0 <? z)%Z then Z.to_N z else bs | None => bs end.

Definition sum_cnt (l : list blockrec) : nat := list_sum (map b_cnt l).
Definition sum_len (l : list blockrec) : nat := list_sum (map b_len l).

Definition tamper_trace (md : tmode) (p : Q) (bp : option Q) (burst : option (Z * Z)) (h : option Z)
           (bs : N) (content : list byte) (rnd : list draw) :=
  loop (S (length content)) md p bp burst (hdr_active h) (eff_bs h bs) content rnd.

(* tamper_file: (file bytes afterwards, tamper_count, total_size, remaining stream) *)
Definition tamper_file (md : tmode) (p : Q) (bp : option Q) (burst : option (Z * Z)) (h : option Z)
           (bs : N) (content : list byte) (rnd : list draw) : res (list byte * nat * nat * list draw) :=
  match tamper_trace md p bp burst h bs content rnd with
  | Err e => Err e
  | Ok (o, rcs, r) => Ok (o, sum_cnt rcs, sum_len rcs, r)
  end.

(* tamper_dir over the files in walk order; each file comes with its own effective probability
   (the p >= 1 normalisation depends on the file's size).
   Result: (files afterwards, (files_tampered, filescount, tamper_count, total_size), stream). *)
Fixpoint tamper_dir (md : tmode) (bp : option Q) (burst : option (Z * Z)) (h : option Z) (bs : N)
         (files : list (Q * list byte)) (rnd : list draw)
  : res (list (list byte) * (nat * nat * nat * nat) * list draw) :=
  match files with
  | [] => Ok ([], (0, 0, 0, 0), rnd)
  | (p, c) :: fs =>
      match tamper_file md p bp burst h bs c rnd with
      | Err e => Err e
      | Ok (c', cnt, sz, r1) =>
          match tamper_dir md bp burst h bs fs r1 with
          | Err e => Err e
          | Ok (cs, (ft, fc, tc, ts), r2) =>
              Ok (c' :: cs, ((if 0 <? cnt then 1 else 0) + ft, S fc, cnt + tc, sz + ts), r2)
          end
      end
  end.

(* main(), lines 283-293: what is printed ("x/y characters", and for a directory "a/b files") *)
Inductive report := RFile (tcount tsize : nat) | RDir (ftamp fcount tcount tsize : nat).

Definition main_file md p bp burst h bs content rnd : res (list byte * report * list draw) :=
  match tamper_file md p bp burst h bs content rnd with
  | Err e => Err e
  | Ok (o, cnt, sz, r) => Ok (o, RFile cnt sz, r)
  end.

Definition main_dir md bp burst h bs files rnd : res (list (list byte) * report * list draw) :=
  match tamper_dir md bp burst h bs files rnd with
  | Err e => Err e
  | Ok (cs, (ft, fc, tc, ts), r) => Ok (cs, RDir ft fc tc ts, r)
  end.

(* the -m argument *)
Fixpoint bytes_eqb (a b : list byte) : bool :=
  match a, b with
  | [], [] => true
  | x :: a', y :: b' => byte_eqb x y && bytes_eqb a' b'
  | _, _ => false
  end.
Definition mode_of (s : list byte) : tmode :=
  if bytes_eqb s [x65] || bytes_eqb s [x65; x72; x61; x73; x75; x72; x65] then Erase
  else if bytes_eqb s [x6e] || bytes_eqb s [x6e; x6f; x69; x73; x65] then Noise
  else Other.

(* ---------- vocabulary of the property statements (no proofs here) ---------- *)
(* number of offsets at which two equally long files differ *)
Definition differing (a b : list byte) : nat :=
  length (filter (fun xy : byte * byte => negb (byte_eqb (fst xy) (snd xy))) (combine a b)).
(* every offset either keeps its byte or now holds zero *)
Definition only_zeroed (a b : list byte) : Prop :=
  Forall (fun xy : byte * byte => snd xy = fst xy \/ snd xy = x00) (combine a b).
(* the k-th block of a file read bs bytes at a time *)
Definition block (bs k : nat) (l : list byte) : list byte := firstn bs (skipn (k * bs) l).
(* size of the region tamper_file is allowed to look at *)
Definition region_size (h : option Z) (len : nat) : nat :=
  match h with
  | Some z => if (0 <? z)%Z then Nat.min (Z.to_nat z) len else len
  | None => len
  end.
(* the effective block size, as a length *)
Definition bsize (h : option Z) (bs : N) : nat := N.to_nat (eff_bs h bs).

(* tamper_dir unfolded as a relation: every file of the list is handed to tamper_file exactly once,
   in list order, each run starting with the stream the previous one left. *)
Inductive dir_chain (md : tmode) (bp : option Q) (burst : option (Z * Z)) (h : option Z) (bs : N)
  : list (Q * list byte) -> list draw -> list (list byte * nat * nat) -> list draw -> Prop :=
| chain_nil : forall r, dir_chain md bp burst h bs [] r [] r
| chain_cons : forall p c fs r c' cnt sz r1 outs r2,
    tamper_file md p bp burst h bs c r = Ok (c', cnt, sz, r1) ->
    dir_chain md bp burst h bs fs r1 outs r2 ->
    dir_chain md bp burst h bs ((p, c) :: fs) r ((c', cnt, sz) :: outs) r2.
