(* Drv/Base.v — forces the extraction of the numeric types the OCaml prelude converts (Z, N, nat). *)
From Coq Require Import NArith ZArith.
Definition drv_types (z : Z) (n : nat) (m : N) : Z * nat * N := (z, n, m).
