(* Drv/Diff.v — entry points of the Diff model as called by ocaml/handlers/Diff.ml. *)
From Coq Require Import List NArith Bool.
From Coq Require Import Strings.Byte.
From PFF Require Import Bytes Diff.
Import ListNotations.

Fixpoint assoc (k : list byte) (l : list (list byte * list byte)) : option (list byte) :=
  match l with
  | [] => None
  | (k', v) :: t => if list_eqb byte_eqb k k' then Some v else assoc k t
  end.
Definition NN (p : nat * nat) : N * N := (N.of_nat (fst p), N.of_nat (snd p)).
Definition drv_diff (bs st1 st2 : N) (f1 f2 : list byte) : (N * N) * bool :=
  (NN (diff_bytes byte_eqb (N.to_nat bs) (N.to_nat st1) (N.to_nat st2) f1 f2),
   diff_same byte_eqb (N.to_nat bs) (N.to_nat st1) (N.to_nat st2) f1 f2).
Definition drv_diffdir (bs : N) (rk rv ok ov : list (list byte)) : ((N * N) * (N * N)) * N :=
  let ref := combine rk rv in
  let other := fun p => assoc p (combine ok ov) in
  ((NN (bytes_dir byte_eqb (N.to_nat bs) ref other), NN (count_dir byte_eqb (N.to_nat bs) ref other)),
   N.of_nat (exit_status byte_eqb (N.to_nat bs) ref other)).
