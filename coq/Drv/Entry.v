(* Drv/Entry.v — entry points of the Entry model as called by ocaml/handlers/Entry.ml.
   The codec oracles (enc / chk / dec) are passed as functions: the handler builds them from the
   tables recorded by the harness around ECCMan.encode / check / decode. *)
From Coq Require Import List NArith ZArith Bool.
From Coq Require Import Strings.Byte.
From PFF Require Import Bytes Entry.
Import ListNotations.

Definition drv_ent_find (sub s : list byte) (start : Z) : Z := py_find sub s start.
Definition drv_ent_slice (s : list byte) (lo hi : Z) : list byte := py_slice s lo hi.
Definition drv_ent_int (s : list byte) : option Z := py_int s.
Definition drv_ent_decimal (n : N) : list byte := decimal n.

Definition drv_ent_fields_hdr (d entry : list byte) := hdr_entry_fields d entry.
Definition drv_ent_fields_whole (bs : N) (d file : list byte) (pos0 pos1 : Z) :=
  whole_entry_fields (N.to_nat bs) d file pos0 pos1.

(* tool: 0 = header_ecc, 1 = structural_adaptive_ecc *)
Definition drv_ent_encode (tool k : N) (enc : list byte -> list byte) (f : list byte) : list byte :=
  if N.eqb tool 0 then hdr_intra_encode (N.to_nat k) enc f else whole_intra_encode (N.to_nat k) enc f.

Definition drv_ent_correct (tool k es : N) (chk : list byte -> list byte -> bool)
    (dec : list byte -> list byte -> option (list byte * list byte)) (field ecc : list byte) :=
  if N.eqb tool 0 then hdr_intra_correct (N.to_nat k) (N.to_nat es) chk dec field ecc
  else whole_intra_correct (N.to_nat k) (N.to_nat es) chk dec field ecc.

Definition drv_ent_format (tool k : N) (enc : list byte -> list byte) (mk d path : list byte) (size : N) :=
  format_entry (if N.eqb tool 0 then hdr_intra_encode (N.to_nat k) enc else whole_intra_encode (N.to_nat k) enc)
               mk d path size.

Definition drv_ent_meta_hdr (k es : N) (chk : list byte -> list byte -> bool)
    (dec : list byte -> list byte -> option (list byte * list byte)) (d entry : list byte) :=
  hdr_entry_meta (N.to_nat k) (N.to_nat es) chk dec d entry.

Definition drv_ent_meta_whole (k es : N) (chk : list byte -> list byte -> bool)
    (dec : list byte -> list byte -> option (list byte * list byte)) (bs : N) (d file : list byte) (pos0 pos1 : Z) :=
  whole_entry_meta (N.to_nat k) (N.to_nat es) chk dec (N.to_nat bs) d file pos0 pos1.

Definition drv_ent_unambiguous (d path size pecc secc : list byte) : bool := unambiguous d path size pecc secc.
Definition drv_ent_hamming (a b : list byte) : N := N.of_nat (hamming a b).
