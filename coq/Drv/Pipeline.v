(* Drv/Pipeline.v — entry points of the Pipeline model as called by ocaml/handlers/Pipeline.ml.
   The oracles are instantiated with the tables recorded from the real run (hash, check and
   decode calls of the main hasher / codec object).  A query that is not in the tables gets a
   default answer and is counted: the count of such queries is returned (`oracle-miss`). *)
From Coq Require Import List NArith Bool Arith.
From Coq Require Import Strings.Byte.
From PFF Require Import Bytes Pipeline.
Import ListNotations.

Definition htab := list (list byte * list byte).
Definition ctab := list ((nat * list byte * list byte) * bool).
Definition dtab := list ((nat * list byte * list byte) * option (list byte * list byte)).

Fixpoint look_h (t : htab) (m : list byte) : option (list byte) :=
  match t with
  | [] => None
  | (k, v) :: t' => if beqb k m then Some v else look_h t' m
  end.
Definition key_eqb (a : nat * list byte * list byte) (k : nat) (m p : list byte) : bool :=
  let '(k', m', p') := a in (k' =? k) && beqb m' m && beqb p' p.
Fixpoint look_c (t : ctab) (k : nat) (m p : list byte) : option bool :=
  match t with
  | [] => None
  | (a, v) :: t' => if key_eqb a k m p then Some v else look_c t' k m p
  end.
Fixpoint look_d (t : dtab) (k : nat) (m p : list byte) : option (option (list byte * list byte)) :=
  match t with
  | [] => None
  | (a, v) :: t' => if key_eqb a k m p then Some v else look_d t' k m p
  end.

Definition o_hash (t : htab) (m : list byte) : list byte := match look_h t m with Some v => v | None => [] end.
Definition o_chk (t : ctab) (k : nat) (m p : list byte) : bool := match look_c t k m p with Some v => v | None => false end.
Definition o_dec (t : dtab) (k : nat) (_ : unit) (m p : list byte) : option (list byte * list byte) :=
  match look_d t k m p with Some v => v | None => None end.

Definition hit (th : htab) (tc : ctab) (td : dtab) (q : query) : bool :=
  match q with
  | QHash m => match look_h th m with Some _ => true | None => false end
  | QChk k m p => match look_c tc k m p with Some _ => true | None => false end
  | QDec k m p => match look_d td k m p with Some _ => true | None => false end
  end.

Definition vcode (v : verdict) : N :=
  match v with
  | Kept => 0 | Repaired true true => 1 | Repaired false true => 2 | Repaired true false => 3
  | Repaired false false => 9 | Failed => 4 | Unexamined => 5
  end%N.
Definition ccode (k : fclass) : N := match k with Clean => 0 | Complete => 1 | Partial => 2 | NotAtAll => 3 end%N.
Definition qcode (q : query) : (N * N) * (list byte * list byte) :=
  match q with
  | QHash m => ((0%N, 0%N), (m, []))
  | QChk k m p => ((1%N, N.of_nat k), (m, p))
  | QDec k m p => ((2%N, N.of_nat k), (m, p))
  end.

Definition mk_ctab (ks : list N) (ms ps : list (list byte)) (vs : list N) : ctab :=
  map (fun x => let '(((k, m), p), v) := x in ((N.to_nat k, m, p), negb (N.eqb v 0)))
      (combine (combine (combine ks ms) ps) vs).
Definition mk_dtab (ks : list N) (ms ps : list (list byte)) (fs : list N) (rm rp : list (list byte)) : dtab :=
  map (fun x => let '(((((k, m), p), f), m'), p') := x in
                ((N.to_nat k, m, p), if N.eqb f 0 then None else Some (m', p')))
      (combine (combine (combine (combine (combine ks ms) ps) fs) rm) rp).

Definition pack (th : htab) (tc : ctab) (td : dtab) (r : fres)
  : ((option (list byte) * list N) * (N * N)) * list ((N * N) * (list byte * list byte)) :=
  (((f_out r, map vcode (f_verdicts r)),
    (ccode (f_class r), N.of_nat (length (filter (fun q => negb (hit th tc td q)) (f_trace r))))),
   map qcode (f_trace r)).

(* header tool, one file *)
Definition drv_pipe_hdr (fast ms mb hlen hdr recorded : N) (file track : list byte)
    (hk hv : list (list byte))
    (ck : list N) (cm cp : list (list byte)) (cv : list N)
    (dk : list N) (dm dp : list (list byte)) (df : list N) (drm drp : list (list byte)) :=
  let th := combine hk hv in
  let tc := mk_ctab ck cm cp cv in
  let td := mk_dtab dk dm dp df drm drp in
  pack th tc td
    (hdr_file unit (o_hash th) (o_chk tc) (o_dec td) tt (negb (N.eqb fast 0))
              (N.to_nat ms) (N.to_nat mb) (N.to_nat hlen) (N.to_nat hdr) (N.to_nat recorded) file track).

(* whole-file tool, one file; mutab = message size for every offset 0 .. |file|-1 *)
Definition drv_pipe_sa (fast mb hlen tlen : N) (mutab : list N) (file db : list byte)
    (hk hv : list (list byte))
    (ck : list N) (cm cp : list (list byte)) (cv : list N)
    (dk : list N) (dm dp : list (list byte)) (df : list N) (drm drp : list (list byte)) :=
  let th := combine hk hv in
  let tc := mk_ctab ck cm cp cv in
  let td := mk_dtab dk dm dp df drm drp in
  let mu := fun c => N.to_nat (nth c mutab 0%N) in
  pack th tc td
    (sa_file unit (o_hash th) (o_chk tc) (o_dec td) tt (negb (N.eqb fast 0))
             mu (N.to_nat mb) (N.to_nat hlen) file db (N.to_nat tlen)).

(* counters and exit status from the per-file classes *)
Definition drv_pipe_tally (ks : list N) : list N :=
  let c := tally (map (fun k => if N.eqb k 0 then Clean else if N.eqb k 1 then Complete
                               else if N.eqb k 2 then Partial else NotAtAll) ks) in
  [N.of_nat (c_processed c); N.of_nat (c_corrupted c); N.of_nat (c_complete c); N.of_nat (c_partial c);
   N.of_nat (c_notatall c); N.of_nat (exit_status c)].
