(* Drv/DbRepair.v — entry points of the DbRepair model as called by ocaml/handlers/DbRepair.ml.
   The hash oracles are given as a finite table (content, md5 text, sha1 text); a content that is
   not in the table hashes to the empty text and is reported through `drv_dbtab_has`. *)
From Coq Require Import List NArith Bool.
From Coq Require Import Strings.Byte.
From PFF Require Import Bytes Vote DbRepair.
Import ListNotations.

Definition tab := list (list byte * (list byte * list byte)).

Definition tab_find (t : tab) (c : list byte) : option (list byte * list byte) :=
  match find (fun e => bytes_eqb (fst e) c) t with Some e => Some (snd e) | None => None end.

Definition tab_md5 (t : tab) (c : list byte) : list byte :=
  match tab_find t c with Some (a, _) => a | None => [] end.
Definition tab_sha1 (t : tab) (c : list byte) : list byte :=
  match tab_find t c with Some (_, b) => b | None => [] end.

Definition drv_dbtab_has (t : tab) (c : list byte) : bool :=
  match tab_find t c with Some _ => true | None => false end.

Definition mkrow (p : list (list byte)) (m s : list byte) (z : N) : dbrow :=
  {| r_path := p; r_md5 := m; r_sha1 := s; r_size := z |}.

Definition cell_code (c : cell) : N :=
  match c with CDash => 0 | CX => 1 | CO => 2 | COK => 3 | CKO => 4 end%N.

(* (output, error code, taken replica + 1 or 0, has row?, dir cells, hash cell, error cell, errors column filled?) *)
Definition drv_dbrepair (t : tab) (usedb report : bool) (bs nrep : N) (p : list (list byte))
           (ids : list N) (contents : list (list byte))
           (db : list (list (list byte) * (list byte * (list byte * N))))
  : list byte * (N * (N * (bool * (list N * (N * (N * bool)))))) :=
  let rows := map (fun r => mkrow (fst r) (fst (snd r)) (fst (snd (snd r))) (snd (snd (snd r)))) db in
  let holders := combine (map N.to_nat ids) contents in
  let res := merge_step (tab_md5 t) (tab_sha1 t) (if usedb then Some rows else None) report
                        (N.to_nat bs) (N.to_nat nrep) p holders in
  let tk := match taken res with Some i => N.succ (N.of_nat i) | None => 0%N end in
  match row res with
  | Some (dirs, hc, ec, msg) =>
      (out res, (N.of_nat (errcode res), (tk, (true, (map cell_code dirs, (cell_code hc, (cell_code ec, msg)))))))
  | None => (out res, (N.of_nat (errcode res), (tk, (false, ([], (0%N, (0%N, false)))))))
  end.

Definition drv_dbstatus (codes : list N) : N := N.of_nat (run_status (map N.to_nat codes)).

Definition drv_rfigc_single (t : tab) (rel : list (list byte)) (c : list byte)
           (db : list (list (list byte) * (list byte * (list byte * N)))) : bool :=
  let rows := map (fun r => mkrow (fst r) (fst (snd r)) (fst (snd (snd r))) (snd (snd (snd r)))) db in
  rfigc_single (tab_md5 t) (tab_sha1 t) rows rel c.
