(* Drv/FacadeDec.v — entry point of the ECCMan.decode wrapper model for codecs 1/2 (the third-party decoder's
   answer is an input: `has` = it answered, (im, ie) = its answer). *)
From Coq Require Import List NArith Bool.
From Coq Require Import Strings.Byte.
From PFF Require Import Bytes Facade FacadeDec Drv.Facade.
Import ListNotations.

Definition drv_facdec12 (n selfk k er : N) (m e : list byte) (has : bool) (im ie : list byte) : option (list byte * list byte) :=
  fac_decode12 (fun _ _ => if has then Some (im, ie) else None)
               (N.to_nat n) (N.to_nat selfk) (N.to_nat k) (drv_erasures er) m e.
