(* Drv/Index.v — entry points of the Index model as called by ocaml/handlers/Index.ml.
   The index codec (ECCMan.encode / check / decode of the (27, 9) code) enters as recorded
   oracle tables; a query the table does not hold is counted as a miss and reported. *)
From Coq Require Import List NArith Bool.
From Coq Require Import Strings.Byte.
From PFF Require Import Bytes Index.
Import ListNotations.

Fixpoint lb_eqb (a b : list byte) : bool :=
  match a, b with
  | [], [] => true
  | x :: a', y :: b' => byte_eqb x y && lb_eqb a' b'
  | _, _ => false
  end.

(* five fields per entry: path, size text, path_ecc, size_ecc, track *)
Fixpoint group5 (l : list (list byte)) : list ientry :=
  match l with
  | a :: b :: c :: d :: e :: t => mk_ientry a b c d e :: group5 t
  | _ => []
  end.

Definition drv_idx_eccfile (pre : list byte) (fields : list (list byte)) : list byte :=
  ecc_file pre (group5 fields).

(* the 9-byte record messages (kind ++ be64 offset), header tool (sa = 0) or whole tool (sa <> 0) *)
Definition drv_idx_msgs (sa : N) (pre : list byte) (fields : list (list byte)) : list (list byte) :=
  map record_msg ((if N.eqb sa 0 then index_offsets else index_offsets_sa) (lenN pre) (group5 fields)).

Fixpoint lookup1 {A} (ks : list (list byte)) (vs : list A) (k : list byte) : option A :=
  match ks, vs with
  | k0 :: ks', v :: vs' => if lb_eqb k0 k then Some v else lookup1 ks' vs' k
  | _, _ => None
  end.

Fixpoint lookup2 {A} (ms es : list (list byte)) (vs : list A) (m e : list byte) : option A :=
  match ms, es, vs with
  | m0 :: ms', e0 :: es', v :: vs' =>
      if lb_eqb m0 m && lb_eqb e0 e then Some v else lookup2 ms' es' vs' m e
  | _, _, _ => None
  end.

(* the index file from the layout and a recorded table of ECCMan.encode; a missing table row
   gives an empty parity, hence a wrong length *)
Definition drv_idx_gen (sa : N) (pre : list byte) (fields : list (list byte))
           (ek ev : list (list byte)) : list byte :=
  let enc m := match lookup1 ek ev m with Some p => p | None => [] end in
  (if N.eqb sa 0 then gen_index enc else gen_index_sa enc) pre (group5 fields).

Definition be64_rt (v : N) : list byte * N := (be64 v, unbe (be64 v)).
Definition drv_idx_be64 (v : N) : list byte * N := be64_rt v.

(* decode table values: [] = the decoder raised; otherwise length(m') :: m' ++ e' *)
Definition dec_value (v : list byte) : option (list byte * list byte) :=
  match v with
  | [] => None
  | n :: r => Some (firstn (N.to_nat (N_of_byte n)) r, skipn (N.to_nat (N_of_byte n)) r)
  end.

Definition block_misses (chkt : list byte -> list byte -> option byte)
           (dect : list byte -> list byte -> option (list byte)) (buf : list byte) : N :=
  let m := firstn msz buf in
  let e := skipn msz buf in
  match chkt m e with
  | None => 1%N
  | Some c =>
      if byte_eqb c x00 then
        match dect m e with
        | None => 1%N
        | Some v => match dec_value v with
                    | None => 0%N
                    | Some (m', e') => match chkt m' e' with None => 1%N | Some _ => 0%N end
                    end
        end
      else 0%N
  end.

(* repair_ecc.main -i ecc --index idx -t .: thresholds already rounded, bs = read block size *)
Definition drv_idx_recover (ecc idx : list byte) (thr1 thr2 bs : N)
           (cm ce : list (list byte)) (ca : list byte)
           (dm de dv : list (list byte)) : list byte * N :=
  let chkt := lookup2 cm ce ca in
  let dect := lookup2 dm de dv in
  let chk m e := match chkt m e with Some c => negb (byte_eqb c x00) | None => false end in
  let dec m e := match dect m e with Some v => dec_value v | None => None end in
  (recover chk dec (N.to_nat thr1) (N.to_nat thr2) (N.to_nat bs) ecc idx,
   fold_left (fun a b => (a + block_misses chkt dect b)%N) (chunks rsz idx) 0%N).

(* the Hamming stage alone (repair_ecc.main without --index) *)
Definition drv_idx_hamming (ecc : list byte) (thr1 thr2 bs : N) : list byte :=
  hamming_stage (N.to_nat thr1) (N.to_nat thr2) (N.to_nat bs) ecc.
