(* Drv/Stream.v — entry points of the Stream model as called by ocaml/handlers/Stream.ml.
   The parameters of the model (intra-ecc correction, per-block stage, input tree) are supplied as finite tables
   recorded from the implementation; a missing table entry is counted (`misses`) and reported by the harness. *)
From Coq Require Import List NArith ZArith Bool.
From Coq Require Import Strings.Byte.
From PFF Require Import Bytes Stream.
Import ListNotations.

Definition drv_st_scan (m db : list byte) : list (N * N) :=
  map (fun se => (N.of_nat (fst se), N.of_nat (snd se))) (entries_spec m db).

Definition drv_st_fields (d text : list byte) : list (list byte) * Z :=
  let f := get_fields d text in ([f_path f; f_size f; f_pecc f; f_secc f; f_track f], f_toff f).

(* the value as (negative?, decimal digits): the OCaml side prints it without going through native ints *)
Definition drv_st_pyint (s : list byte) : option (bool * list byte) :=
  match py_int s with Some z => Some ((z <? 0)%Z, dec (Z.abs_N z)) | None => None end.

Fixpoint st_unflat2 (l : list (list byte)) : list (list byte * list byte) :=
  match l with a :: b :: t => (a, b) :: st_unflat2 t | _ => [] end.
Fixpoint st_unflat3 (l : list (list byte)) : list (list byte * list byte * list byte) :=
  match l with a :: b :: c :: t => (a, b, c) :: st_unflat3 t | _ => [] end.

Fixpoint st_lookup1 (k : list byte) (t : list (list byte * list byte)) : option (list byte) :=
  match t with [] => None | (a, v) :: r => if bytes_eqb a k then Some v else st_lookup1 k r end.
Fixpoint st_lookup2 (k1 k2 : list byte) (t : list (list byte * list byte * list byte)) : option (list byte) :=
  match t with [] => None | (a, b, v) :: r => if bytes_eqb a k1 && bytes_eqb b k2 then Some v else st_lookup2 k1 k2 r end.

(* value of the block table: first byte = code (10 clean, 11 full, 12 partial, 13 none, 14 crash), second byte = 1
   when something is left in the output folder for this path, the rest = that content *)
Definition st_decode_bres (v : list byte) : bres :=
  match v with
  | c :: h :: out =>
      let o := if byte_eqb h x01 then Some out else None in
      match N_of_byte c with
      | 10%N => BClean | 11%N => BCorrupt RFull o | 12%N => BCorrupt RPartial o | 13%N => BCorrupt RNone o
      | _ => BCrash
      end
  | _ => BCrash
  end.

Definition st_code_of (r : eres) : N :=
  match r with
  | ESkip SkSize => 0 | ESkip SkNul => 1 | ESkip SkMissing => 2 | ESkip SkSizeDiff => 3
  | EFile _ BClean => 10 | EFile _ (BCorrupt RFull _) => 11 | EFile _ (BCorrupt RPartial _) => 12
  | EFile _ (BCorrupt RNone _) => 13 | EFile _ BCrash => 14
  end%N.

Definition st_ctr_list (c : counters) (ex : nat) : list N :=
  map N.of_nat [n_proc c; n_corr c; n_full c; n_part c; n_skip c; ex].

Section Run.
  Variables (m d db : list byte) (ignore : bool) (window : nat).
  Variable tree : list (list byte * list byte).
  Variable itab btab : list (list byte * list byte * list byte).
  Definition st_look_fn (p : list byte) := st_lookup1 p tree.
  Definition st_intra_fn (f e : list byte) := match st_lookup2 f e itab with Some r => r | None => f end.
  Definition st_blocksH_fn (tr : list byte) (sz : Z) (file : list byte) : bres :=
    match st_lookup2 tr file btab with Some v => st_decode_bres v | None => BCrash end.
  Definition st_blocksW_fn (s : list byte) (t e : nat) (sz : Z) (file : list byte) : bres * nat :=
    (st_blocksH_fn (sub s t e) sz file, t).

  Definition st_miss_fields (f : fields) : N :=
    (match st_lookup2 (f_path f) (f_pecc f) itab with Some _ => 0 | None => 1 end +
     match st_lookup2 (f_size f) (f_secc f) itab with Some _ => 0 | None => 1 end)%N.

  Definition st_run_tool (tool : N) : list (N * N * N * N) * (N * (option (list N) * list (list byte * list byte))) :=
    match tool with
    | 0%N =>
        let tr := trace_h m d ignore st_look_fn st_intra_fn st_blocksH_fn db in
        (map (fun t => (N.of_nat (fst (fst t)), N.of_nat (snd (fst t)), 0%N, st_code_of (snd t))) tr,
         (fold_left N.add (map (fun t => st_miss_fields (get_fields d (sub db (fst (fst t)) (snd (fst t))))) tr) 0%N,
          match run_h m d ignore st_look_fn st_intra_fn st_blocksH_fn db with
          | Done c o ex => (Some (st_ctr_list c ex), o)
          | Crash => (None, [])
          end))
    | _ =>
        let tr := trace_w m d ignore st_look_fn st_intra_fn window st_blocksW_fn db in
        (map (fun t => (N.of_nat (fst (snd (fst t))), N.of_nat (snd (snd (fst t))), N.of_nat (snd (fst (snd t))),
                        st_code_of (fst (fst (snd t))))) tr,
         (fold_left N.add (map (fun t => st_miss_fields (get_fields d (sub db (fst (snd (fst t))) (fst (snd (fst t)) + window)))) tr) 0%N,
          match run_w m d ignore st_look_fn st_intra_fn window st_blocksW_fn db with
          | Done c o ex => (Some (st_ctr_list c ex), o)
          | Crash => (None, [])
          end))
    end.
End Run.

Definition drv_stream_run (tool : N) (m d db : list byte) (ignore : bool) (window : N)
    (tree itab btab : list (list byte)) :=
  st_run_tool m d db ignore (N.to_nat window) (st_unflat2 tree) (st_unflat3 itab) (st_unflat3 btab) tool.
