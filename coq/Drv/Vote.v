(* Drv/Vote.v — entry points of the Vote model as called by ocaml/handlers/Vote.ml.
   Numbers cross the boundary as N (binary), byte strings as list byte. *)
From Coq Require Import List NArith Bool.
From Coq Require Import Strings.Byte.
From PFF Require Import Bytes Vote.
Import ListNotations.

Definition drv_vote (bs : N) (copies : list (list byte)) : list byte * N :=
  let '(o, s) := vote_chunked byte_eqb (N.to_nat bs) copies in (o, N.of_nat s).
