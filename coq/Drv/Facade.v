(* Drv/Facade.v — entry points of the GF(2^8) / Reed-Solomon / facade models for ocaml/handlers/Facade.ml *)
From Coq Require Import List NArith Bool.
From Coq Require Import Strings.Byte.
From PFF Require Import Bytes GF256 RS Facade.
Import ListNotations.

Definition drv_gf_of (algo : N) : gf := cd_f (codec_of algo).
(* all 65 536 products a*b, a-major *)
Definition drv_gfmul_table (algo : N) : list byte :=
  flat_map (fun a => map (bmul (drv_gf_of algo) a) all_bytes) all_bytes.
(* generator^e for e = 0 .. count-1 through apow (exponent reduced mod 255) *)
Definition drv_gfpow_table (algo : N) (count : N) : list byte :=
  map (GF256.apow (drv_gf_of algo)) (seq 0 (N.to_nat count)).
Definition drv_gfinv_table (algo : N) : list byte := map (binv (drv_gf_of algo)) all_bytes.

Definition drv_encode (algo n selfk k : N) (m : list byte) : list byte :=
  fac_encode (codec_of algo) (N.to_nat n) (N.to_nat selfk) (N.to_nat k) m.
Definition drv_check (algo n selfk k : N) (m e : list byte) : bool :=
  fac_check (codec_of algo) (N.to_nat n) (N.to_nat selfk) (N.to_nat k) m e.
(* er = 256 means "erasures disabled", otherwise the erasure symbol *)
Definition drv_erasures (er : N) : option byte := if (er <? 256)%N then Some (byte_of_N er) else None.
Definition drv_decodes_to (algo n selfk k er : N) (m e m' e' : list byte) : bool :=
  decodes_to (codec_of algo) (N.to_nat n) (N.to_nat selfk) (N.to_nat k) (drv_erasures er) m e m' e'.
Definition drv_within_capacity (algo n selfk k er : N) (m e m0 : list byte) : bool :=
  within_capacity (codec_of algo) (N.to_nat n) (N.to_nat selfk) (N.to_nat k) (drv_erasures er) m e m0.
Definition drv_gen (algo nsym : N) : list byte :=
  let c := codec_of algo in RS.gen byte x00 x01 badd (bmul (cd_f c)) (gf_alpha (cd_f c)) (N.to_nat nsym) (cd_fcr c).
