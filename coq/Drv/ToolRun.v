(* Drv/ToolRun.v — a whole CORRECTION run of `pff header` / `pff whole` in the composed model the tool-level theorems are about
   (C03_clean_*_rs, C01_tool_*_rs): Stream's entry loop, counters and exit status; Entry's intra-ecc of path and size; Pipeline's
   per-block stage through C03Inst.blocksH_pipe / blocksW_pipe (i.e. through PipelineClean.bres_of and the track slicing); the
   verified facade CHECK.  Oracles supplied as tables recorded from the real run: the hash function and the third-party
   DECODER (ECCMan.decode of the intra and of the main codec object: key = (k, message, parity)); the input tree as found at check
   time; the rate -> message-size rule (whole-file tool).  Compared with the real run: counters, exit status, output folder. *)
From Coq Require Import List NArith ZArith Bool.
From Coq Require Import Strings.Byte.
From PFF Require Import Bytes Stream Proofs.StreamP Proofs.C03Inst.
From PFF Require Pipeline Drv.Pipeline Drv.GenBody Drv.Stream.
Import ListNotations.

Definition drv_toolrun (tool algo mb hdr ms ik ies hlen fast ignore window er : N) (db : list byte)
    (tree htab : list (list byte))
    (dk : list N) (dm dp : list (list byte)) (df : list N) (drm drp : list (list byte))
    (musizes : list N) (mutabs : list (list N))
  : option (list N) * list (list byte * list byte) :=
  let hash := Drv.GenBody.tab_hash (Drv.GenBody.pairs_of htab) in
  let td := Drv.Pipeline.mk_dtab dk dm dp df drm drp in
  let idec := fun m p => Drv.Pipeline.o_dec td (N.to_nat ik) tt m p in
  let bdec := fun k (_ : option byte) m p => Drv.Pipeline.o_dec td k tt m p in
  let look := fun p => Drv.Stream.st_lookup1 p (Drv.Stream.st_unflat2 tree) in
  let ign := negb (N.eqb ignore 0) in
  (* --enable_erasures --erasure_symbol er (256 = erasure handling off); the intra-ecc calls pass the same option *)
  let o := if (er <? 256)%N then match Byte.of_N er with Some b => Some b | None => None end else None in
  let fst_ := negb (N.eqb fast 0) in
  let out :=
    if (tool =? 0)%N then
      run_h Drv.GenBody.gb_marker Drv.GenBody.gb_delim ign look (intra_h algo (N.to_nat ik) (N.to_nat ies) idec)
            (blocksH_pipe algo (N.to_nat mb) hash (N.to_nat hlen) bdec o fst_ (N.to_nat ms) (N.to_nat hdr)) db
    else
      run_w Drv.GenBody.gb_marker Drv.GenBody.gb_delim ign look (intra_w algo (N.to_nat ik) (N.to_nat ies) idec) (N.to_nat window)
            (blocksW_pipe algo (N.to_nat mb) hash (N.to_nat hlen) bdec o fst_ (Drv.GenBody.tab_mu musizes mutabs)) db in
  match out with
  | Done c o ex => (Some (Drv.Stream.st_ctr_list c ex), o)
  | Crash => (None, [])
  end.
