(* Drv/Scan.v — entry points of the Scan model as called by ocaml/handlers/Scan.ml.
   Numbers cross the boundary as N (binary), byte strings as list byte. *)
From Coq Require Import List NArith Bool.
From Coq Require Import Strings.Byte.
From PFF Require Import Bytes Scan.
Import ListNotations.

(* a call's result as (tag, a, e, bytes): 0 None, 1 coordinates, 2 content, 3 out of fuel *)
Definition enc_ret (r : ret) : N * N * N * list byte :=
  match r with
  | RNone => (0%N, 0%N, 0%N, [])
  | RCoord a e => (1%N, N.of_nat a, N.of_nat e, [])
  | RBytes l => (2%N, 0%N, 0%N, l)
  | RFuel => (3%N, 0%N, 0%N, [])
  end.

(* all the calls on one handle until None: (result, position left) *)
Definition drv_scan (m : list byte) (only_coord : bool) (bs : N) (s : list byte) (p : N)
  : list (N * N * N * list byte * N) :=
  map (fun rp => (enc_ret (fst rp), N.of_nat (snd rp)))
      (scan_all m only_coord (N.to_nat bs) s (N.to_nat p)).

(* the specification's entries *)
Definition drv_entries (m s : list byte) (p : N) : list (N * N) :=
  map (fun ae => (N.of_nat (fst ae), N.of_nat (snd ae))) (entries_spec m s (N.to_nat p)).
