(* Drv/Merge.v — entry points of the Walk / Merge models as called by ocaml/handlers/Merge.ml.
   A relative path crosses the boundary as one byte string with '/' between the parts
   ("a/b/f"; a trailing '/' denotes a directory without files; a leading or doubled '/' gives
   empty parts, used for the padded lists of sort_dict_of_paths); numbers as N. *)
From Coq Require Import List NArith Bool.
From Coq Require Import Strings.Byte.
From PFF Require Import Bytes Vote Walk Merge.
Import ListNotations.

Definition slash : byte := x2f.

Fixpoint split_slash (acc s : list byte) : list (list byte) :=
  match s with
  | [] => [rev acc]
  | c :: t => if byte_eqb c slash then rev acc :: split_slash [] t else split_slash (c :: acc) t
  end.

Fixpoint join_slash (parts : list (list byte)) : list byte :=
  match parts with
  | [] => []
  | [x] => x
  | x :: t => x ++ slash :: join_slash t
  end.

(* a directory listing (arbitrary order) -> tree *)
Definition build (paths contents : list (list byte)) : btree :=
  fold_left (fun t pc =>
               let parts := split_slash [] (fst pc) in
               match last parts [] with
               | [] => add_dir bname_eqb (removelast parts) t
               | n => add_file bname_eqb (removelast parts) n (snd pc) t
               end)
            (combine paths contents) (Dir [] []).


(* recwalk + relpath_posix of a tree given by its listing *)
Definition drv_walk (paths : list (list byte)) : list (list byte) :=
  map (fun e => join_slash (fst e)) (replica_of (build paths (map (fun _ => []) paths))).

Definition outcome_N (o : outcome) : N := match o with Done => 0 | OutOfFuel => 1 | Crash => 2 end%N.

(* synchronize_files on replicas given by (listing, contents) *)
Definition drv_sync (bs : N) (replicas : list (list (list byte) * list (list byte)))
  : list (list byte * list N * list byte * N) * N * N :=
  let '(rows, o) := dup (N.to_nat bs) (map (fun r => build (fst r) (snd r)) replicas) in
  (map (fun r : list bname * list nat * list byte * nat => match r with (p, hs, c, s) => (join_slash p, map N.of_nat hs, c, N.of_nat s) end) rows,
   outcome_N o, N.of_nat (retcode rows)).

(* dict values: None | Some parts *)
Definition items_of (present : list bool) (paths : list (list byte)) : list (nat * option (list bname)) :=
  combine (seq 0 (length paths))
          (map (fun bp : bool * list byte => if fst bp then Some (split_slash [] (snd bp)) else None) (combine present paths)).

Definition out_item (e : nat * option (list bname)) : N * bool * list byte :=
  match snd e with
  | Some p => (N.of_nat (fst e), true, join_slash p)
  | None => (N.of_nat (fst e), false, [])
  end.

Definition drv_sortdict (present : list bool) (paths : list (list byte)) : list (N * bool * list byte) :=
  map out_item (sort_dict_of_paths bname_ltb bname_empty [] (items_of present paths)).

Definition out_group (g : list (nat * list bname)) : list (N * list byte) :=
  map (fun e => (N.of_nat (fst e), join_slash (snd e))) g.

(* sort_group(d, return_only_first) : None | Some groups *)
Definition drv_sortgroup (only_first : bool) (present : list bool) (paths : list (list byte))
  : option (list (list (N * list byte))) :=
  let d := pad_all [] (items_of present paths) in
  if only_first then
    match first_group bpath_key bkey_ltb bpath_eqb d with
    | Some g => Some [out_group g]
    | None => None
    end
  else
    match sort_group_all bpath_key bkey_ltb bpath_eqb d with
    | Some gs => Some (map out_group gs)
    | None => None
    end.

(* the two comparisons on single pairs: the code's (fixed) key order and the pre-fix padded order *)
Definition drv_cmp (p q : list byte) : bool * bool :=
  (bpath_ltb (split_slash [] p) (split_slash [] q),
   cmp_padded bname_ltb [] (split_slash [] p) (split_slash [] q)).
