(* Drv/HashUpd.v — entry points of the HashUpd model as called by ocaml/handlers/HashUpd.ml.
   Paths and contents are byte strings; operation kinds are numbers:
   0 Add p c | 1 Del p | 2 UpdA Folder | 3 UpdR Folder | 4 UpdAR Folder |
   5 UpdA (File p) | 6 UpdR (File p) | 7 UpdAR (File p). *)
From Coq Require Import List NArith Bool.
From Coq Require Import Strings.Byte.
From PFF Require Import Bytes HashUpd.
Import ListNotations.

Definition mk_op (k : N) (p c : list byte) : Bop :=
  if N.eqb k 0 then Add p c
  else if N.eqb k 1 then Del p
  else if N.eqb k 2 then UpdA Folder
  else if N.eqb k 3 then UpdR Folder
  else if N.eqb k 4 then UpdAR Folder
  else if N.eqb k 5 then UpdA (File p)
  else if N.eqb k 6 then UpdR (File p)
  else UpdAR (File p).

Fixpoint mk_ops (ks : list N) (ps cs : list (list byte)) : list Bop :=
  match ks, ps, cs with
  | k :: ks', p :: ps', c :: cs' => mk_op k p c :: mk_ops ks' ps' cs'
  | _, _, _ => []
  end.

Definition mk_fs (ps cs : list (list byte)) : BFS :=
  fold_left (fun fs pc => bfs_add (fst pc) (snd pc) fs) (combine ps cs) [].

(* the generated database of the initial tree, then (status, database) after every step *)
Definition drv_hashupd (ps0 cs0 : list (list byte)) (ks : list N) (ps cs : list (list byte))
  : list (N * BDB) :=
  let fs0 := mk_fs ps0 cs0 in
  (0%N, bgen_db fs0) :: btrace (fs0, bgen_db fs0) (mk_ops ks ps cs).

(* the two concrete oracles on their own: extension, walk order *)
Definition drv_hashext (p : list byte) : list byte := ext_of p.
Definition drv_hashwalk (ps : list (list byte)) : list (list byte) := isort (list byte) walk_leb ps.
