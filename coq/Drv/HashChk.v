(* Drv/HashChk.v — entry points of the HashChk model as called by ocaml/handlers/HashChk.ml.
   A file content is handed over as a table entry (id, md5 hex digest, sha1 hex digest, size)
   measured by the harness on the real bytes: the model's oracles md5 / sha1 / size are the
   projections.  mtimes are integers in units of 2^-24 s. *)
From Coq Require Import List NArith ZArith Bool.
From Coq Require Import Strings.Byte.
From PFF Require Import Bytes HashChk.
Import ListNotations.

Definition dcontent := (N * ((list byte * list byte) * N))%type.
Definition d_id (c : dcontent) : N := fst c.
Definition d_md5 (c : dcontent) : list byte := fst (fst (snd c)).
Definition d_sha1 (c : dcontent) : list byte := snd (fst (snd c)).
Definition d_size (c : dcontent) : N := snd (snd c).

Fixpoint mk_fs (paths : list (list byte)) (ids : list N) (md5s sha1s : list (list byte))
               (sizes : list N) (mtimes : list Z) : fs dcontent :=
  match paths, ids, md5s, sha1s, sizes, mtimes with
  | p :: paths', i :: ids', a :: md5s', b :: sha1s', s :: sizes', m :: mtimes' =>
      (p, ((i, ((a, b), s)), m)) :: mk_fs paths' ids' md5s' sha1s' sizes' mtimes'
  | _, _, _, _, _, _ => []
  end.

Fixpoint mk_db (paths md5s sha1s : list (list byte)) (mtimes : list Z) (sizes : list N)
               (exts : list (list byte)) : list row :=
  match paths, md5s, sha1s, mtimes, sizes, exts with
  | p :: paths', a :: md5s', b :: sha1s', m :: mtimes', s :: sizes', e :: exts' =>
      mkRow p a b m s e :: mk_db paths' md5s' sha1s' mtimes' sizes' exts'
  | _, _, _, _, _, _ => []
  end.

Definition row_tuple (r : row) := (r_path r, (r_md5 r, (r_sha1 r, (r_mtime r, (r_size r, r_ext r))))).

Definition drv_hchk_gen (paths : list (list byte)) (ids : list N) (md5s sha1s : list (list byte))
                        (sizes : list N) (mtimes : list Z) :=
  map row_tuple (gen_db dcontent d_size d_md5 d_sha1 (mk_fs paths ids md5s sha1s sizes mtimes)).

Definition kind_code (k : errkind) : N :=
  match k with EMissing => 1 | EBoth => 2 | EOne => 3 | EExt => 4 | ESize => 5 | EMtime => 6 end%N.
Definition rep_codes (l : list (path * list errkind)) : list (list byte * list N) :=
  map (fun e => (fst e, map kind_code (snd e))) l.

Definition drv_hchk_check (sh nm sm has_target : bool) (target : list byte)
    (paths : list (list byte)) (ids : list N) (md5s sha1s : list (list byte)) (sizes : list N) (mtimes : list Z)
    (dpaths dmd5s dsha1s : list (list byte)) (dmtimes : list Z) (dsizes : list N) (dexts : list (list byte)) :=
  let '(rep, ef, ex) :=
    check_db dcontent d_size d_md5 d_sha1 (mkOpts sh nm sm) (if has_target then Some target else None)
             (mk_fs paths ids md5s sha1s sizes mtimes) (mk_db dpaths dmd5s dsha1s dmtimes dsizes dexts) in
  (rep_codes rep, (rep_codes ef, ex)).

Definition drv_hchk_scrape
    (dpaths dmd5s dsha1s : list (list byte)) (dmtimes : list Z) (dsizes : list N) (dexts : list (list byte))
    (paths : list (list byte)) (ids : list N) (md5s sha1s : list (list byte)) (sizes : list N) (mtimes : list Z) :=
  let '(out, st) := scrape dcontent d_md5 d_sha1 (mk_db dpaths dmd5s dsha1s dmtimes dsizes dexts)
                           (mk_fs paths ids md5s sha1s sizes mtimes) in
  (map (fun e => (fst e, (d_id (fst (snd e)), snd (snd e)))) out, N.of_nat st).

Definition drv_hchk_mtime (now rec : Z) : bool * Z := (mtime_changed now rec, round_sec now).
Definition drv_hchk_ext (p : list byte) : list byte * list byte := (ext_of p, basename p).
