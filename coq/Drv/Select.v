(* Drv/Select.v — the restricted run of Select.v with the same recorded tables as Drv/Stream.v (drv_stream_run) plus the list of
   paths of the errors file; called by ocaml/handlers/Select.ml (request `selrun`). *)
From Coq Require Import List NArith ZArith Bool.
From Coq Require Import Strings.Byte.
From PFF Require Import Bytes Stream Select.
From PFF Require Import Drv.Stream.
Import ListNotations.

Definition drv_sel_run (tool : N) (m d db : list byte) (ignore : bool) (window : N)
    (tree itab btab lst : list (list byte)) : option (list N) * list (list byte * list byte) :=
  let tr := st_unflat2 tree in
  let it := st_unflat3 itab in
  let bt := st_unflat3 btab in
  let r := match tool with
           | 0%N => run_h_sel m d ignore (st_look_fn tr) (st_intra_fn it) lst (st_blocksH_fn bt) db
           | _ => run_w_sel m d ignore (st_look_fn tr) (st_intra_fn it) lst (N.to_nat window) (st_blocksW_fn bt) db
           end in
  match r with
  | Done c o ex => (Some (st_ctr_list c ex), o)
  | Crash => (None, [])
  end.
