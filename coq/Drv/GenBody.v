(* Drv/GenBody.v — the body of a generated ecc file, computed by the COMPOSED model the tool-level theorems are about
   (C03_clean_*_rs, C01_tool_*_rs, C12_body_deterministic): Walk.walk of the tree, Stream.generate's entry format, Entry's intra-ecc
   of path and size, Pipeline's block generation (hdr_gen / sa_gen), the verified facade encoder.  The hash function and the
   rate -> message-size rule are tables supplied by the harness (hashlib; the tool's own compute_ecc_params, which C10 ties to
   Layout.v).  Compared byte for byte with the ecc file the real tool writes. *)
From Coq Require Import List NArith Bool.
From Coq Require Import Strings.Byte.
From PFF Require Import Bytes Walk Merge Stream Proofs.StreamP Proofs.GenDet Proofs.C03Inst Drv.Merge.
Import ListNotations.

Definition gb_marker : list byte := [xfe; xff; xfe; xff; xfe; xff; xfe; xff; xfe; xff].
Definition gb_delim : list byte := [xfa; xff; xfa; xff; xfa].

Fixpoint pairs_of (l : list (list byte)) : list (list byte * list byte) :=
  match l with a :: b :: t => (a, b) :: pairs_of t | _ => [] end.

Definition tab_hash (tab : list (list byte * list byte)) (m : list byte) : list byte :=
  match List.find (fun kv => bytes_eqb (fst kv) m) tab with Some kv => snd kv | None => [] end.

(* message size at a file offset, for a file of a given size (the whole-file tool's rates depend on both) *)
Definition tab_mu (sizes : list N) (tabs : list (list N)) (sz : nat) (c : nat) : nat :=
  match List.find (fun kv => N.eqb (fst kv) (N.of_nat sz)) (combine sizes tabs) with
  | Some kv => N.to_nat (nth c (snd kv) 1%N)
  | None => 1
  end.

Definition drv_genbody (tool algo mb hdr ms ik ies : N) (htab : list (list byte)) (musizes : list N) (mutabs : list (list N))
           (paths contents : list (list byte)) : list byte :=
  let hash := tab_hash (pairs_of htab) in
  let t := build paths contents in
  if (tool =? 0)%N then
    ecc_body bname_ltb gb_marker gb_delim (fenc_h algo (N.to_nat ik) (N.to_nat ies))
             (track_h algo (N.to_nat mb) hash (N.to_nat ms) (N.to_nat hdr)) (fun _ => true) t
  else
    ecc_body bname_ltb gb_marker gb_delim (fenc_w algo (N.to_nat ik) (N.to_nat ies))
             (track_w algo (N.to_nat mb) hash (tab_mu musizes mutabs)) (fun _ => true) t.
