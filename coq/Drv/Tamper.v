(* Drv/Tamper.v — entry points of the Tamper model as called by ocaml/handlers/Tamper.ml.
   A rational crosses the boundary as (numerator : Z, e : N) meaning numerator / 2^e (every binary64
   value is of that form); a draw as (is_random : bool, (n, e)): random() = n/2^e, randint = n. *)
From Coq Require Import List NArith ZArith QArith Bool.
From Coq Require Import Strings.Byte.
From PFF Require Import Bytes Tamper.
Import ListNotations.

Definition mkQ (ne : Z * N) : Q := Qmake (fst ne) (Pos.shiftl 1%positive (snd ne)).
Definition mkdraw (d : bool * (Z * N)) : draw :=
  let '(k, ne) := d in if k then DU (mkQ ne) else DI (fst ne).
Definition err_code (e : err) : N :=
  match e with OutOfStream => 1 | BadDraw => 2 | BadRange => 3 | OutOfFuel => 4 end%N.
Definition rec_out (r : blockrec) : bool * (N * N) := (b_sel r, (N.of_nat (b_cnt r), N.of_nat (b_len r))).
Definition len_out {A} (l : list A) : N := N.of_nat (length l).

(* tamper_file + its block trace.  Result: inl error code | inr (bytes, (count, scanned), draws left, trace) *)
Definition drv_tamper_file (mode : list byte) (p : Z * N) (bp : option (Z * N)) (burst : option (Z * Z))
           (h : option Z) (bs : N) (content : list byte) (rnd : list (bool * (Z * N)))
  : N + (list byte * (N * N) * N * list (bool * (N * N))) :=
  let md := mode_of mode in
  let bq := option_map mkQ bp in
  let rs := map mkdraw rnd in
  match tamper_file md (mkQ p) bq burst h bs content rs,
        tamper_trace md (mkQ p) bq burst h bs content rs with
  | Ok (o, c, s, r), Ok (_, rcs, _) => inr (o, (N.of_nat c, N.of_nat s), len_out r, map rec_out rcs)
  | Err e, _ => inl (err_code e)
  | _, Err e => inl (err_code e)
  end.

Definition rep_out (r : report) : list N :=
  match r with
  | RFile c s => [N.of_nat c; N.of_nat s]
  | RDir a b c s => [N.of_nat a; N.of_nat b; N.of_nat c; N.of_nat s]
  end.

(* main() on a file *)
Definition drv_tamper_main_file (mode : list byte) (p : Z * N) (bp : option (Z * N)) (burst : option (Z * Z))
           (h : option Z) (bs : N) (content : list byte) (rnd : list (bool * (Z * N)))
  : N + (list byte * list N * N) :=
  match main_file (mode_of mode) (mkQ p) (option_map mkQ bp) burst h bs content (map mkdraw rnd) with
  | Ok (o, rp, r) => inr (o, rep_out rp, len_out r)
  | Err e => inl (err_code e)
  end.

(* main() on a directory: files in walk order, each with its effective probability *)
Definition drv_tamper_main_dir (mode : list byte) (bp : option (Z * N)) (burst : option (Z * Z))
           (h : option Z) (bs : N) (ps : list (Z * N)) (contents : list (list byte)) (rnd : list (bool * (Z * N)))
  : N + (list (list byte) * list N * N) :=
  match main_dir (mode_of mode) (option_map mkQ bp) burst h bs (combine (map mkQ ps) contents) (map mkdraw rnd) with
  | Ok (cs, rp, r) => inr (cs, rep_out rp, len_out r)
  | Err e => inl (err_code e)
  end.
