(* Pipeline.v — executable model of what the two ECC tools do to ONE file given its parsed ecc
   entry, and of the counters / exit status of a correction run.
     header_ecc.py              entry_assemble (zip of two ranges), the per-block loop
                                (hash test, optional syndrome pre-check, decode, re-verify,
                                commit or copy through), output assembly, counters, exit status
     structural_adaptive_ecc.py stream_entry_assemble (loop driven by the ecc cursor), the
                                detection pass, the repair pass, output assembly / removal,
                                counters, exit status
   The hash and the codec facade (lib/eccman.py: check / decode, with third-party decoders
   behind it) are oracles: Section variables, no hypotheses here.  Every function that consults
   an oracle also returns the list of oracle queries it makes, in program order: this is the
   call sequence the correspondence check compares with the recorded calls of the real run.
   Model only: no property proofs in this file. *)
From Coq Require Import List Arith Bool.
From Coq Require Import Strings.Byte.
From PFF Require Import Bytes.
Import ListNotations.

Fixpoint beqb (a b : list byte) : bool :=
  match a, b with
  | [], [] => true
  | x :: a', y :: b' => byte_eqb x y && beqb a' b'
  | _, _ => false
  end.

(* one assembled block: the k handed to the codec, message, stored hash, stored parity *)
Record ablock := mkb { bk : nat; msg : list byte; hsh : list byte; ecc : list byte }.

(* what happened to a block *)
Inductive verdict :=
| Kept                                  (* not flagged: copied through *)
| Repaired (hash_ok ecc_ok : bool)      (* decoded and committed *)
| Failed                                (* "could not repair block i": copied through *)
| Unexamined.                           (* after the too-many-consecutive-errors break *)

Inductive query :=
| QHash (m : list byte)
| QChk (k : nat) (m p : list byte)
| QDec (k : nat) (m p : list byte).

(* classification of a processed file for the counters *)
Inductive fclass := Clean | Complete | Partial | NotAtAll.

Record fres := mkf {
  f_out : option (list byte);        (* bytes of the output file, None = no output file *)
  f_verdicts : list verdict;         (* one per assembled block *)
  f_class : fclass;
  f_trace : list query }.

Definition is_flagged (v : verdict) : bool :=
  match v with Repaired _ _ | Failed => true | _ => false end.
Definition is_repaired (v : verdict) : bool :=
  match v with Repaired _ _ => true | _ => false end.
Definition is_failed (v : verdict) : bool :=
  match v with Failed => true | _ => false end.

Section Pipeline.
  Variable opts_t : Type.
  Variable hash : list byte -> list byte.
  Variable chk : nat -> list byte -> list byte -> bool.
  Variable dec : nat -> opts_t -> list byte -> list byte -> option (list byte * list byte).
  Variable o : opts_t.               (* erasure options of the run *)
  Variable fast : bool.              (* not --no_fast_check *)

  (* hasher.hash(mes) != hash or (not fast_check and not ecc_manager.check(mes, ecc)) *)
  Definition flag_run (b : ablock) : bool * list query :=
    if negb (beqb (hash (msg b)) (hsh b)) then (true, [QHash (msg b)])
    else if fast then (false, [QHash (msg b)])
    else (negb (chk (bk b) (msg b) (ecc b)), [QHash (msg b); QChk (bk b) (msg b) (ecc b)]).

  (* decode (None = the decoder raised ReedSolomonError / RSCodecError), then
     hash_ok = hash(repaired) == stored hash, ecc_ok = check(repaired, repaired_ecc);
     commit iff hash_ok or ecc_ok, else keep the received block and report it *)
  Definition repair_run (b : ablock) : (list byte * verdict) * list query :=
    match dec (bk b) o (msg b) (ecc b) with
    | None => ((msg b, Failed), [QDec (bk b) (msg b) (ecc b)])
    | Some (m', p') =>
        let hok := beqb (hash m') (hsh b) in
        let eok := chk (bk b) m' p' in
        (if hok || eok then (m', Repaired hok eok) else (msg b, Failed),
         [QDec (bk b) (msg b) (ecc b); QHash m'; QChk (bk b) m' p'])
    end.

  Definition block_run (b : ablock) : (list byte * verdict) * list query :=
    let '(f, q) := flag_run b in
    if f then let '(r, q') := repair_run b in (r, q ++ q')
    else ((msg b, Kept), q).

  Definition block_step (b : ablock) : list byte * verdict := fst (block_run b).

  (* for i, e in enumerate(blocks): ... with the flag err_consecutive (true until a block is
     found good or is repaired) and `if err_consecutive and i >= 10: break` after a failure.
     Blocks after the break get the verdict Unexamined and their received bytes. *)
  Fixpoint blocks_loop (i : nat) (errc : bool) (bl : list ablock)
    : list (list byte * verdict) * list query :=
    match bl with
    | [] => ([], [])
    | b :: t =>
        let '((c, v), q) := block_run b in
        match v with
        | Failed =>
            if errc && (10 <=? i) then ((c, v) :: map (fun x => (msg x, Unexamined)) t, q)
            else let '(r, q') := blocks_loop (S i) errc t in ((c, v) :: r, q ++ q')
        | _ => let '(r, q') := blocks_loop (S i) false t in ((c, v) :: r, q ++ q')
        end
    end.

  (* ------------------------------------------------------------------ *)
  (* header tool                                                         *)
  (* ------------------------------------------------------------------ *)
  (* entry_assemble: for i, j in zip(range(0, len(fileheader), ms), range(0, len(ecc_field), hs+es)):
       mes = fileheader[i:i+ms]; hash = ecc_field[j:j+hs]; ecc = ecc_field[j+hs:j+hs+es]
     written by consuming both strings: position i (j) is in range iff the rest is non-empty *)
  Fixpoint hdr_asm (fuel ms hs es : nat) (fh tr : list byte) : list ablock :=
    match fuel with
    | 0 => []
    | S f =>
        match fh, tr with
        | [], _ => []
        | _, [] => []
        | _, _ => mkb ms (firstn ms fh) (firstn hs tr) (firstn es (skipn hs tr))
                  :: hdr_asm f ms hs es (skipn ms fh) (skipn (hs + es) tr)
        end
    end.

  (* fileheader = file.read(filesize) if 0 < filesize < header_size else file.read(header_size) *)
  Definition hdr_want (hdr recorded : nat) : nat :=
    if (0 <? recorded) && (recorded <? hdr) then recorded else hdr.

  Definition hdr_blocks (ms mb hlen hdr recorded : nat) (file track : list byte) : list ablock :=
    let fh := firstn (hdr_want hdr recorded) file in
    hdr_asm (length fh) ms hlen (mb - ms) fh track.

  (* the per-file part of the correction loop of header_ecc.main: an output file is written iff
     some block was flagged; it is the committed blocks followed by the rest of the input from
     the end of the assembled blocks on (after the fix; the unfixed code resumed at header_size) *)
  Definition hdr_file (ms mb hlen hdr recorded : nat) (file track : list byte) : fres :=
    let bl := hdr_blocks ms mb hlen hdr recorded file track in
    let '(res, q) := blocks_loop 0 true bl in
    let vs := map snd res in
    if existsb is_flagged vs then
      mkf (Some (concat (map fst res) ++ skipn (length (concat (map msg bl))) file)) vs
          (if existsb is_failed vs then Partial else Complete) q
    else mkf None vs Clean q.

  (* the unfixed output rule, kept for the record of the defect (not used by the theorems) *)
  Definition hdr_out_unfixed (hdr : nat) (res : list (list byte * verdict)) (file : list byte) : list byte :=
    concat (map fst res) ++ skipn hdr file.

  (* ------------------------------------------------------------------ *)
  (* whole-file tool                                                     *)
  (* ------------------------------------------------------------------ *)
  Variable mu : nat -> nat.          (* message size of the block starting at a file offset *)
  Variables mb hlen : nat.

  (* stream_entry_assemble: while ecc_curpos < end of track: ms = mu(curpos); mes = file.read(ms);
     if not mes: return; buf = eccfile.read(hs + es); hash = buf[:hs]; ecc = buf[hs:].
     frest = the input from curpos on, drest = the ecc file from ecc_curpos on (reads may run
     past the end of the track), trem = bytes of track left *)
  Fixpoint sa_asm (fuel : nat) (frest drest : list byte) (trem cur : nat) : list ablock :=
    match fuel with
    | 0 => []
    | S f =>
        if 0 <? trem then
          let ms := mu cur in
          let mes := firstn ms frest in
          match mes with
          | [] => []
          | _ =>
              let buf := firstn (hlen + (mb - ms)) drest in
              mkb ms mes (firstn hlen buf) (skipn hlen buf)
              :: sa_asm f (skipn ms frest) (skipn (hlen + (mb - ms)) drest)
                        (trem - length buf) (cur + length mes)
          end
        else []
    end.

  Definition sa_blocks (file db : list byte) (tlen : nat) : list ablock :=
    sa_asm (S (length file)) file db tlen 0.

  (* first pass: stop at the first flagged block *)
  Fixpoint sa_detect (bl : list ablock) : bool * list query :=
    match bl with
    | [] => (false, [])
    | b :: t =>
        let '(f, q) := flag_run b in
        if f then (true, q) else let '(f', q') := sa_detect t in (f', q ++ q')
    end.

  Definition processed (res : list (list byte * verdict)) : list (list byte * verdict) :=
    filter (fun r => match snd r with Unexamined => false | _ => true end) res.

  (* second pass (only when the first one flagged a block): every block examined before the break
     is written (committed or copied through), then — after the fix — the rest of the input from
     the end of the last examined block on; the output is removed again when no block could be
     repaired (repaired_one_block false) *)
  Definition sa_file (file db : list byte) (tlen : nat) : fres :=
    let bl := sa_blocks file db tlen in
    let '(det, q1) := sa_detect bl in
    if det then
      let '(res, q2) := blocks_loop 0 true bl in
      let vs := map snd res in
      let done := processed res in
      let out := concat (map fst done)
                 ++ skipn (length (concat (map msg (firstn (length done) bl)))) file in
      if existsb is_repaired vs then
        mkf (Some out) vs (if existsb is_failed vs then Partial else Complete) (q1 ++ q2)
      else mkf None vs NotAtAll (q1 ++ q2)
    else mkf None (map (fun _ => Kept) bl) Clean q1.

  (* ------------------------------------------------------------------ *)
  (* generation side (what `-g` stores for one file), used to state C01  *)
  (* ------------------------------------------------------------------ *)
  Variable enc : nat -> list byte -> list byte.

  (* compute_ecc_hash: for i in range(0, len(buf), ms): hash(mes) + encode(mes) *)
  Fixpoint hdr_gen_blocks (fuel ms : nat) (buf : list byte) : list ablock :=
    match fuel with
    | 0 => []
    | S f =>
        match buf with
        | [] => []
        | _ => let m := firstn ms buf in
               mkb ms m (hash m) (enc ms m) :: hdr_gen_blocks f ms (skipn ms buf)
        end
    end.
  Definition hdr_gen (ms hdr : nat) (file : list byte) : list ablock :=
    hdr_gen_blocks (length file) ms (firstn hdr file).

  (* stream_compute_ecc_hash: while curpos < size: mes = file.read(mu(curpos)); hash(mes), encode(mes, k=mu(curpos)) *)
  Fixpoint sa_gen_blocks (fuel : nat) (frest : list byte) (cur : nat) : list ablock :=
    match fuel with
    | 0 => []
    | S f =>
        match frest with
        | [] => []
        | _ => let ms := mu cur in
               let m := firstn ms frest in
               mkb ms m (hash m) (enc ms m) :: sa_gen_blocks f (skipn ms frest) (cur + length m)
        end
    end.
  Definition sa_gen (file : list byte) : list ablock := sa_gen_blocks (length file) file 0.

  (* the bytes of the ecc track of a block list *)
  Definition track_of (bl : list ablock) : list byte := concat (map (fun b => hsh b ++ ecc b) bl).
End Pipeline.

(* ------------------------------------------------------------------ *)
(* counters and exit status of a correction run                        *)
(* ------------------------------------------------------------------ *)
Record counters := mkc { c_processed : nat; c_corrupted : nat; c_complete : nat; c_partial : nat }.

Definition tally1 (c : counters) (k : fclass) : counters :=
  match k with
  | Clean => mkc (S (c_processed c)) (c_corrupted c) (c_complete c) (c_partial c)
  | Complete => mkc (S (c_processed c)) (S (c_corrupted c)) (S (c_complete c)) (c_partial c)
  | Partial => mkc (S (c_processed c)) (S (c_corrupted c)) (c_complete c) (S (c_partial c))
  | NotAtAll => mkc (S (c_processed c)) (S (c_corrupted c)) (c_complete c) (c_partial c)
  end.
Definition tally (ks : list fclass) : counters := fold_left tally1 ks (mkc 0 0 0 0).
(* "Total files corrupted but not repaired at all" *)
Definition c_notatall (c : counters) : nat := c_corrupted c - (c_partial c + c_complete c).
(* if files_corrupted == 0 or files_repaired_completely == files_corrupted: return 0 else: return 1 *)
Definition exit_status (c : counters) : nat :=
  if (c_corrupted c =? 0) || (c_complete c =? c_corrupted c) then 0 else 1.

(* ------------------------------------------------------------------ *)
(* the trees: inputs are read, outputs are added                        *)
(* ------------------------------------------------------------------ *)
Definition tree := list (list byte * list byte).       (* relative path |-> content *)
Record fs := mkfs { fs_in : tree; fs_out : tree }.
(* one file processed: its result is (perhaps) written under the output root; the input root
   is only ever read *)
Definition commit_file (s : fs) (path : list byte) (r : fres) : fs :=
  match f_out r with
  | Some bytes => mkfs (fs_in s) ((path, bytes) :: fs_out s)
  | None => s
  end.
Definition run_files (s : fs) (rs : list (list byte * fres)) : fs * nat :=
  (fold_left (fun st pr => commit_file st (fst pr) (snd pr)) rs s,
   exit_status (tally (map (fun pr => f_class (snd pr)) rs))).
