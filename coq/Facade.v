(* Facade.v — executable model of lib/eccman.py ECCMan: codec selection (field, first root),
   per-call k, left padding of short messages (shortening), right padding of a short ecc
   (puncturing), encode, check, the erasure positions handed to the decoders (computed on
   message+ecc BEFORE padding, then shifted by the pad length), and the executable relation
   decodes_to that a decoder answer must satisfy.  The decoders themselves (Berlekamp-Massey /
   Forney in reedsolo and unireedsolomon) are third-party code and are NOT modelled: they are
   oracles whose answers are validated with decodes_to.  Model only. *)
From Coq Require Import List Arith Bool NArith.
From Coq Require Import Strings.Byte.
From PFF Require Import Bytes GF256 RS.
Import ListNotations.

Record codec := { cd_f : gf; cd_fcr : nat }.
(* algo 1,2 (unireedsolomon) and 3 (reedsolo): generator 3, prim 0x11b, fcr 1; algo 4: generator 2, prim 0x187, fcr 120 *)
Definition codec_of (algo : N) : codec :=
  if (algo =? 4)%N then {| cd_f := F4; cd_fcr := 120 |} else {| cd_f := F3; cd_fcr := 1 |}.

Definition cparity (c : codec) (nsym : nat) (m : list byte) : list byte :=
  RS.rs_parity byte x00 x01 badd (bmul (cd_f c)) (gf_alpha (cd_f c)) nsym (cd_fcr c) m.
Definition ccheck (c : codec) (nsym : nat) (w : list byte) : bool :=
  RS.rs_check byte x00 x01 badd (bmul (cd_f c)) byte_eqb (gf_alpha (cd_f c)) nsym (cd_fcr c) w.

(* if not k: k = self.k *)
Definition eff_k (selfk k : nat) : nat := if k =? 0 then selfk else k.
(* pad(): left pad with null bytes up to k;  rpad(): right pad the ecc with null bytes up to n-k *)
Definition lpad (k : nat) (m : list byte) : list byte := repeat x00 (k - length m) ++ m.
Definition rpad (nk : nat) (e : list byte) : list byte := e ++ repeat x00 (nk - length e).

Definition fac_encode (c : codec) (n selfk k : nat) (m : list byte) : list byte :=
  let k' := eff_k selfk k in cparity c (n - k') (lpad k' m).
Definition fac_check (c : codec) (n selfk k : nat) (m e : list byte) : bool :=
  let k' := eff_k selfk k in ccheck c (n - k') (lpad k' m ++ rpad (n - k') e).

(* [i for i in range(len(mesecc)) if mesecc[i] == erasures_char], then x + len_pad *)
Fixpoint positions_from (i : nat) (ch : byte) (w : list byte) : list nat :=
  match w with
  | [] => []
  | x :: t => if byte_eqb x ch then i :: positions_from (S i) ch t else positions_from (S i) ch t
  end.
Definition fac_erasures (k' : nat) (ch : byte) (m e : list byte) : list nat :=
  map (fun i => i + (k' - length m)) (positions_from 0 ch (m ++ e)).
Definition erasure_set (k' : nat) (erasures : option byte) (m e : list byte) : list nat :=
  match erasures with Some ch => fac_erasures k' ch m e | None => [] end.

(* the padded received word and a padded candidate codeword *)
Definition received (n k' : nat) (m e : list byte) : list byte := lpad k' m ++ rpad (n - k') e.
(* (m', e') is an acceptable decoder answer for the received (m, e): right lengths, passes the
   facade's own check, and lies within the errors-and-erasures radius of the received word *)
Definition decodes_to (c : codec) (n selfk k : nat) (erasures : option byte) (m e m' e' : list byte) : bool :=
  let k' := eff_k selfk k in
  (length m' =? length m) && (length e' =? n - k') && fac_check c n selfk k m' e' &&
  RS.within byte byte_eqb (n - k') (erasure_set k' erasures m e) (received n k' m e) (received n k' m' e').
(* the original (m0, its parity) is within capacity of the received (m, e) *)
Definition within_capacity (c : codec) (n selfk k : nat) (erasures : option byte) (m e m0 : list byte) : bool :=
  let k' := eff_k selfk k in
  RS.within byte byte_eqb (n - k') (erasure_set k' erasures m e) (received n k' m e)
            (received n k' m0 (fac_encode c n selfk k m0)).
