(* Driver.v — thin entry points of the executable models, as called by ocaml/driver.ml.
   Numbers cross the boundary as N (binary), byte strings as list byte. *)
From Coq Require Import List NArith Bool.
From Coq Require Import Strings.Byte.
From PFF Require Import Bytes Vote.
Import ListNotations.

Definition drv_vote (bs : N) (copies : list (list byte)) : list byte * N :=
  let '(o, s) := vote_chunked byte_eqb (N.to_nat bs) copies in (o, N.of_nat s).

(* ---- C20 ---- *)
From PFF Require Import Diff.
Fixpoint assoc (k : list byte) (l : list (list byte * list byte)) : option (list byte) :=
  match l with
  | [] => None
  | (k', v) :: t => if list_eqb byte_eqb k k' then Some v else assoc k t
  end.
Definition NN (p : nat * nat) : N * N := (N.of_nat (fst p), N.of_nat (snd p)).
Definition drv_diff (bs st1 st2 : N) (f1 f2 : list byte) : (N * N) * bool :=
  (NN (diff_bytes byte_eqb (N.to_nat bs) (N.to_nat st1) (N.to_nat st2) f1 f2),
   diff_same byte_eqb (N.to_nat bs) (N.to_nat st1) (N.to_nat st2) f1 f2).
Definition drv_diffdir (bs : N) (rk rv ok ov : list (list byte)) : ((N * N) * (N * N)) * N :=
  let ref := combine rk rv in
  let other := fun p => assoc p (combine ok ov) in
  ((NN (bytes_dir byte_eqb (N.to_nat bs) ref other), NN (count_dir byte_eqb (N.to_nat bs) ref other)),
   N.of_nat (exit_status byte_eqb (N.to_nat bs) ref other)).
