(* Index.v — executable model of the `.idx` index companion written at generation
   (pyFileFixity/header_ecc.py, pyFileFixity/structural_adaptive_ecc.py) and of `pff recover`
   (pyFileFixity/repair_ecc.py, after the two fixes of property C15).  Model only: no property
   proofs here.

   Generation.  For every entry both tools write
       entrymarker path field_delim size field_delim path_ecc field_delim size_ecc field_delim track
   and, into <eccfile>.idx, five 27-byte blocks: kind ('1' entry marker, '2' field delimiter),
   struct.pack('>Q', offset), ECCMan(27, 9).encode(kind + offset) (18 bytes).

   Recovery.  repair_ecc copies the ecc file, then reads the index 27 bytes at a time:
   check(block[:9], block[9:]); when false decode (an exception of the decoder = block skipped),
   re-check the decoder's answer; the surviving 9 bytes must be 9 bytes, start with '1' or '2' and
   give a position at which the marker fits inside the file, otherwise the block is skipped;
   the marker is then written over the copy at that position (always: the "no need to repair"
   comparison of the code compares bytes with str and never holds under Python 3; rewriting an
   intact marker changes nothing).  Then the Hamming-distance heuristic runs over the result; it
   is modelled for arbitrary (already rounded) thresholds, at threshold 0 it rewrites nothing.

   The codec is abstract: [enc], [chk], [dec] are the ECCMan facade calls of the index codec
   (encode / check / decode incl. their null-byte padding of short inputs); [dec] returning
   [None] is the decoder raising ReedSolomonError / RSCodecError. *)
From Coq Require Import List NArith Bool Arith.
From Coq Require Import Strings.Byte.
From PFF Require Import Bytes.
Import ListNotations.

Definition entrymarker : list byte := [xfe; xff; xfe; xff; xfe; xff; xfe; xff; xfe; xff].
Definition field_delim : list byte := [xfa; xff; xfa; xff; xfa].

Definition lenN (l : list byte) : N := N.of_nat (length l).

(* ---- struct.pack('>Q', v) / struct.unpack('>Q', s) ---- *)
Fixpoint be_bytes (n : nat) (v : N) : list byte :=
  match n with
  | 0 => []
  | S k => be_bytes k (v / 256) ++ [byte_of_N (v mod 256)]
  end.
Definition be64 (v : N) : list byte := be_bytes 8 v.
Definition unbe (l : list byte) : N := fold_left (fun a b => (a * 256 + N_of_byte b)%N) l 0%N.

(* ---- the entry layout ---- *)
Record ientry := mk_ientry {
  e_path : list byte; e_size : list byte; e_pecc : list byte; e_secc : list byte; e_track : list byte }.

Definition ix_format_entry (e : ientry) : list byte :=
  entrymarker ++ e_path e ++ field_delim ++ e_size e ++ field_delim ++ e_pecc e ++ field_delim
  ++ e_secc e ++ field_delim ++ e_track e.

Definition ecc_file (pre : list byte) (es : list ientry) : list byte :=
  pre ++ flat_map ix_format_entry es.

Definition kind_marker : byte := x31.   (* '1' *)
Definition kind_delim : byte := x32.    (* '2' *)

(* markers_pos of header_ecc.py: running sums of the field lengths *)
Definition entry_offsets (pos : N) (e : ientry) : list (byte * N) :=
  let p1 := (pos + lenN entrymarker + lenN (e_path e))%N in
  let p2 := (p1 + lenN field_delim + lenN (e_size e))%N in
  let p3 := (p2 + lenN field_delim + lenN (e_pecc e))%N in
  let p4 := (p3 + lenN field_delim + lenN (e_secc e))%N in
  [(kind_marker, pos); (kind_delim, p1); (kind_delim, p2); (kind_delim, p3); (kind_delim, p4)].

(* structural_adaptive_ecc.py takes the last position as db.tell() - len(field_delim) after the
   metadata has been written *)
Definition entry_offsets_sa (pos : N) (e : ientry) : list (byte * N) :=
  let p1 := (pos + lenN entrymarker + lenN (e_path e))%N in
  let p2 := (p1 + lenN field_delim + lenN (e_size e))%N in
  let p3 := (p2 + lenN field_delim + lenN (e_pecc e))%N in
  let tell := (pos + lenN (entrymarker ++ e_path e ++ field_delim ++ e_size e ++ field_delim
                           ++ e_pecc e ++ field_delim ++ e_secc e ++ field_delim))%N in
  [(kind_marker, pos); (kind_delim, p1); (kind_delim, p2); (kind_delim, p3);
   (kind_delim, (tell - lenN field_delim)%N)].

Fixpoint index_offsets_gen (eo : N -> ientry -> list (byte * N)) (pos : N) (es : list ientry)
  : list (byte * N) :=
  match es with
  | [] => []
  | e :: t => eo pos e ++ index_offsets_gen eo (pos + lenN (ix_format_entry e))%N t
  end.
Definition index_offsets := index_offsets_gen entry_offsets.
Definition index_offsets_sa := index_offsets_gen entry_offsets_sa.

Definition msz : nat := 9.     (* compute_ecc_params(27, 1, .)["message_size"] *)
Definition esz : nat := 18.
Definition rsz : nat := 27.

Definition record_msg (ko : byte * N) : list byte := fst ko :: be64 (snd ko).

(* number of differing positions (distance.hamming on equal lengths) *)
Fixpoint hamming (a b : list byte) : nat :=
  match a, b with
  | x :: a', y :: b' => (if byte_eqb x y then 0 else 1) + hamming a' b'
  | _, _ => 0
  end.

(* split a byte string into consecutive blocks of n bytes, the last one possibly shorter
   (dbidx.read(27) until it returns nothing) *)
Fixpoint chunks_fuel (fuel n : nat) (l : list byte) : list (list byte) :=
  match fuel with
  | 0 => []
  | S f => match l with
           | [] => []
           | _ => firstn n l :: chunks_fuel f n (skipn n l)
           end
  end.
Definition chunks (n : nat) (l : list byte) : list (list byte) := chunks_fuel (length l) n l.

(* db.seek(off); db.write(m) on a file at least off + |m| long *)
Definition write_at (ecc : list byte) (off : nat) (m : list byte) : list byte :=
  firstn off ecc ++ m ++ skipn (off + length m) ecc.

Definition marker_of_kind (k : byte) : option (list byte) :=
  if byte_eqb k kind_marker then Some entrymarker
  else if byte_eqb k kind_delim then Some field_delim
  else None.

(* the validation added by the second fix: 9 bytes, kind '1'/'2', marker inside the file *)
Definition valid_infos (size : nat) (m : list byte) : option (nat * list byte) :=
  match m with
  | [] => None
  | k :: posb =>
      if negb (length m =? msz) then None
      else match marker_of_kind k with
           | None => None
           | Some mk =>
               let off := unbe posb in
               if (off + lenN mk <=? N.of_nat size)%N then Some (N.to_nat off, mk) else None
           end
  end.

Section Codec.
  Variable enc : list byte -> list byte.
  Variable chk : list byte -> list byte -> bool.
  Variable dec : list byte -> list byte -> option (list byte * list byte).

  Definition mk_record (ko : byte * N) : list byte :=
    let m := record_msg ko in m ++ enc m.

  Definition gen_index (pre : list byte) (es : list ientry) : list byte :=
    flat_map mk_record (index_offsets (lenN pre) es).
  Definition gen_index_sa (pre : list byte) (es : list ientry) : list byte :=
    flat_map mk_record (index_offsets_sa (lenN pre) es).

  (* check -> decode -> re-check: the marker infos a block yields, None = skipped *)
  Definition block_infos (buf : list byte) : option (list byte) :=
    let m := firstn msz buf in
    let e := skipn msz buf in
    if chk m e then Some m
    else match dec m e with
         | Some (m', e') => if chk m' e' then Some m' else None
         | None => None
         end.

  Definition block_write (size : nat) (buf : list byte) : option (nat * list byte) :=
    match block_infos buf with
    | Some m => valid_infos size m
    | None => None
    end.

  Definition recover_block (ecc buf : list byte) : list byte :=
    match block_write (length ecc) buf with
    | Some (off, mk) => write_at ecc off mk
    | None => ecc
    end.

  Definition recover_index (ecc idx : list byte) : list byte :=
    fold_left recover_block (chunks rsz idx) ecc.
End Codec.

(* ---- the Hamming-distance heuristic (second stage of repair_ecc.main) ---- *)
(* state of the scan: skip_until (a buffer-relative index that is never reset between buffers),
   and per marker type the list of [position, distance] to repair, LAST element first *)
Record hstate := mk_hstate { h_skip : nat; h_mp1 : list (N * nat); h_mp2 : list (N * nat) }.

(* (mcurpos - markers_pos[m][-1][0]) <= len(markers[m]) on Python integers: a negative
   difference also satisfies it, as does the truncated subtraction of N *)
Definition near (mcurpos : N) (mp : list (N * nat)) (mlen : nat) : bool :=
  match mp with
  | [] => false
  | (p, _) :: _ => (mcurpos - p <=? N.of_nat mlen)%N
  end.

(* one marker type at one position; returns the new list for that type, the new skip_until and
   whether the `break` was taken *)
Definition scan_marker (thr : nat) (marker : list byte) (i : nat) (mcurpos : N) (window : list byte)
           (skip : nat) (mp : list (N * nat)) : list (N * nat) * nat * bool :=
  let d := hamming (firstn (length marker) window) marker in
  if d =? 0 then
    let mp' := if near mcurpos mp (length marker) then tl mp else mp in
    let su := i + length marker in
    (mp', (if skip <? su then su else skip), true)
  else if d <=? thr then
    if near mcurpos mp (length marker) then
      match mp with
      | (p, d0) :: t => if d <? d0 then ((mcurpos, d) :: t, skip, false) else (mp, skip, false)
      | [] => (mp, skip, false)
      end
    else ((mcurpos, d) :: mp, skip, false)
  else (mp, skip, false).

Definition scan_pos (thr1 thr2 : nat) (i : nat) (mcurpos : N) (window : list byte) (st : hstate) : hstate :=
  if i <? h_skip st then st
  else
    let '(mp1, sk1, brk) := scan_marker thr1 entrymarker i mcurpos window (h_skip st) (h_mp1 st) in
    if brk then mk_hstate sk1 mp1 (h_mp2 st)
    else
      let '(mp2, sk2, _) := scan_marker thr2 field_delim i mcurpos window sk1 (h_mp2 st) in
      mk_hstate sk2 mp1 mp2.

(* for i in range(len(buf) - 10): [rest] is buf[i:], [count] the iterations left *)
Fixpoint scan_buf (thr1 thr2 : nat) (count i : nat) (mcurpos : N) (rest : list byte) (st : hstate) : hstate :=
  match count with
  | 0 => st
  | S c => scan_buf thr1 thr2 c (S i) (N.succ mcurpos) (tl rest) (scan_pos thr1 thr2 i mcurpos rest st)
  end.

(* while buf: curpos = tell(); buf = read(blocksize); ...; if tell() < ecc_size: seek(tell() - 10) *)
Fixpoint scan_file (fuel : nat) (thr1 thr2 bs : nat) (ecc : list byte) (curpos : nat) (st : hstate) : hstate :=
  match fuel with
  | 0 => st
  | S f =>
      let buf := firstn bs (skipn curpos ecc) in
      match buf with
      | [] => st
      | _ =>
          let st' := scan_buf thr1 thr2 (length buf - length entrymarker) 0 (N.of_nat curpos) buf st in
          let t := curpos + length buf in
          scan_file f thr1 thr2 bs ecc (if t <? length ecc then t - length entrymarker else t) st'
      end
  end.

(* committing: for each type, for each detected position in detection order, write the marker
   (positions come from the scan, so the marker always fits inside the file) *)
Definition commit (marker : list byte) (mp : list (N * nat)) (ecc : list byte) : list byte :=
  fold_left (fun c pd => write_at c (N.to_nat (fst pd)) marker) (rev mp) ecc.

Definition hamming_stage (thr1 thr2 bs : nat) (ecc : list byte) : list byte :=
  let st := scan_file (S (length ecc)) thr1 thr2 bs ecc 0 (mk_hstate 0 [] []) in
  commit field_delim (h_mp2 st) (commit entrymarker (h_mp1 st) ecc).

(* repair_ecc.main with --index: index stage, then the heuristic on the result *)
Definition recover (chk : list byte -> list byte -> bool)
           (dec : list byte -> list byte -> option (list byte * list byte))
           (thr1 thr2 bs : nat) (ecc idx : list byte) : list byte :=
  hamming_stage thr1 thr2 bs (recover_index chk dec ecc idx).
