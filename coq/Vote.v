(* Vote.v — executable model of replication_repair.majority_vote_byte_scan
   (pyFileFixity/replication_repair.py).  Model only: no property proofs here.

   The Python function reads `blocksize` bytes from every copy per round, stops when
   every read is empty, copies the only surviving copy's chunk when exactly one read is
   non-empty, and otherwise votes column by column with an insertion-ordered histogram
   (a dict), a stable descending sort on the counts, and an "ambiguity" error whenever
   a column holds >= 2 distinct values that all occur once.  With fewer than three
   copies it copies the first one verbatim and returns status 1. *)
From Coq Require Import List Arith Bool.
Import ListNotations.

Section Vote.
  Context {A : Type} (eqb : A -> A -> bool).

  (* hist[key] = hist.get(key,0)+1 on an insertion-ordered dict *)
  Fixpoint hist_add (h : list (A * nat)) (x : A) : list (A * nat) :=
    match h with
    | [] => [(x, 1)]
    | (y, c) :: t => if eqb x y then (y, S c) :: t else (y, c) :: hist_add t x
    end.

  Definition hist (col : list A) : list (A * nat) := fold_left hist_add col [].

  (* sorted(hist, key=hist.get, reverse=True)[0] : stable, so the first key (in
     insertion order) among those of maximal count *)
  Fixpoint first_max (h : list (A * nat)) : option (A * nat) :=
    match h with
    | [] => None
    | (x, c) :: t =>
        match first_max t with
        | None => Some (x, c)
        | Some (y, d) => if c <? d then Some (y, d) else Some (x, c)
        end
    end.

  (* the characters at position i of every entry that reaches i, in entry order *)
  Definition column (i : nat) (entries : list (list A)) : list A :=
    flat_map (fun e => match nth_error e i with Some x => [x] | None => [] end) entries.

  (* one column: (byte written, ambiguity error?) ; None when no entry reaches i *)
  Definition vote_col (col : list A) : option (A * bool) :=
    let h := hist col in
    match first_max h with
    | None => None
    | Some (x, c) => Some (x, (1 <? length h) && (c =? 1))
    end.

  Definition maxlen (entries : list (list A)) : nat :=
    fold_right (fun e m => Nat.max (length e) m) 0 entries.

  (* vote over columns 0 .. maxlen-1 of the given entries *)
  Definition vote_cols (entries : list (list A)) : list (A * bool) :=
    flat_map (fun i => match vote_col (column i entries) with Some r => [r] | None => [] end)
             (seq 0 (maxlen entries)).

  Definition is_nil (l : list A) : bool := match l with [] => true | _ => false end.

  Definition count_nonempty (entries : list (list A)) : nat :=
    length (filter (fun e => negb (is_nil e)) entries).

  (* the chunk committed by one round of the while loop, and its error flag *)
  Definition round_out (entries : list (list A)) : list A * bool :=
    if count_nonempty entries =? 1
    then (concat entries, false)       (* the only non-empty read, copied over *)
    else let r := vote_cols entries in (map fst r, existsb snd r).

  (* the while loop; fuel bounds the number of rounds (S maxlen suffices for bs >= 1) *)
  Fixpoint vote_loop (fuel bs : nat) (copies : list (list A)) : list A * bool :=
    match fuel with
    | 0 => ([], false)
    | S f =>
        let entries := map (firstn bs) copies in
        if forallb is_nil entries then ([], false)
        else
          let '(o, e) := round_out entries in
          let '(o', e') := vote_loop f bs (map (skipn bs) copies) in
          (o ++ o', e || e')
    end.

  (* majority_vote_byte_scan as a function: (bytes written, status code) *)
  Definition vote_chunked (bs : nat) (copies : list (list A)) : list A * nat :=
    if length copies <? 3 then
      (match copies with [] => [] | c :: _ => c end, 1)
    else
      let '(o, e) := vote_loop (S (maxlen copies)) bs copies in
      (o, if e then 1 else 0).

  (* ---------- specification (no chunking) ---------- *)
  Definition vote_spec (copies : list (list A)) : list A := map fst (vote_cols copies).
  Definition status_spec (copies : list (list A)) : nat :=
    if existsb snd (vote_cols copies) then 1 else 0.
End Vote.
