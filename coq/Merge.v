(* Merge.v — executable model of the replica alignment of `pff dup`
   (pyFileFixity/replication_repair.py: sort_dict_of_paths, sort_group, synchronize_files),
   as the code is after the fix of the sort key.  Model only: no property proofs here.

   synchronize_files keeps, per input folder i,
     curfiles[i]          the pending relative path (list of parts) or None / no key,
     recgen[i]            the generator of the remaining walk results,
     recgen_exhausted[i]  a flag, and a global recgen_exhausted_count.
   While the count is below the number of folders it calls sort_group(curfiles, True), takes the
   first group (all pending paths equal to the smallest one), processes that relative path with
   exactly the folders of the group, and then, for every folder of the group, loads the next walk
   result (or marks the folder exhausted).

   Part 1 is generic in the path type P, the sort key `key : P -> K` with its order `klt`
   (sorted(d.items(), key=lambda x: pathkey(x[1]))) and the equality `eqb` used for grouping.
   Part 2 is the key the code uses: (parent directory parts, file name) of the part list with
   leading '' padding removed, the padding of sort_dict_of_paths itself, and — for the record —
   the comparison of the code before the fix (cmp_padded).  In the loop model the pending paths
   are kept unpadded; Proofs/SyncP.v (code_key_pad, pad_inj) shows that the padding kept in the
   real curfiles changes neither the key nor the grouping test, and the stand-alone
   sort_dict_of_paths / sort_group models below include it.  Part 3 adds file contents and the
   vote (Vote.v).  Part 4 is the instance with byte-string names run by the driver. *)
From Coq Require Import List Arith Bool NArith.
From Coq Require Import Strings.Byte.
From PFF Require Import Bytes Vote Walk.
Import ListNotations.

(* ------------------------------------------------------------------------------------------ *)
Section Merge.
  Context {P K : Type} (key : P -> K) (klt : K -> K -> bool) (eqb : P -> P -> bool).

  (* comparison of the sort keys of dict values: the key of None sorts first *)
  Definition oltb (a b : option K) : bool :=
    match a, b with
    | None, Some _ => true
    | Some x, Some y => klt x y
    | _, _ => false
    end.

  (* sorted(d.items(), key=lambda x: pathkey(x[1])) : a stable sort; items are
     (folder index, pending path) *)
  Definition item : Type := nat * option P.
  Definition okey (e : item) : option K := option_map key (snd e).
  Definition sort_items (d : list item) : list item := sort_by okey oltb d.

  (* sort_group: `while base_elt[1] is None and d_sort: base_elt = d_sort.pop(0)` *)
  Fixpoint drop_none (l : list item) : list item :=
    match l with
    | (_, None) :: t => drop_none t
    | _ => l
    end.

  (* the loop over the remaining items with return_only_first=True: None is skipped, an item
     equal to the base joins the group, the first different one ends the loop *)
  Fixpoint take_group (base : P) (l : list item) : list (nat * P) :=
    match l with
    | [] => []
    | (_, None) :: t => take_group base t
    | (i, Some p) :: t => if eqb p base then (i, p) :: take_group base t else []
    end.

  (* sort_group(d, True)[0]; None when sort_group returns None (no pending path at all) *)
  Definition first_group (d : list item) : option (list (nat * P)) :=
    match drop_none (sort_items d) with
    | (i, Some p) :: t => Some ((i, p) :: take_group p t)
    | _ => None
    end.

  (* sort_group(d, False): all groups, in order *)
  Fixpoint group_rest (base : P) (g : list (nat * P)) (l : list item) : list (list (nat * P)) :=
    match l with
    | [] => [rev g]
    | (_, None) :: t => group_rest base g t
    | (i, Some p) :: t =>
        if eqb p base then group_rest base ((i, p) :: g) t
        else rev g :: group_rest p [(i, p)] t
    end.
  Definition sort_group_all (d : list item) : option (list (list (nat * P))) :=
    match drop_none (sort_items d) with
    | (i, Some p) :: t => Some (group_rest p [(i, p)] t)
    | _ => None
    end.

  (* ---- state of synchronize_files ---- *)
  Record rep : Type := mkrep { cur : option P;      (* curfiles[i] (None also stands for "no key") *)
                               rest : list P;       (* what recgen[i] will still yield *)
                               exh : bool }.        (* recgen_exhausted[i] *)
  Record state : Type := mkst { reps : list rep; cnt : nat (* recgen_exhausted_count *) }.

  (* initialisation loop: next(recgen[i]) or StopIteration *)
  Definition init_rep (w : list P) : rep :=
    match w with
    | [] => mkrep None [] true
    | p :: r => mkrep (Some p) r false
    end.
  Definition count_true (l : list bool) : nat := length (filter (fun b => b) l).
  Definition init (walks : list (list P)) : state :=
    let rs := map init_rep walks in mkst rs (count_true (map exh rs)).

  Fixpoint upd (i : nat) (f : rep -> rep) (l : list rep) : list rep :=
    match l, i with
    | [], _ => []
    | r :: t, 0 => f r :: t
    | r :: t, S j => r :: upd j f t
    end.

  (* the update loop body for folder i: returns the new rep and whether the count goes up *)
  Definition advance (r : rep) : rep * bool :=
    if exh r then (r, false)
    else match rest r with
         | [] => (mkrep None [] true, true)
         | q :: t => (mkrep (Some q) t false, false)
         end.
  Definition advance_at (st : state) (i : nat) : state :=
    match nth_error (reps st) i with
    | None => st
    | Some r => let '(r', inc) := advance r in
                mkst (upd i (fun _ => r') (reps st)) (if inc then S (cnt st) else cnt st)
    end.

  (* one iteration of the while loop: the processed path with the folders used, and the new state *)
  Definition step (st : state) : option ((P * list nat) * state) :=
    match first_group (combine (seq 0 (length (reps st))) (map cur (reps st))) with
    | Some ((i, p) :: g) =>
        Some ((p, map fst ((i, p) :: g)), fold_left advance_at (map fst ((i, p) :: g)) st)
    | _ => None
    end.

  Inductive outcome := Done | OutOfFuel | Crash.

  Fixpoint run (fuel : nat) (st : state) : list (P * list nat) * outcome :=
    match fuel with
    | 0 => ([], OutOfFuel)
    | S f =>
        if cnt st <? length (reps st) then
          match step st with
          | None => ([], Crash)          (* curfiles_grouped[0] on None: TypeError *)
          | Some (row, st') => let '(rows, o) := run f st' in (row :: rows, o)
          end
        else ([], Done)
    end.

  Definition total_len (walks : list (list P)) : nat := fold_right (fun w n => length w + n) 0 walks.

  (* the sequence of (relative path, folders used) processed by synchronize_files *)
  Definition merge (walks : list (list P)) : list (P * list nat) * outcome :=
    run (S (total_len walks)) (init walks).
End Merge.

Arguments mkrep {P}.
Arguments mkst {P}.

(* ------------------------------------------------------------------------------------------ *)
(* Part 2: the comparison of the code.  A path is its list of parts; '' is the empty name. *)
Section CodeOrder.
  Context {name : Type} (nltb : name -> name -> bool) (is_empty : name -> bool) (empty : name).

  (* pathkey: `while len(parts) > 1 and parts[0] == '': parts.pop(0)` *)
  Fixpoint strip (parts : list name) : list name :=
    match parts with
    | x :: (_ :: _) as t => if is_empty x then strip t else parts
    | _ => parts
    end.

  (* (parts[:-1], parts[-1]) *)
  Definition code_key (parts : list name) : list name * name :=
    let s := strip parts in (removelast s, last s empty).

  (* comparison of the keys: Python tuple / list / str comparison *)
  Definition code_ltb (p q : list name) : bool := walk_ltb nltb (code_key p) (code_key q).

  (* the ORIGINAL comparison (before the fix), kept for the refutation in Props/C07.v:
     both part lists left-padded with '' to the same length, then compared as lists *)
  Definition pad (k : nat) (parts : list name) : list name :=
    repeat empty (k - length parts) ++ parts.
  Definition cmp_padded (p q : list name) : bool :=
    let k := Nat.max (length p) (length q) in lex_ltb nltb (pad k p) (pad k q).

  (* sort_dict_of_paths as a whole: pad every value to the longest length, then sort *)
  Definition max_rec (d : list (nat * option (list name))) : nat :=
    fold_right (fun e m => Nat.max (match snd e with Some p => length p | None => 0 end) m) 0 d.
  Definition pad_all (d : list (nat * option (list name))) : list (nat * option (list name)) :=
    let k := max_rec d in
    map (fun e => (fst e, match snd e with
                          | Some [] => Some []                 (* `if d[key]:` is false for [] *)
                          | Some p => Some (pad k p)
                          | None => None end)) d.
  (* sorted(d.items(), key=pathkey) on the padded values; a [] value (never produced by
     synchronize_files) is outside the model *)
  Definition sort_dict_of_paths (d : list (nat * option (list name))) :=
    sort_items code_key (walk_ltb nltb) (pad_all d).
End CodeOrder.

(* ------------------------------------------------------------------------------------------ *)
(* Part 3: contents.  A replica is the list of its walk results (parts, bytes). *)
Section Sync.
  Context {name B : Type} (nltb : name -> name -> bool) (neqb : name -> name -> bool)
          (is_empty : name -> bool) (empty : name) (beqb : B -> B -> bool).

  Fixpoint parts_eqb (p q : list name) : bool :=
    match p, q with
    | [], [] => true
    | x :: a, y :: b => neqb x y && parts_eqb a b
    | _, _ => false
    end.

  Fixpoint lookup (p : list name) (w : list (list name * list B)) : option (list B) :=
    match w with
    | [] => None
    | (q, c) :: t => if parts_eqb p q then Some c else lookup p t
    end.

  (* fileslist: the copies of p in the folders of the group, in group order *)
  Definition copies_of (p : list name) (ws : list (list (list name * list B))) (hs : list nat) : list (list B) :=
    flat_map (fun i => match lookup p (nth i ws []) with Some c => [c] | None => [] end) hs.

  (* one report row: path, folders used, bytes written to the output path, error code *)
  Definition row : Type := list name * list nat * list B * nat.

  (* single copy: shutil.copyfile, no error; otherwise majority_vote_byte_scan *)
  Definition process (bs : nat) (ws : list (list (list name * list B))) (e : list name * list nat) : row :=
    let '(p, hs) := e in
    let cs := copies_of p ws hs in
    match hs with
    | [_] => (p, hs, hd [] cs, 0)          (* len(to_process) == 1 *)
    | _ => let '(o, s) := vote_chunked beqb bs cs in (p, hs, o, s)
    end.

  Definition sync (bs : nat) (ws : list (list (list name * list B))) : list row * outcome :=
    let '(rows, o) := merge (code_key is_empty empty) (walk_ltb nltb) parts_eqb (map (map fst) ws) in
    (map (process bs ws) rows, o).

  (* return code of synchronize_files *)
  Definition retcode (rows : list row) : nat :=
    if existsb (fun r => negb (snd r =? 0)) rows then 1 else 0.
End Sync.

(* ------------------------------------------------------------------------------------------ *)
(* Part 4: the instance run by the driver and used in Props/C07.v.  A name is its UTF-8 byte
   string; Python compares str by code point, which is the lexicographic order of the UTF-8
   bytes; '' is []. *)
Definition byte_ltb (x y : byte) : bool := N.ltb (Byte.to_N x) (Byte.to_N y).
Definition bname : Type := list byte.
Definition bname_ltb : bname -> bname -> bool := lex_ltb byte_ltb.
Definition bname_eqb : bname -> bname -> bool := parts_eqb byte_eqb.
Definition bname_empty (n : bname) : bool := match n with [] => true | _ => false end.
Definition bpath_ltb : list bname -> list bname -> bool := code_ltb bname_ltb bname_empty [].
Definition bpath_key : list bname -> list bname * bname := code_key bname_empty [].
Definition bkey_ltb : list bname * bname -> list bname * bname -> bool := walk_ltb bname_ltb.
Definition bpath_eqb : list bname -> list bname -> bool := parts_eqb bname_eqb.
(* a replica folder as a tree of byte-named files with byte contents; what recwalk +
   relpath_posix yield for it, with the content of each file *)
Definition btree : Type := @tree bname (list byte).
Definition replica_of (t : btree) : list (list bname * list byte) :=
  map (fun e => (parts_of e, payload e)) (walk bname_ltb t).
Definition bsync (bs : nat) (ws : list (list (list bname * list byte))) :=
  sync bname_ltb bname_eqb bname_empty [] byte_eqb bs ws.
(* `pff dup` on replica folders: (report rows, outcome) *)
Definition dup (bs : nat) (ts : list btree) := bsync bs (map replica_of ts).
