(* Select.v — correction restricted with -e/--errors_file (header_ecc.py / structural_adaptive_ecc.py, main(), correction loop).
   The paths read from the errors file form a list L; when L is not empty an entry whose (intra-ecc corrected) path is not in L is
   left with a bare `continue`: it is neither processed nor counted as skipped.  The test sits AFTER both intra-ecc corrections and
   the int() of the size field (an entry whose size field cannot be read is counted as skipped whatever the list says) and BEFORE
   the NUL / existence / size tests.
   The loop is given in the form Proofs/StreamP.v proves equal to the cursor loops of Stream.v (results_h_spec, results_w_spec):
   one result per entry of the scanner specification, in order. *)
From Coq Require Import List NArith ZArith Bool.
From Coq Require Import Strings.Byte.
From PFF Require Import Bytes Stream.
Import ListNotations.

Section Select.
  Variables marker delim : list byte.
  Variable ignore_size : bool.
  Variable look : list byte -> option (list byte).
  Variable intra : list byte -> list byte -> list byte.
  Variable L : list (list byte).                 (* paths of the errors file, as bytes (latin-1); [] = no restriction *)

  Definition listed (p : list byte) : bool := existsb (bytes_eqb p) L.
  Definition active : bool := match L with [] => false | _ => true end.

  (* does the loop go on with the entry that has these fields? *)
  Definition kept (f : fields) : bool :=
    match py_int (intra (f_size f) (f_secc f)) with
    | None => true
    | Some _ => negb active || listed (intra (f_path f) (f_pecc f))
    end.

  Variable blocksH : list byte -> Z -> list byte -> bres.
  Definition results_h_sel (db : list byte) : list eres :=
    flat_map (fun se => let text := sub db (fst se) (snd se) in
                        if kept (get_fields delim text) then [entry_h delim ignore_size look intra blocksH text] else [])
             (entries_spec marker db).
  Definition run_h_sel (db : list byte) : outcome := finish (steps (c0, []) (results_h_sel db)).

  Variable window : nat.
  Variable blocksW : list byte -> nat -> nat -> Z -> list byte -> bres * nat.
  Definition results_w_sel (db : list byte) : list eres :=
    flat_map (fun se => if kept (get_fields delim (sub db (fst se) (fst se + window)))
                        then [fst (fst (entry_w delim ignore_size look intra window blocksW db (fst se) (snd se)))] else [])
             (entries_spec marker db).
  Definition run_w_sel (db : list byte) : outcome := finish (steps (c0, []) (results_w_sel db)).
End Select.
