(* FacadeDec.v — executable model of what ECCMan.decode (lib/eccman.py) does AROUND the third-party decoder, for all four
   codecs since fix 90b3a68 (before it: codecs 1 and 2 only, whence the name fac_decode12): erasure positions, left/right
   padding, the call of the decoder on the padded word, the capacity check added by fix e31d8d3 and extended to reedsolo by
   90b3a68 (2*errors + erasures <= n-k, errors counted over message AND parity outside the erased positions), stripping of
   the pad, left-justification of the returned parity.  The decoder itself is the
   parameter `inner` (padded word, erasure positions) -> answer | refusal.  Model only. *)
From Coq Require Import List Arith Bool NArith.
From Coq Require Import Strings.Byte.
From PFF Require Import Bytes GF256 RS Facade.
Import ListNotations.

(* bytearray.rjust(w, b"\0") *)
Definition rjust (w : nat) (l : list byte) : list byte := repeat x00 (w - length l) ++ l.

(* len(set(erasures_pos)) *)
Definition distinct (E : list nat) : nat := length (nodup Nat.eq_dec E).

Definition fac_decode12 (inner : list byte -> list nat -> option (list byte * list byte))
           (n selfk k : nat) (er : option byte) (m e : list byte) : option (list byte * list byte) :=
  let k' := eff_k selfk k in
  let E := erasure_set k' er m e in
  let r := received n k' m e in
  match inner r E with
  | None => None                                     (* the decoder raised *)
  | Some (mr, er_) =>
      let repaired := rjust k' mr ++ rjust (n - k') er_ in
      if n - k' <? 2 * RS.errs byte byte_eqb E r repaired + distinct E
      then None                                      (* "Too many errors to correct" *)
      else Some (skipn (k' - length m) mr, rjust (n - k') er_)
  end.
