From Coq Require Import Ring List Arith Lia Bool.
Import ListNotations.
Section BCH.
Variable F : Type.
Variables (zero one : F) (add mul sub : F->F->F) (opp : F->F).
Hypothesis Rth : ring_theory zero one add mul sub opp (@eq F).
Hypothesis integral : forall a b, mul a b = zero -> a = zero \/ b = zero.
Variable eqb : F -> F -> bool.
Hypothesis eqb_spec : forall a b, reflect (a = b) (eqb a b).
Add Ring Fring : Rth.
Notation "0" := zero. Notation "1" := one.
Infix "+" := add. Infix "*" := mul. Infix "-" := sub.

Fixpoint pow (x:F) (n:nat) : F := match n with O => 1 | S k => x * pow x k end.
(* a word as list of (locator, coefficient) *)
Definition word := list (F*F).
Fixpoint S (l:word) (e:nat) : F := match l with [] => 0 | (X,c)::t => c * pow X e + S t e end.
Definition weight (l:word) : nat := length (filter (fun p => negb (eqb (snd p) 0)) l).
Definition allzero (l:word) := Forall (fun p => snd p = 0) l.
Definition twist (X0:F) (l:word) : word := map (fun p => (fst p, snd p * (fst p - X0))) l.

Lemma S_twist X0 l e : S (twist X0 l) e = S l (Datatypes.S e) - X0 * S l e.
Proof. induction l as [|[X c] t IH]; cbn [twist map S fst snd pow]; [ring|]. fold (twist X0 t). rewrite IH. cbn [pow]. ring. Qed.

Lemma weight_zero_allzero l : weight l = 0%nat -> allzero l.
Proof.
  unfold weight, allzero. induction l as [|[X c] t IH]; cbn [filter snd]; intro H; [constructor|].
  destruct (eqb_spec c 0) as [E|E]; cbn [negb] in H.
  - constructor; [exact E| apply IH; exact H].
  - cbn [length] in H. discriminate.
Qed.

Lemma mul0 a : a * 0 = 0. Proof. ring. Qed.
Lemma mul0l a : 0 * a = 0. Proof. ring. Qed.

(* twisting by the locator of a nonzero entry strictly decreases weight *)
Lemma weight_twist_le X0 l : (weight (twist X0 l) <= weight l)%nat.
Proof.
  unfold weight. induction l as [|[X c] t IH]; cbn [twist map filter fst snd]; [lia|]. fold (twist X0 t).
  destruct (eqb_spec c 0) as [E|E]; cbn [negb].
  - subst c. rewrite mul0l. destruct (eqb_spec 0 0) as [_|N]; [cbn [negb]; exact IH| exfalso; apply N; reflexivity].
  - destruct (eqb_spec (c * (X - X0)) 0); cbn [negb length]; lia.
Qed.

Lemma weight_twist_lt X0 c0 l : In (X0,c0) l -> c0 <> 0 -> (weight (twist X0 l) < weight l)%nat.
Proof.
  unfold weight. induction l as [|[X c] t IH]; cbn [In]; intros HIn Hc; [tauto|].
  cbn [twist map filter fst snd]. fold (twist X0 t).
  destruct HIn as [E|HIn].
  - inversion E; subst X c. replace (c0 * (X0 - X0)) with 0 by ring.
    destruct (eqb_spec 0 0) as [_|N]; [|exfalso; apply N; reflexivity]. cbn [negb].
    destruct (eqb_spec c0 0) as [E0|_]; [contradiction|]. cbn [negb length].
    pose proof (weight_twist_le X0 t) as Hle. unfold weight in Hle. lia.
  - specialize (IH HIn Hc).
    destruct (eqb_spec c 0) as [E|E]; cbn [negb].
    + subst c. rewrite mul0l. destruct (eqb_spec 0 0) as [_|N]; [cbn [negb]; exact IH| exfalso; apply N; reflexivity].
    + destruct (eqb_spec (c * (X - X0)) 0); cbn [negb length]; lia.
Qed.

Lemma pow_nz X e : X <> 0 -> pow X e <> 0.
Proof. intros HX. induction e as [|e IH]; cbn [pow].
  - intro H. apply HX. replace X with (X * 1) by ring. rewrite H. ring.
  - intro H. destruct (integral _ _ H); tauto. Qed.

Lemma S_allzero l e : allzero l -> S l e = 0.
Proof. induction 1 as [|[X c] t Hc _ IH]; cbn [S]; [reflexivity|]. cbn [snd] in Hc. subst c. rewrite IH. ring. Qed.

Lemma exists_nonzero l : ~ allzero l -> exists X c, In (X,c) l /\ c <> 0.
Proof. induction l as [|[X c] t IH]; intro H; [exfalso; apply H; constructor|].
  destruct (eqb_spec c 0) as [E|E].
  - destruct IH as (X'&c'&HI&Hc). { intro A. apply H. constructor; [exact E|exact A]. } exists X', c'. split; [right; exact HI|exact Hc].
  - exists X, c. split; [left; reflexivity|exact E]. Qed.

Lemma allzero_dec l : {allzero l} + {~ allzero l}.
Proof. induction l as [|[X c] t [IH|IH]].
  - left; constructor.
  - destruct (eqb_spec c 0); [left; constructor; assumption| right; intro A; inversion A; subst; cbn in *; contradiction].
  - right; intro A; inversion A; contradiction. Qed.

Theorem bch : forall d b l,
  NoDup (map fst l) -> Forall (fun p => fst p <> 0) l ->
  (weight l <= d)%nat -> (forall i, (i < d)%nat -> S l (b+i) = 0) -> allzero l.
Proof.
  induction d as [|d IH]; intros b l Hnd Hnz Hw Hs.
  - apply weight_zero_allzero. lia.
  - destruct (allzero_dec l) as [A|A]; [exact A|exfalso].
    destruct (exists_nonzero l A) as (X0&c0&HIn&Hc0).
    assert (Hz : allzero (twist X0 l)).
    { apply (IH b).
      - unfold twist. rewrite map_map. cbn [fst]. exact Hnd.
      - unfold twist. rewrite Forall_map. cbn [fst]. exact Hnz.
      - pose proof (weight_twist_lt X0 c0 l HIn Hc0). lia.
      - intros i Hi. rewrite S_twist. replace (Datatypes.S (b+i)) with (b + Datatypes.S i)%nat by lia.
        rewrite (Hs (Datatypes.S i)) by lia. rewrite (Hs i) by lia. ring. }
    (* every entry with locator <> X0 has zero coefficient *)
    assert (Hother : forall X c, In (X,c) l -> X <> X0 -> c = 0).
    { intros X c HI HX. unfold allzero, twist in Hz. rewrite Forall_map in Hz. rewrite Forall_forall in Hz.
      specialize (Hz _ HI). cbn [fst snd] in Hz. destruct (integral _ _ Hz) as [E|E]; [exact E|].
      exfalso. apply HX. replace X with ((X - X0) + X0) by ring. rewrite E. ring. }
    (* S l b = c0 * X0^b *)
    assert (HS0 : forall e, S l e = c0 * pow X0 e).
    { intro e. clear - HIn Hother Hnd Rth. induction l as [|[X c] t IHl]; [destruct HIn|].
      cbn [S]. cbn [map fst] in Hnd. inversion Hnd as [|? ? Hni Hnd']; subst.
      destruct HIn as [E|HI].
      - inversion E; subst X c. 
        assert (Ht : S t e = 0).
        { apply S_allzero. apply Forall_forall. intros [X c] HI. cbn [snd]. apply (Hother X c); [right; exact HI|].
          intro EX; subst X. apply Hni. apply in_map_iff. exists (X0,c). split; [reflexivity|exact HI]. }
        rewrite Ht. ring.
      - assert (c = 0). { apply (Hother X c); [left; reflexivity|]. intro EX; subst X. apply Hni. apply in_map_iff. exists (X0,c0). split; [reflexivity|exact HI]. }
        subst c. rewrite IHl; [ring| exact Hnd' | exact HI | intros X' c' HI' HX'; apply (Hother X' c'); [right; exact HI'|exact HX']]. }
    specialize (Hs 0%nat ltac:(lia)). rewrite HS0 in Hs.
    destruct (integral _ _ Hs) as [E|E]; [contradiction|].
    rewrite Forall_forall in Hnz. specialize (Hnz _ HIn). cbn [fst] in Hnz.
    exact (pow_nz X0 _ Hnz E).
Qed.
End BCH.
Print Assumptions bch.
